"""Append one evaluation record to seeded/<id>/evaluations.jsonl (called by seed_eval.sh)."""
import json
import re
import subprocess
import sys
import time

sid, prop, tier, code, out = sys.argv[1:6]
text = open(out, errors="replace").read()
whats = re.findall(r"what: (.*)", text)
summ = [ln for ln in text.splitlines() if ln.startswith(f"[{prop}]")]


def head(d):
    return subprocess.run(["git", "-C", d, "rev-parse", "--short", "HEAD"], capture_output=True, text=True).stdout.strip()


rec = {
    "when": time.strftime("%Y-%m-%dT%H:%M:%S"),
    "repo_head": head("/repo"),
    "verif_head": head("/verif"),
    "verif_dirty": bool(subprocess.run(["git", "-C", "/verif", "status", "--porcelain", "mc", "check"], capture_output=True, text=True).stdout.strip()),
    "command": f"tools/seed_eval.sh {sid} {prop} {tier}  (= ./check {prop} --tier {tier} with the patch applied to a scratch worktree)",
    "property": prop,
    "tier": tier,
    "exit": int(code),
    "violation_lines": len(re.findall(r"^VIOLATION", text, re.M)),
    "first_what": whats[:2],
    "summary": summ[-1] if summ else "",
}
with open(f"/verif/seeded/{sid}/evaluations.jsonl", "a") as f:
    f.write(json.dumps(rec) + "\n")
