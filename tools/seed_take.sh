#!/bin/bash
# usage: seed_take.sh <P> [seed id]  -- copy a sub-agent's deliverables from /tmp/seedout/<P> to /verif/seeded/<P>-a, confirm them, remove its worktree
P=$1; SID=${2:-$P-a}
mkdir -p /verif/seeded/$SID
cp /tmp/seedout/$P/patch.diff /tmp/seedout/$P/demo.py /tmp/seedout/$P/meta.json /verif/seeded/$SID/ || exit 2
/verif/tools/seed_confirm.sh $SID | tee /verif/seeded/$SID/confirm.txt
git -C /repo worktree remove --force /tmp/wt/$P 2>/dev/null
