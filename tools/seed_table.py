"""Print the markdown rows of DESIGN.md section 9.5 from seeded/*/meta.json + evaluations.jsonl + NOTES.json."""
import glob
import json
import os

notes = json.load(open("/verif/seeded/NOTES.json"))
for d in sorted(glob.glob("/verif/seeded/C*")):
    sid = os.path.basename(d)
    meta = json.load(open(d + "/meta.json"))
    evs = []
    if os.path.exists(d + "/evaluations.jsonl"):
        evs = [json.loads(x) for x in open(d + "/evaluations.jsonl") if x.strip()]
    last = {}
    for e in evs:
        last[(e["property"], e["tier"])] = e
    caught = [f"{p} {t} ({e['violation_lines']} lines)" for (p, t), e in sorted(last.items()) if e["exit"] == 1]
    missed = [f"{p} {t}" for (p, t), e in sorted(last.items()) if e["exit"] == 0]
    what = (meta.get("what_it_breaks") or "").split(". ")[0][:160].replace("|", "/").replace("\n", " ")
    files = ",".join(os.path.basename(f) for f in meta.get("files_changed", []))
    res = "; ".join(caught) if caught else ("MISSED: " + "; ".join(missed) if missed else "not evaluated")
    if caught and missed:
        res += " (not by: " + "; ".join(missed) + ")"
    print(f"| {sid} | {files}: {what} | {res} | {notes.get(sid, '')} |")
