#!/venv/bin/python
"""Generate /verif/MANIFEST.json from the per-property table below and validate it."""
import json
import os
import sys

sys.path.insert(0, "/verif/_deps")
HERE = os.path.dirname(os.path.dirname(os.path.abspath(__file__)))

ALL = [f"C{n:02d}" for n in range(1, 30)]

# property -> (technique, level text, level note, design ref)
CHECKS = {}
NOT_APPLICABLE = {}


def check(pid, technique, text, note, ref):
    CHECKS[pid] = (technique, text, note, ref)


exec(open(os.path.join(HERE, "tools", "manifest_table.py")).read())

ENGINE_OF = {}
for _p in "C02 C03 C04 C05 C06 C07 C08 C09 C10 C14 C17 C18 C21 C23 C24".split():
    ENGINE_OF[_p] = "term-graph explorer"
for _p in "C12 C13 C20 C27".split():
    ENGINE_OF[_p] = "history explorer"
for _p in "C01 C11 C15 C16 C19 C22 C25 C26 C28 C29".split():
    ENGINE_OF[_p] = "product enumerator"

checks = []
for pid in ALL:
    if pid not in CHECKS:
        continue
    technique, text, note, ref = CHECKS[pid]
    checks.append(
        {
            "property_id": pid,
            "quick_cmd": f"./check {pid} --tier quick",
            "thorough_cmd": f"./check {pid} --tier thorough",
            "evidence_file": f"/verif/evidence/{pid}.json",
            "replay_cmd_template": f"./check {pid} --replay {{path}}",
            "engine": ENGINE_OF[pid],
            "level_claimed": {"category": "model_checking", "text": text, "design_ref": ref},
            "level_note": note,
            "technique": technique,
        }
    )
na = [
    {"property_id": pid, "reason": NOT_APPLICABLE.get(pid, "check not built yet in this session; see DESIGN.md section 3 for the planned bounded exhaustive check")}
    for pid in ALL
    if pid not in CHECKS
]
manifest = {
    "version": 1,
    "setup_cmd": "/venv/bin/pip install -q --no-index --find-links /opt/veriftools/wheels --target /verif/_deps mpmath jsonschema && ./check selftest",
    "hooks": {
        "guard": "FENICS_UFL_VERIF",
        "enable": "no source hooks are needed: checks import ufl from /repo's working tree (editable install) with FENICS_UFL_VERIF=1 set",
        "baseline_off_cmd": "cd /repo && /venv/bin/python -m pytest -ra -q -p no:cacheprovider --timeout=900 --continue-on-collection-errors",
        "source_commits": [],
        "add_only": True,
    },
    "engines": [
        {
            "name": "term-graph explorer",
            "path": "/verif/mc/explore.py",
            "serves_properties": [c["property_id"] for c in checks if c["engine"] == "term-graph explorer"],
            "kind_free_text": "explicit-state breadth-first exploration of public-API constructor recipes on the real code, deduplicated on object repr, every state compared with the reference semantics",
        },
        {
            "name": "history explorer",
            "path": "/verif/mc/props (c12.py, c13_hist.py, c20.py, c27.py + c27_events.py): one explorer per driver, sharing mc/runner.py (fork pool, evidence, replay)",
            "serves_properties": [c["property_id"] for c in checks if c["engine"] == "history explorer"],
            "kind_free_text": "exhaustive enumeration of event histories on the real code in forked process images",
        },
        {
            "name": "product enumerator",
            "path": "/verif/mc/props (c01.py, c11.py, c15.py, c16.py, c19.py, c22.py, c25.py, c26.py, c28.py, c29.py)",
            "serves_properties": [c["property_id"] for c in checks if c["engine"] == "product enumerator"],
            "kind_free_text": "complete enumeration of a finite catalogue x option/mutation product (all pairs / triples where the property is relational) executed on the real code and compared with the reference model",
        },
        {
            "name": "reference model",
            "path": "/verif/mc/sem",
            "serves_properties": [c["property_id"] for c in checks],
            "kind_free_text": "independent value semantics of UFL objects and of the public language (50-digit arithmetic, jets, concrete affine cells)",
        },
    ],
    "checks": checks,
    "not_applicable": na,
    "notes": "All checks are bounded exhaustive explorations (no sampling); VERIF_SEED only permutes the sharding order. See DESIGN.md.",
}
import jsonschema

with open("/root/.vp/MANIFEST.schema.json") as f:
    jsonschema.validate(manifest, json.load(f))
with open(os.path.join(HERE, "MANIFEST.json"), "w") as f:
    json.dump(manifest, f, indent=1)
print("MANIFEST.json written:", len(checks), "checks,", len(na), "not_applicable")
