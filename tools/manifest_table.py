check(
    "C05",
    "explicit-state BFS over public-API constructor recipes (depth 3, 3 reused indices) on the real code vs reference interpreter",
    "Every expression of the stated grammar (16 terminals, ~60 operators/indexing patterns, depth <= 3 with the stated comb bound, index pool i,j,k reused across scopes) is built through the public API and its shape, free indices and value in every environment are compared with the recipe's meaning under an independent interpreter; ~5e5 distinct states per quick run.",
    "Trusted: the reference interpreter L and evaluator Sem in /verif/mc/sem; lexical scoping of indices; values checked on 2-3 fixed generic environments with 50-digit arithmetic (tolerance 1e-10 for folded float literals). Nothing is claimed for deeper terms.",
    "DESIGN.md 3 C05",
)
check(
    "C10",
    "explicit-state BFS over index-notation recipes (pipeline grammar depth 5-6, 3 reused Index objects); passes run on every state vs reference value",
    "Every expression of the stated pipeline grammar (index, multiply/add, as_tensor with all index permutations, index again with the same pool indices, multiply/add again) is built on the real API; expand_indices, remove_component_tensors, renumber_indices and their length-2 compositions are executed on each state and the result is compared with the input for shape, free indices and value at every free-index assignment (lexical scoping); expand_indices results are checked to contain no index nodes.",
    "Trusted: the reference evaluator Sem (lexical scoping of indices). Exceptions from a pass are counted as rejections, not alarms. Depth/alphabet bounds as stated in the evidence; variables are pre-built terminals (scalar, vector, matrix).",
    "DESIGN.md 3 C10",
)
