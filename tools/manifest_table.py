check(
    "C05",
    "explicit-state BFS over public-API constructor recipes (depth 3, 3 reused indices) on the real code vs reference interpreter",
    "Every expression of the stated grammar (16 terminals, ~60 operators/indexing patterns, depth <= 3 with the stated comb bound, index pool i,j,k reused across scopes) is built through the public API and its shape, free indices and value in every environment are compared with the recipe's meaning under an independent interpreter; ~5e5 distinct states per quick run.",
    "Trusted: the reference interpreter L and evaluator Sem in /verif/mc/sem; lexical scoping of indices; values checked on 2-3 fixed generic environments with 50-digit arithmetic (tolerance 1e-10 for folded float literals). Nothing is claimed for deeper terms.",
    "DESIGN.md 3 C05",
)
