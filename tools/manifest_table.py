check(
    "C05",
    "explicit-state BFS over public-API constructor recipes (depth 3, 3 reused indices) on the real code vs reference interpreter",
    "Every expression of the stated grammar (16 terminals, ~60 operators/indexing patterns, depth <= 3 with the stated comb bound, index pool i,j,k reused across scopes) is built through the public API and its shape, free indices and value in every environment are compared with the recipe's meaning under an independent interpreter; ~5e5 distinct states per quick run.",
    "Trusted: the reference interpreter L and evaluator Sem in /verif/mc/sem; lexical scoping of indices; values checked on 2-3 fixed generic environments with 50-digit arithmetic (tolerance 1e-10 for folded float literals). Nothing is claimed for deeper terms.",
    "DESIGN.md 3 C05",
)
check(
    "C10",
    "explicit-state BFS over index-notation recipes (pipeline grammar depth 5-6, 3 reused Index objects); passes run on every state vs reference value",
    "Every expression of the stated pipeline grammar (index, multiply/add, as_tensor with all index permutations, index again with the same pool indices, multiply/add again) is built on the real API; expand_indices, remove_component_tensors, renumber_indices and their length-2 compositions are executed on each state and the result is compared with the input for shape, free indices and value at every free-index assignment (lexical scoping); expand_indices results are checked to contain no index nodes.",
    "Trusted: the reference evaluator Sem (lexical scoping of indices). Exceptions from a pass are counted as rejections, not alarms. Depth/alphabet bounds as stated in the evidence; variables are pre-built terminals (scalar, vector, matrix).",
    "DESIGN.md 3 C10",
)
check(
    "C06",
    "exhaustive operator-table enumeration (operators x shapes x operand kinds x nestings) + complete {0,1}^(n*n) matrix grids, real lowering vs reference definitions",
    "Every compound tensor/differential operator x every operand shape it accepts (1..4 square, rectangular, vectors 2/3, ranks 1-3) x operand kinds (coefficient, sum, list tensor, zero rows, scaled, transposed, operands with free indices) x all unary-after-unary/binary nestings is lowered by the real apply_algebra_lowering and compared in shape, free indices and value (real and complex data) with the operator's definition; the hand-expanded det/cofactor/inverse/deviatoric tables are checked on the complete {0,1} grid of matrix entries (a proof of the multilinear polynomial identity for n<=3, n=4 in the thorough tier) and pseudo-determinant/-inverse on integer grids of rectangular matrices.",
    "Trusted: reference definitions in /verif/mc/sem (Leibniz determinant, Gauss-Jordan inverse, textbook div/curl/grad via jets); conjugation conventions taken from the public docstrings; pseudo-determinant/-inverse for real matrices only.",
    "DESIGN.md 3 C06",
)
check(
    "C07",
    "exhaustive enumeration of all integer-grid affine cells x facets x orientations; real geometry lowering evaluated vs direct vertex geometry",
    "For every cell type (interval in 1D/2D/3D, triangle in 2D/3D, tetrahedron) every non-degenerate cell with vertices on the stated integer grid, every facet and both orientations on immersed cells: each geometric quantity is lowered by the real apply_geometry_lowering and the resulting expression (in J, reference-cell tables, CellOrientation) evaluated by the reference evaluator equals the quantity computed directly from the vertex coordinates (Gram determinants, circumcentre system, Gram-Schmidt normals, vertex-pair distances).",
    "Trusted: FEniCS/basix reference-cell tables (appendix B of DESIGN.md) and the vertex formulas in /verif/mc/sem/cells.py (self-tested with Cayley-Menger/Heron identities). Ridge quantities and non-affine cells are not covered. Quantities UFL refuses to lower are counted, not alarms.",
    "DESIGN.md 3 C07",
)
check(
    "C08",
    "exhaustive catalogue enumeration (pullback kinds x reference shapes x mixed/symmetric nestings x cell types x concrete cells); real apply_function_pullbacks vs direct push-forward",
    "Every pullback kind (identity, co-/contravariant Piola incl. row-wise on tensor-valued reference functions, L2 Piola, double co-/contravariant, covariant-contravariant), all ordered pairs and a cube of triples of leaf elements in mixed elements, symmetric 2x2/3x3 compositions of scalar/vector/Piola sub-elements, and two-level nestings, on interval/triangle/tetrahedron incl. immersed manifolds: apply_function_pullbacks is executed and its result evaluated on concrete cells (det J of both signs, both orientations, real and complex reference data) equals the push-forward written directly in the model; UFL shape == function space value shape == model shape.",
    "Trusted: the push-forward formulas in /verif/mc/sem/fields.py; on manifolds det J carries the CellOrientation sign (UFL convention). MeshSequence/mixed-cell elements, PhysicalPullback/CustomPullback are not covered.",
    "DESIGN.md 3 C08",
)
check(
    "C25",
    "complete enumeration of all predefined + directional Sobolev spaces: all pairs x 6 operators, all triples, all element-membership questions, vs independent inclusion relation",
    "Complete enumeration of the finite universe {12 predefined Sobolev spaces} u {DirectionalSobolevSpace(o): o in {0,1,2,inf}^d, d<=2} (thorough: {0,1,2,3,inf}^d and {0,1,2}^3): every ordered pair under <,>,<=,>=,==,!=, every triple, every (synthetic element, space) membership, executed on the real operators and decided against the order laws of the statement and an independently computed inclusion relation (parents read from the source with ast, transitive closure, componentwise order for directional spaces).",
    "Exhaustive within the stated order alphabet. Pairs the code declares unknown (NotImplementedError) are excluded from the reference comparison only; triples mixing two directional dimensions carry no verdict. Trusted: the reference inclusion relation in the driver.",
    "DESIGN.md 3 C25",
)
check(
    "C26",
    "complete enumeration of all named cells, tensor product cells (tdim<=3/4) and recursively all sub-entities vs a face-lattice model; order laws on all pairs/triples",
    "All 10 named cells, all TensorProductCells of named factors (<=3 factors, tdim<=3; thorough <=4/<=4 plus nested products) and recursively every sub-entity are compared with an independent face-lattice model (point/cone/product constructions): counts, entity types, Euler relation, incidence double counting, diamond property, all accessors, simplex flags; < is checked to be a strict total order on all pairs and triples of the resulting universe (174 / 761 objects).",
    "Exhaustive for the named-cell table and the stated product bounds. TensorProductCell entries refused with NotImplementedError are recorded as not provided (no verdict). Entity order inside a tuple is recorded, not required. Trusted: the combinatorial model in the driver (self-validated against closed simplex/hypercube formulas).",
    "DESIGN.md 3 C26",
)
