check(
    "C05",
    "explicit-state BFS over public-API constructor recipes (depth 3, 3 reused indices) on the real code vs reference interpreter",
    "Every expression of the stated grammar (16 terminals, ~60 operators/indexing patterns, depth <= 3 with the stated comb bound, index pool i,j,k reused across scopes) is built through the public API and its shape, free indices and value in every environment are compared with the recipe's meaning under an independent interpreter; ~5e5 distinct states per quick run.",
    "Trusted: the reference interpreter L and evaluator Sem in /verif/mc/sem; lexical scoping of indices; values checked on 2-3 fixed generic environments with 50-digit arithmetic (tolerance 1e-10 for folded float literals). Nothing is claimed for deeper terms.",
    "DESIGN.md 3 C05",
)
check(
    "C10",
    "explicit-state BFS over index-notation recipes (pipeline grammar depth 5-6, 3 reused Index objects); passes run on every state vs reference value",
    "Every expression of the stated pipeline grammar (index, multiply/add, as_tensor with all index permutations, index again with the same pool indices, multiply/add again) is built on the real API; expand_indices, remove_component_tensors, renumber_indices and their length-2 compositions are executed on each state and the result is compared with the input for shape, free indices and value at every free-index assignment (lexical scoping); expand_indices results are checked to contain no index nodes.",
    "Trusted: the reference evaluator Sem (lexical scoping of indices). Exceptions from a pass are counted as rejections, not alarms. Depth/alphabet bounds as stated in the evidence; variables are pre-built terminals (scalar, vector, matrix).",
    "DESIGN.md 3 C10",
)
check(
    "C06",
    "exhaustive operator-table enumeration (operators x shapes x operand kinds x nestings) + complete {0,1}^(n*n) matrix grids, real lowering vs reference definitions",
    "Every compound tensor/differential operator x every operand shape it accepts (1..4 square, rectangular, vectors 2/3, ranks 1-3) x operand kinds (coefficient, sum, list tensor, zero rows, scaled, transposed, operands with free indices) x all unary-after-unary/binary nestings is lowered by the real apply_algebra_lowering and compared in shape, free indices and value (real and complex data) with the operator's definition; the hand-expanded det/cofactor/inverse/deviatoric tables are checked on the complete {0,1} grid of matrix entries (a proof of the multilinear polynomial identity for n<=3, n=4 in the thorough tier) and pseudo-determinant/-inverse on integer grids of rectangular matrices.",
    "Trusted: reference definitions in /verif/mc/sem (Leibniz determinant, Gauss-Jordan inverse, textbook div/curl/grad via jets); conjugation conventions taken from the public docstrings; pseudo-determinant/-inverse for real matrices only.",
    "DESIGN.md 3 C06",
)
check(
    "C07",
    "exhaustive enumeration of all integer-grid affine cells x facets x orientations; real geometry lowering evaluated vs direct vertex geometry",
    "For every cell type (interval in 1D/2D/3D, triangle in 2D/3D, tetrahedron) every non-degenerate cell with vertices on the stated integer grid, every facet and both orientations on immersed cells: each geometric quantity is lowered by the real apply_geometry_lowering and the resulting expression (in J, reference-cell tables, CellOrientation) evaluated by the reference evaluator equals the quantity computed directly from the vertex coordinates (Gram determinants, circumcentre system, Gram-Schmidt normals, vertex-pair distances).",
    "Trusted: FEniCS/basix reference-cell tables (appendix B of DESIGN.md) and the vertex formulas in /verif/mc/sem/cells.py (self-tested with Cayley-Menger/Heron identities). Ridge quantities and non-affine cells are not covered. Quantities UFL refuses to lower are counted, not alarms.",
    "DESIGN.md 3 C07",
)
