check(
    "C05",
    "explicit-state BFS over public-API constructor recipes (depth 3, 3 reused indices) on the real code vs reference interpreter",
    "Every expression of the stated grammar (16 terminals, ~60 operators/indexing patterns, depth <= 3 with the stated comb bound, index pool i,j,k reused across scopes) is built through the public API and its shape, free indices and value in every environment are compared with the recipe's meaning under an independent interpreter; ~5e5 distinct states per quick run.",
    "Trusted: the reference interpreter L and evaluator Sem in /verif/mc/sem; lexical scoping of indices; values checked on 2-3 fixed generic environments with 50-digit arithmetic (tolerance 1e-10 for folded float literals). Nothing is claimed for deeper terms.",
    "DESIGN.md 3 C05",
)
check(
    "C10",
    "explicit-state BFS over index-notation recipes (pipeline grammar depth 5-6, 3 reused Index objects); passes run on every state vs reference value",
    "Every expression of the stated pipeline grammar (index, multiply/add, as_tensor with all index permutations, index again with the same pool indices, multiply/add again) is built on the real API; expand_indices, remove_component_tensors, renumber_indices and their length-2 compositions are executed on each state and the result is compared with the input for shape, free indices and value at every free-index assignment (lexical scoping); expand_indices results are checked to contain no index nodes.",
    "Trusted: the reference evaluator Sem (lexical scoping of indices). Exceptions from a pass are counted as rejections, not alarms. Depth/alphabet bounds as stated in the evidence; variables are pre-built terminals (scalar, vector, matrix).",
    "DESIGN.md 3 C10",
)
check(
    "C06",
    "exhaustive operator-table enumeration (operators x shapes x operand kinds x nestings) + complete {0,1}^(n*n) matrix grids, real lowering vs reference definitions",
    "Every compound tensor/differential operator x every operand shape it accepts (1..4 square, rectangular, vectors 2/3, ranks 1-3) x operand kinds (coefficient, sum, list tensor, zero rows, scaled, transposed, operands with free indices) x all unary-after-unary/binary nestings is lowered by the real apply_algebra_lowering and compared in shape, free indices and value (real and complex data) with the operator's definition; the hand-expanded det/cofactor/inverse/deviatoric tables are checked on the complete {0,1} grid of matrix entries (a proof of the multilinear polynomial identity for n<=3, n=4 in the thorough tier) and pseudo-determinant/-inverse on integer grids of rectangular matrices.",
    "Trusted: reference definitions in /verif/mc/sem (Leibniz determinant, Gauss-Jordan inverse, textbook div/curl/grad via jets); conjugation conventions taken from the public docstrings; pseudo-determinant/-inverse for real matrices only.",
    "DESIGN.md 3 C06",
)
check(
    "C07",
    "exhaustive enumeration of all integer-grid affine cells x facets x orientations; real geometry lowering evaluated vs direct vertex geometry",
    "For every cell type (interval in 1D/2D/3D, triangle in 2D/3D, tetrahedron) every non-degenerate cell with vertices on the stated integer grid, every facet and both orientations on immersed cells: each geometric quantity is lowered by the real apply_geometry_lowering and the resulting expression (in J, reference-cell tables, CellOrientation) evaluated by the reference evaluator equals the quantity computed directly from the vertex coordinates (Gram determinants, circumcentre system, Gram-Schmidt normals, vertex-pair distances).",
    "Trusted: FEniCS/basix reference-cell tables (appendix B of DESIGN.md) and the vertex formulas in /verif/mc/sem/cells.py (self-tested with Cayley-Menger/Heron identities). Ridge quantities and non-affine cells are not covered. Quantities UFL refuses to lower are counted, not alarms.",
    "DESIGN.md 3 C07",
)
check(
    "C08",
    "exhaustive catalogue enumeration (pullback kinds x reference shapes x mixed/symmetric nestings x cell types x concrete cells); real apply_function_pullbacks vs direct push-forward",
    "Every pullback kind (identity, co-/contravariant Piola incl. row-wise on tensor-valued reference functions, L2 Piola, double co-/contravariant, covariant-contravariant), all ordered pairs and a cube of triples of leaf elements in mixed elements, symmetric 2x2/3x3 compositions of scalar/vector/Piola sub-elements, and two-level nestings, on interval/triangle/tetrahedron incl. immersed manifolds: apply_function_pullbacks is executed and its result evaluated on concrete cells (det J of both signs, both orientations, real and complex reference data) equals the push-forward written directly in the model; UFL shape == function space value shape == model shape.",
    "Trusted: the push-forward formulas in /verif/mc/sem/fields.py; on manifolds det J carries the CellOrientation sign (UFL convention). MeshSequence/mixed-cell elements, PhysicalPullback/CustomPullback are not covered.",
    "DESIGN.md 3 C08",
)
check(
    "C25",
    "complete enumeration of all predefined + directional Sobolev spaces: all pairs x 6 operators, all triples, all element-membership questions, vs independent inclusion relation",
    "Complete enumeration of the finite universe {12 predefined Sobolev spaces} u {DirectionalSobolevSpace(o): o in {0,1,2,inf}^d, d<=2} (thorough: {0,1,2,3,inf}^d and {0,1,2}^3): every ordered pair under <,>,<=,>=,==,!=, every triple, every (synthetic element, space) membership, executed on the real operators and decided against the order laws of the statement and an independently computed inclusion relation (parents read from the source with ast, transitive closure, componentwise order for directional spaces).",
    "Exhaustive within the stated order alphabet. Pairs the code declares unknown (NotImplementedError) are excluded from the reference comparison only; triples mixing two directional dimensions carry no verdict. Trusted: the reference inclusion relation in the driver.",
    "DESIGN.md 3 C25",
)
check(
    "C26",
    "complete enumeration of all named cells, tensor product cells (tdim<=3/4) and recursively all sub-entities vs a face-lattice model; order laws on all pairs/triples",
    "All 10 named cells, all TensorProductCells of named factors (<=3 factors, tdim<=3; thorough <=4/<=4 plus nested products) and recursively every sub-entity are compared with an independent face-lattice model (point/cone/product constructions): counts, entity types, Euler relation, incidence double counting, diamond property, all accessors, simplex flags; < is checked to be a strict total order on all pairs and triples of the resulting universe (174 / 761 objects).",
    "Exhaustive for the named-cell table and the stated product bounds. TensorProductCell entries refused with NotImplementedError are recorded as not provided (no verdict). Entity order inside a tuple is recorded, not required. Trusted: the combinatorial model in the driver (self-validated against closed simplex/hypercube formulas).",
    "DESIGN.md 3 C26",
)
check(
    "C01",
    "exhaustive product of integrand templates x element settings x meshes x measures x compute_form_data option sets, preprocessed vs original integrand values per (integral type, subdomain)",
    "Every form of the product (about 45 integrand templates incl. index reuse, derivatives, conditionals, geometry, compound algebra, Gateaux derivatives) x 12 element settings (Lagrange, vector, tensor, RT, N1curl, L2-Piola, Regge, HHJ, covariant-contravariant, symmetric, two mixed) x 5 meshes (incl. immersed) x 6 measures (dx, dx(1), multi-subdomain sums, ds, dS) is run through the real compute_form_data under the option sets (quick: all 32 combinations of the five lowering flags with the other flags cycling; thorough: the full item product with a rotating 1/128 slice of all 1024 combinations per item, every combination covered across items); for every (integral type, subdomain id) of the result the summed model value of the preprocessed integrands on reference-frame data equals the measure scaling factor times the summed value of the original integrands that apply there; dropped subdomains are detected. Exceptions are accepted outcomes.",
    "Trusted: reference evaluator Sem (push-forwards, vertex geometry, jets), FEniCS reference-cell tables, model of the measure scaling (|det J| w, facet pseudo-determinant w). Affine simplex cells only; no MeshSequence / intersect measures / coefficients_to_split / quadrilaterals; integrands containing CoordinateDerivative (shape derivatives) have no model value and are skipped (seed C01-c, DESIGN 9.7). H1 data continuous across facets, all else independent per side.",
    "DESIGN.md 3 C01",
)
check(
    "C02",
    "explicit-state BFS over differentiable integrand recipes x 19 differentiation configurations; real derivative()+expand_derivatives vs tau-coefficient of the model value (jets)",
    "Every integrand F of the grammar (all math functions incl. Bessel/erf/atan2, powers, abs/sign/conj/real/imag, min/max, conditionals, indexing, tensor algebra, spatial derivatives; depth 2, thorough 3 comb) x every configuration (whole coefficient, component, tuples with given/mixed argument, mixed coefficient and split parts, list tensor of components; Argument / Coefficient / expression directions; coefficient_derivatives; second derivatives) is differentiated by the real code and compared with d/dtau Sem(F)(w + tau v) at tau = 0 computed by power series on the undifferentiated F.",
    "Trusted: jets (self-tested against closed forms / mpmath numerical derivatives) and Sem. Exceptions are accepted outcomes (the statement allows raising). Kinks within 1e-6 are skipped and counted.",
    "DESIGN.md 3 C02",
)
check(
    "C03",
    "explicit-state BFS over expression recipes with every spatial derivative operator nested 2-3 times; real expand_derivatives vs jet derivative of the model value + structural check",
    "Every expression f of the grammar (coefficients incl. Piola-mapped, constants, x, X, J, K, detJ, CellVolume; all math functions, powers, indexing, tensor algebra, conditionals; depth 2) with grad, nabla_grad, div, nabla_div, curl, .dx(k), .dx(i) applied and nested (2x quick, 3x thorough) on triangle and tetrahedron: the real expand_derivatives result contains derivatives of terminals only and its value equals K^T d/dX applied to the power series of Sem(f).",
    "Trusted: jets and Sem. Affine simplices only: non-affine cells (quadrilaterals, hexahedra, higher-order meshes), where J and K vary, are outside the model (seed C03-c, DESIGN 9.7). Immersed manifolds excluded (grad(x) = I convention is ambiguous there). Jet order 3/4 >= nesting depth.",
    "DESIGN.md 3 C03",
)
check(
    "C04",
    "explicit-state BFS over recipes on variables x all diff configurations (8 variables, repeated and mixed second derivatives); real diff()+expand_derivatives vs label-perturbation semantics",
    "Every expression of the grammar over scalar, vector and tensor variables, variables of sums/products, a nested variable and coefficients used as variables (depth 2) x diff with respect to each variable and 10 repeated/mixed second derivatives: shape f.shape + v.shape and value equal to the tau-coefficient of Sem(f) with the variable's label bound to value + tau E_alpha.",
    "Trusted: jets and Sem (Variable nodes evaluate their expression unless the label is overridden). For a Coefficient as variable the value is shifted, its spatial derivatives are not.",
    "DESIGN.md 3 C04",
)
check(
    "C09",
    "explicit-state BFS over low-level Jacobian product expressions (3 reused indices, nested constant powers); real cancel_jacobian_products pipelines vs reference value on det J > 0, < 0 and immersed cells",
    "Every expression of the grammar (indexed J, K, Identity, coefficients with pool/fixed indices; powers with exponents 2,-1,0.5,-2,3,1.5,-0.5 incl. nested powers and reciprocals of detJ; pairwise and triple products with implicit index sums; sums; comb level with reciprocal powers and extra Jacobian factors) is passed through cancel_jacobian_products and through remove_component_tensors followed by it; shape, free indices and value must be unchanged on triangle 2D (det J of both signs) and triangle in 3D (3x2 Jacobian, both orientations) (thorough: also tetrahedron, interval in 2D).",
    "Trusted: Sem; K computed from the vertices as (pseudo-)inverse.",
    "DESIGN.md 3 C09",
)
check(
    "C14",
    "explicit-state BFS over integrand recipes with test/trial functions; every integrand accepted by the real compute_form_data (both modes) is checked for exact multilinearity of its model value",
    "Every integrand of the grammar (depth 3 with comb; sums, products, division, index notation, list tensors mixing argument/non-argument/zero components, conditionals, conj/real/imag, abs, powers, math functions, derivatives, tensor algebra over a scalar and a vector test/trial pair) is submitted as e*dx to compute_form_data in real and complex mode; whenever accepted, the 50-digit model value of e is homogeneous (factors 2, -3, and i in complex mode: antilinear in the test function) and additive in each argument separately, and the form's arguments are those of the integrand. A call that does not return within 120 s is reported as a hang.",
    "One direction only (accepted => multilinear); rejection of a multilinear integrand is never an alarm. Trusted: Sem, field data as linear combinations.",
    "DESIGN.md 3 C14",
)
check(
    "C16",
    "exhaustive enumeration of forms = weighted sums of <= 3 terms from a term alphabet x measures x spaces; real lhs/rhs/system/functional/action/adjoint/energy_norm vs multi-affine decomposition of the model value",
    "All single terms, all ordered pairs of terms (selected measure pairs and weights) and bilinear+linear+functional triples from an alphabet covering every PartExtracter handler (sums inside terms, list tensors, index sums, division, variables, conditionals, restricted terms, conj) on scalar and vector spaces over dx, dx(1), ds, dS, in real and complex data: lhs(F) == a, rhs(F) == -L, functional(F) == F(0,0) where a, L are obtained from the model value of F by multi-affine decomposition; action(a,f) == a(u:=f), adjoint(a) == conj(a) with swapped arguments, energy_norm(a,f) == a(f,f), per (integral type, subdomain id).",
    "Trusted: Sem and the data-aliasing used to substitute arguments. Exceptions from the operators are accepted outcomes and counted.",
    "DESIGN.md 3 C16",
)
check(
    "C17",
    "explicit-state BFS over interior-facet integrand recipes with restrictions at every position (incl. missing and doubled); real apply_restrictions (2 modes) vs two-cell model value + structural invariant + must-raise oracle",
    "Every recipe of the grammar (H1, DG, vector and Piola coefficients, an argument, x, n, FacetArea, CellVolume, constants; arithmetic, math functions, indexing, tensor algebra, grad, conditionals; '+', '-', jump, avg applied to terminals and to sub-expressions at depth <= 3) is run through apply_restrictions with and without default restrictions: results must keep the value on two-cell environments (shared facet, several local numberings of the neighbour, continuous H1 data, n- = -n+), have every side-dependent terminal restricted exactly once directly above its terminal/derivative chain; doubly restricted inputs, and with defaults inputs leaving a discontinuous quantity unrestricted, must raise.",
    "Trusted: Sem's two-sided semantics and the driver's table of which terminal kinds require / default / ignore restriction (from the statement and the module). apply_restrictions is driven directly; the decision inside FormData whether to call it (mixed-dimensional integrals with intersect measures) is not covered (seed C17-c, DESIGN 9.7).",
    "DESIGN.md 3 C17",
)
check(
    "C18",
    "explicit-state BFS over polynomial integrand recipes on an element catalogue with mixed/symmetric/Piola elements; real degree estimation vs exact polynomial degree of the model value (jets)",
    "Every polynomial integrand of the grammar (every fixed component of every form argument, pool-index components, sums, products, powers, inner/dot/outer, grad/div/dx, x; depth 3 comb) over P1/P2/P3, vector, mixed [P2v,P1], [P1,P3], symmetric [P2,P2,P2], symmetric [P1,P3,P1], mixed [symmetric,P1], RT, mixed [RT,DG0], [DG0,N1curl] on triangle 2D and triangle in 3D (thorough: tetrahedron): estimate_total_polynomial_degree and the degree attached by compute_form_data are >= the exact total degree in the reference coordinates of the model value with generic full-degree data (jets truncated at estimate+3).",
    "One direction only. Trusted: exact polynomial arithmetic on jets, generic data. Only polynomial operators are in the alphabet.",
    "DESIGN.md 3 C18",
)
check(
    "C21",
    "explicit-state BFS over expression recipes x 18 mappings; real replace vs model value with mapped terminals bound to the (jet) value of their image",
    "Every expression of the grammar (depth 2; algebra, math functions, indexing, tensor algebra, spatial derivatives, variables, conditionals) x mappings (coefficient -> coefficient / expression / expression with a gradient, simultaneous swap and chain, argument -> argument / expression, constant -> constant / number, vector -> coefficient / list tensor / gradient, identity, unused key, two shape-changing maps, an operator-valued key): replace() equals Sem(e) with each mapped terminal taking the jet value of its image (so derivatives of replaced terminals are covered), shape-changing maps raise, untouched expressions come back equal.",
    "Trusted: Sem with value overrides. Operator-valued keys are exercised structurally only.",
    "DESIGN.md 3 C21",
)
check(
    "C22",
    "exhaustive enumeration of linear/bilinear forms on 6 mixed spaces x 2 styles (mixed element, MixedFunctionSpace) x measures; real extract_blocks vs model values with component-offset data aliasing",
    "All single couplings (a-th trial with b-th test sub-function, several scalarisations incl. derivatives), all pairs of couplings, full sums and linear forms on Stokes [P2v,P1], Darcy [RT,DG0], three-field [P1,P1,P2v], [symmetric,P1], [N1curl,P1], [tensor,RT] as mixed elements (both replace_argument settings) and as MixedFunctionSpace, over dx, ds, dS: the model values of the blocks sum to the value of the form, every block's arguments live in sub-spaces i and j only.",
    "Trusted: Sem; a sub-space argument created by extract_blocks denotes the components of the mixed argument at the sub-element's reference offset.",
    "DESIGN.md 3 C22",
)
check(
    "C23",
    "explicit-state BFS over integrand recipes with comparisons/min/max/sign/abs/powers over real and complex quantities; real do_comparison_check and remove_complex_nodes vs model values on real and complex environments",
    "Every scalar recipe of the grammar (depth 3 comb) is submitted to do_comparison_check: if accepted, every comparison/min/max operand of the input is real in every environment including complex ones, and the rewritten expression keeps the value on real data; and to remove_complex_nodes: the value is kept on real data, no complex node is left, inputs containing Imag or complex literals raise. Calls that do not return within 120 s are reported.",
    "One direction in complex mode (rejection is never an alarm). Arguments and geometry are real also in complex environments (UFL's documented convention). Principal branches.",
    "DESIGN.md 3 C23",
)
check(
    "C24",
    "explicit-state BFS over public-language recipes; UFL's own evaluator e(x, mapping, component) vs reference value for every component",
    "Every recipe of the grammar (depth 2 + conditionals with tensor-valued branches differentiated; algebra, index notation, tensor algebra, conditionals, math functions, spatial derivatives, variables) without free indices is evaluated by Expr.__call__ at a point with terminals mapped to numbers and to callables f(x) / f(x, derivatives) generated from the environment polynomials, for every component, and compared with Sem (relative 1e-8).",
    "Trusted: Sem. Bessel functions are excluded (UFL evaluates them through scipy, which is not installed).",
    "DESIGN.md 3 C24",
)
check(
    "C15",
    "exhaustive enumeration of forms with n<=2 (selected 3) integrals over a letter alphabet (domain, type, subdomain, 16 metadata values, coordinate-derivative wrapper) x sharing patterns; real group_form_integrals/build_integral_data vs decoded reference",
    "All forms of n <= 2 integrals over 2 domains x {dx, ds} x {everywhere, 1, 2, (1,2)} x 16 metadata values (incl. arrays differing in the elided middle / 12th digit, list vs tuple, key order) x 3 coordinate-derivative wrappers x every sharing pattern of digit-coded integrand constants (plus selected triples; thorough: all triples over reduced alphabets), both append options: output integrands are decoded and the totals per (domain, type, region, exact metadata class, wrapper) equal an independent plain-Python reference; different metadata are never merged.",
    "Metadata equality is the documented canonicalisation (key order irrelevant, list == tuple, None == {}) with exact leaves. The oracle is total preservation (insensitive to UFL merging less than it could).",
    "DESIGN.md 3 C15",
)
check(
    "C28",
    "explicit-state BFS over base-form recipes (depth 2/3) on real constructors vs finite-dimensional numpy model (argument contraction), real and complex tables",
    "Every type-correct recipe over 20 base-form atoms (Matrix, Cofunction, Form, ZeroBaseForm, Coargument on V, W and duals), 10 operand atoms and 7 scalar weights with {+, -, neg, scalar*, FormSum, Action/action, Adjoint/adjoint, derivative raw and expanded} is executed; arguments() (class, space, order, numbering), coefficients() and the structurally assembled tensor of the result equal the model's prediction from argument contraction.",
    "Conventions: last-with-first contraction, Adjoint = conjugate transpose, canonical argument numbering. Six root-cause families remain as known findings (see known_findings.json / DESIGN.md): Action argument numbering, complex FormSum weights under Adjoint, non-BaseForms inside FormSum, empty Form in the Leibniz rule.",
    "DESIGN.md 3 C28",
)
check(
    "C11",
    "exhaustive enumeration of 42 parameterised base forms x complete one-step mutation lists, all pairs: signature collision search, equals => signature, rebuild => same signature",
    "Bounded exhaustive model checking of Form.signature() over 42 parameterised base forms x the complete one-step mutation list of every parameter (literals incl. ulp-apart floats, indices, operators, operand order, elements, meshes, measures, subdomain ids, 29 metadata values incl. arrays, base-form-operator data; thorough: full products, 1110 forms): for all pairs, equal signature => same compiled meaning class (by construction of the generator), a.equals(b) => equal signature, and rebuilding a recipe with shifted counters and fresh indices => same signature.",
    "Differences are asserted only where the generator changed an attribute a form compiler uses; representation-only differences (2 vs 2.0, list vs tuple, key order, renamed dummy indices) are never asserted. Counters stay in the 4-digit range and PYTHONHASHSEED is fixed (C12's subject).",
    "DESIGN.md 3 C11",
)
check(
    "C19",
    "exhaustive enumeration of all expression DAGs up to 4-7 nodes x all sharing patterns x handler families, and of all 167 classes x all handler tables; real traversal/mapping/dispatch vs recursive reference",
    "For every expression DAG with <= 5 nodes over {3 coefficients, MultiIndex; Sin, Exp, Division, ListTensor(2,3), LT, Conditional, Indexed}, <= 6 over {f,g; Sin, Division}, <= 7 over {f; Sin, Division} (quick: 4/5/6), built as every share-or-rebuild object graph, all eight traversal functions (incl. all cutoff-type subsets, shared visited sets) and map_expr_dag(s)/map_integrand_dags/Transformer.visit/DAGTraverser (13 handler families + all cut-off subsets, exact call counts) agree with plain tree recursion; for all 167 registered classes x all handler tables (every subset of every class's ancestor chain, absent/post/cut, plus 2^13..2^16 cross-chain tables) MultiFunction, Transformer and DAGTraverser select the nearest defining ancestor in the MRO.",
    "Nothing is claimed beyond the node bounds/alphabets (no free indices, variables or derivative operators in the DAGs). Handlers are pure apart from the call log. Cache staleness after late type registration is C20.",
    "DESIGN.md 3 C19",
)
check(
    "C27",
    "exhaustive history exploration: every history of <= 2 (quick) / <= 3 (thorough) events over 38 inputs x 76 public algorithms/operators, re-executed from fresh inputs; deep pre/post-state comparison",
    "Every history of <= 2 events (quick) or <= 3 events (thorough) over 38 inputs (forms on scalar/vector/mixed/Piola/DG/manifold/P2 meshes with nested mutable metadata and subdomain data, bare expressions, base forms) and 76 events (compute_form_data option sets, every public algorithm, form operators, Measure/Integral reconfiguration, ==/hash/sort/str/pickle, base-form algebra), each applied to the input or to any earlier result: after the last event the value state of the input, of every earlier result, of every caller-owned argument and of the global default measures (structure digest, metadata deep copy, subdomain data, repr/str/hash/signature/arguments/coefficients recomputed with cleared caches, cache consistency) equals the state before it.",
    "Isolation by re-execution from fresh inputs with reset counters; every reported difference is confirmed inside one execution. Value-preserving identity changes (operand sharing by ==, cache fill/drop) are not violations. The deepest level uses the stated core alphabets.",
    "DESIGN.md 3 C27",
)
check(
    "C13",
    "exhaustive pair/triple enumeration of a one-datum-varied expression/form universe built twice (all ordered pairs under ==), per-object pickle/eval-repr/foreign-interpreter round trips, and all comparison-event histories (length <= 3/4) over rebuilt pools",
    "Every expression of the recipe grammar (135 one-datum-varied terminals, full operator level 1, comb level 2; thorough level 3) built twice, and every Integral/Form of the product alphabet: == / .equals on ALL ordered pairs (4e8 quick), equivalence laws incl. all triples, implications to hash, repr, str, shape, indices, signature and reference value, repr => ==; pickle, eval(repr) and foreign-hash-seed pickle round trips per object; all sequences of comparison events over four pools rebuilt per history compared observationally with the untouched pool.",
    "Value law on one cell/facet/interior-facet environment; BaseFormOperator reprs are not treated as eval-able; FormSum/Action/Adjoint/Matrix/Cofunction outside the alphabet; harness subclasses with a legal constant hash provide hash-colliding unequal operands.",
    "DESIGN.md 3 C13",
)
check(
    "C29",
    "complete cmp_expr sign matrix over a recipe-generated universe (1.8k/5.9k expressions) in 3 index/label numberings; preorder laws on all triples by boolean matrix products; all unordered pairs through +, *, inner in both orders",
    "All ordered pairs and all ordered triples of the stated universe (63 terminals incl. same-count coefficients on different spaces, counts across 9/10/99/100, arguments with/without parts, zeros with free indices, base form operators; levels [60,560,1194] quick) are compared by the real cmp_expr in three numbering worlds: totality, reflexivity, antisymmetry, transitivity of < and of the 0-class, consistency, ties only between operands indistinguishable without index/label numbers, same sign in all worlds; all unordered pairs give structurally equal a+b / a*b / inner (up to the promised Conj) in both orders; sorted_expr and triple constructors on stated reduced universes.",
    "Operands differing only in the pattern of index identities are excused (counted). Structural equality is UFL's ==, cross-checked by repr. PYTHONHASHSEED fixed by ./check.",
    "DESIGN.md 3 C29",
)
check(
    "C12",
    "fork-tree history exploration: per catalogue form the complete product of start values of every global creation counter it consumes (crossing 9->10, 99->100, 999->1000), reached by really creating throw-away objects in forked images; rebuild, sequential and fresh-interpreter (PYTHONHASHSEED) histories; differential oracle against the zero history",
    "Bounded exhaustive history exploration on the real code. For each of 56 catalogue forms, the complete product of start values of the global creation counters the form consumes (Index, Coefficient/Cofunction, Constant, Label, Mesh ufl_id, Matrix, BaseFormOperator) over sets crossing every 9->10, 99->100 and 999->1000 boundary is reached by really creating throw-away objects in forked images of a pristine parent; each form is built in its own forked image and form.signature() must equal the zero-history signature. The same holds for rebuilding a form in one process, for building the whole catalogue sequentially, and for fresh interpreters under six PYTHONHASHSEED values. An in-process sweep over every start 0..130 (thorough 0..1100) is cross-checked against the forked histories and every mismatch is re-executed as a real history before it is reported.",
    "Quantification is over the 56 catalogue forms and the stated start-value sets, not over all forms or all integers. Hash seeds are a fixed handful plus one derived from VERIF_SEED. MeshView is excluded (unusable in forms). Only Form.signature() is observed; explicit user-supplied counts/ufl_ids, Interpolate, complex mode and >= 3 counters at starts other than 9, 10, 99 are outside the bounds.",
    "DESIGN.md 3 C12",
)
check(
    "C20",
    "fork-tree history exploration: one os.fork() per history node (type registration cannot be undone in-process); every history of register/use events up to length 3 (quick) / 4 (thorough) per algorithm entry and all two-class interleavings of 6 pairs; differential oracle against the canonical registrations-first history",
    "Bounded exhaustive fork-tree exploration of registration/use histories. For each of 80 algorithm entries (40 discovered MultiFunction/Transformer/DAGTraverser subclasses, 9 synthetic downstream classes incl. lazily defined, same-named and derived-from-used ones, 31 function entry points), every history over {register new operator, register subclass of Sin, register new terminal, use on an old expression, use on each new type} up to length 3 (quick) or 4 (thorough) is executed on the real code in its own forked process image; all two-class interleavings of 6 representative pairs (incl. base class + subclass defined later) up to length 3 / 4. Every use outcome (normalised result repr or exception type) must equal the outcome of the same event in the canonical history in which the registrations come first, no dispatch site may raise IndexError/AttributeError/KeyError on a typecode-indexed table, and for independent pairs the outcome must equal that of the projection onto one class.",
    "Fresh algorithm instances per use (instances kept alive across a registration are outside the alphabet); three synthetic late types; results compared by normalised repr; the product over algorithm classes rests on a factoring argument (caches keyed by class object) that is itself tested on the pairs.",
    "DESIGN.md 3 C20",
)
