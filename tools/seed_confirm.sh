#!/bin/bash
# usage: seed_confirm.sh <seed id>  -- confirms demo PASS/FAIL and that the repository suite passes with the patch
SID=$1
WT=/tmp/ev/confirm-$SID
rm -rf $WT; git -C /repo worktree prune; git -C /repo worktree add --detach $WT HEAD -q || exit 2
cd $WT
PYTHONPATH=$WT timeout 600 /venv/bin/python /verif/seeded/$SID/demo.py > /tmp/ev/$SID.demo0 2>&1; c0=$?
git apply /verif/seeded/$SID/patch.diff || { echo "PATCH DOES NOT APPLY"; exit 2; }
PYTHONPATH=$WT timeout 600 /venv/bin/python /verif/seeded/$SID/demo.py > /tmp/ev/$SID.demo1 2>&1; c1=$?
PYTHONPATH=$WT /venv/bin/python -m pytest -q -p no:cacheprovider -x -n 4 test > /tmp/ev/$SID.pytest 2>&1; ct=$?
echo "seed=$SID demo_unmodified_exit=$c0 demo_modified_exit=$c1 pytest_exit=$ct $(tail -1 /tmp/ev/$SID.pytest)"
cd /; git -C /repo worktree remove --force $WT
