#!/bin/bash
# usage: seed_eval.sh <seed id> <property> [tier]   -- evaluates /verif/seeded/<seed id>/patch.diff against the check of <property>
# Uses a scratch worktree of /repo HEAD with the patch applied and PYTHONPATH (does not touch /repo).
set -u
SID=$1; P=$2; TIER=${3:-quick}
WT=/tmp/ev/$SID
rm -rf $WT; git -C /repo worktree prune; git -C /repo worktree add --detach $WT HEAD -q || exit 2
if ! git -C $WT apply /verif/seeded/$SID/patch.diff; then echo "PATCH DOES NOT APPLY"; git -C /repo worktree remove --force $WT; exit 2; fi
cd /verif
PYTHONPATH=$WT /venv/bin/python -c "import ufl; assert ufl.__file__.startswith('$WT'), ufl.__file__"
out=/tmp/ev/$SID.$P.log
PYTHONPATH=$WT VERIF_NPROC=${VERIF_NPROC:-8} ./check $P --tier $TIER > $out 2>&1
code=$?
echo "seed=$SID property=$P tier=$TIER exit=$code $(grep -c '^VIOLATION' $out) violation lines; summary: $(grep "^\[$P\]" $out | tail -1)"
grep -m3 "what:" $out
/venv/bin/python /verif/tools/seed_record.py "$SID" "$P" "$TIER" "$code" "$out"
git -C /repo worktree remove --force $WT
# the check rewrote evidence/$P.json from the mutated tree: restore the committed one
git -C /verif checkout -- evidence/$P.json 2>/dev/null
exit 0
