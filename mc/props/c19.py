"""C19 DAG traversal and mapping visit every distinct node correctly.

Bounded exhaustive model checking of ufl.corealg.traversal, ufl.corealg.map_dag, MultiFunction /
Transformer / DAGTraverser dispatch.

Part A  every traversal function of ufl.corealg.traversal on every expression DAG with <= N nodes over a
        stated operator alphabet, every DAG built as several *object graphs* (which structurally equal
        sub-DAGs are the same Python object), compared with an independent recursive reference.
Part B  map_expr_dag / map_expr_dags / map_integrand_dags / Transformer.visit / DAGTraverser on the same
        DAGs for a family of handler tables, compared with the plain recursive application of the same
        raw handler functions to the expression *tree* (handler selected by this file's own MRO walk).
Part C  handler selection for every registered UFL class x every handler table of a stated family
        (all subsets of each class's own ancestor chain; all subsets of a fixed cross-chain name set).

The reference never calls the traversal / mapping / dispatch code under test: it only reads
``o.ufl_operands``, ``type(o).__mro__``, ``cls.__dict__['_ufl_handler_name_']`` and ``str`` of terminals.
"""

import itertools
import json
import os
from collections import Counter
from functools import singledispatchmethod

import ufl
import ufl.classes
from mc import elements as E
from mc import envs as EV
from mc.runner import Part, Run, pmap
from ufl.algorithms.map_integrands import map_integrand_dags
from ufl.algorithms.transformer import Transformer
from ufl.classes import (
    LT,
    Coefficient,
    Conditional,
    Division,
    Exp,
    FixedIndex,
    Indexed,
    ListTensor,
    MultiIndex,
    Sin,
    Zero,
)
from ufl.core.expr import Expr
from ufl.core.ufl_type import UFLType
from ufl.corealg import traversal as TV
from ufl.corealg.dag_traverser import DAGTraverser
from ufl.corealg.map_dag import map_expr_dag, map_expr_dags
from ufl.corealg.multifunction import MultiFunction, memoized_handler

PID = "C19"

# =================================================================================================
# universe
# =================================================================================================


class U:
    mesh = EV.mesh("triangle")
    S = ufl.FunctionSpace(mesh, E.P("triangle", 1))
    V = ufl.FunctionSpace(mesh, E.P("triangle", 1, (2,)))
    f = Coefficient(S)
    g = Coefficient(S)
    v = Coefficient(V)
    mi = MultiIndex((FixedIndex(0),))


def fresh_leaf(name):
    """A distinct-but-equal object for a leaf (MultiIndex is interned by UFL: same object)."""
    if name == "f":
        return Coefficient(U.S, count=U.f.count())
    if name == "g":
        return Coefficient(U.S, count=U.g.count())
    if name == "v":
        return Coefficient(U.V, count=U.v.count())
    return MultiIndex((FixedIndex(0),))


CANON_LEAF = {"f": U.f, "g": U.g, "v": U.v, "mi": U.mi}
LEAF_SORT = {"f": "S", "g": "S", "v": "V", "mi": "M"}
OP_CLASS = {
    "Sin": Sin,
    "Exp": Exp,
    "Div": Division,
    "LT2": ListTensor,
    "LT3": ListTensor,
    "Lt": LT,
    "Cond": Conditional,
    "Idx": Indexed,
}
# operator signatures: (name, argument sorts, result sort (None: sort of 2nd argument))
FULL_OPS = [
    ("Sin", ("S",), "S"),
    ("Exp", ("S",), "S"),
    ("Div", ("S", "S"), "S"),
    ("LT2", ("S", "S"), "V"),
    ("Lt", ("S", "S"), "C"),
    ("Idx", ("VW", "M"), "S"),
    ("LT3", ("S", "S", "S"), "W"),
    ("Cond", ("C", "SVW", "="), None),
]
ALPHABETS = {
    "full": (["f", "g", "v", "mi"], FULL_OPS),
    "lean2": (["f", "g"], [o for o in FULL_OPS if o[0] in ("Sin", "Div")]),
    "lean1": (["f"], [o for o in FULL_OPS if o[0] in ("Sin", "Div")]),
}


def enumerate_terms(N, leaves, ops):
    """All terms (nested tuples) whose number of structurally distinct subterms (= DAG nodes) is <= N."""
    terms, sort, mask, dc, index = [], [], [], [], {}

    def add(op, kids, s):
        key = (op, *kids)
        if key in index:
            return
        i = len(terms)
        index[key] = i
        m = 1 << i
        for k in kids:
            m |= mask[k]
        terms.append(key)
        sort.append(s)
        mask.append(m)
        dc.append(m.bit_count())

    for nm in leaves:
        add(nm, (), LEAF_SORT[nm])
    for k in range(2, N + 1):
        by = {}
        for i in range(len(terms)):
            if dc[i] < k:
                by.setdefault(sort[i], []).append(i)
        new = []

        def rec(name, argsorts, pos, kids, m, res):
            if pos == len(argsorts):
                if m.bit_count() == k - 1:
                    new.append((name, tuple(kids), res if res else sort[kids[1]]))
                return
            ss = argsorts[pos]
            if ss == "=":
                ss = sort[kids[pos - 1]]
            for s1 in ss:
                for a in by.get(s1, ()):
                    m2 = m | mask[a]
                    if m2.bit_count() > k - 1:
                        continue
                    if name == "Cond" and pos == 2 and a == kids[1]:
                        continue  # Conditional(c, x, x) is simplified to x by the constructor
                    kids.append(a)
                    rec(name, argsorts, pos + 1, kids, m2, res)
                    kids.pop()

        for name, argsorts, res in ops:
            rec(name, argsorts, 0, [], 0, res)
        for op, kids, s in new:
            add(op, kids, s)
    nested = []
    for key in terms:
        nested.append((key[0], *[nested[k] for k in key[1:]]))
    return [(nested[i], dc[i], sort[i]) for i in range(len(terms))]


def tstr(t):
    return t[0] if len(t) == 1 else t[0] + "(" + ",".join(tstr(k) for k in t[1:]) + ")"


def to_term(x):
    """JSON list -> nested tuple."""
    return tuple(to_term(k) if isinstance(k, list) else k for k in x)


def subterms(t, acc=None):
    if acc is None:
        acc = {}
    if t not in acc:
        for k in t[1:]:
            subterms(k, acc)
        acc[t] = True
    return acc


def occurrences(t, acc=None):
    """Tree-occurrence count of every subterm."""
    if acc is None:
        acc = Counter()
    acc[t] += 1
    for k in t[1:]:
        occurrences(k, acc)
    return acc


class Simplified(Exception):
    pass


def build(t, shared, memo):
    """Build the UFL object of term t; subterms in `shared` are built once and reused, others rebuilt."""
    if t in memo:
        return memo[t]
    op = t[0]
    if len(t) == 1:
        o = CANON_LEAF[op] if t in shared else fresh_leaf(op)
    else:
        kids = [build(k, shared, memo) for k in t[1:]]
        o = OP_CLASS[op](*kids)
        if type(o) is not OP_CLASS[op] or len(o.ufl_operands) != len(kids) or any(a is not b for a, b in zip(o.ufl_operands, kids)):
            raise Simplified(op)
    if t in shared:
        memo[t] = o
    return o


# =================================================================================================
# independent structural identity (type name + terminal str, recursively) -- not UFL ==/hash/repr
# =================================================================================================

_SKEY = {}
_IDMEMO = {}


def _info(o):
    r = _IDMEMO.get(id(o))
    if r is not None and r[0] is o:
        return r
    ops = o.ufl_operands
    if ops:
        kids = [_info(c) for c in ops]
        key = (type(o).__name__, *[k[1] for k in kids])
        s = type(o).__name__ + "(" + ",".join(k[2] for k in kids) + ")"
    else:
        s = type(o).__name__ + ":" + str(o)
        if isinstance(o, Coefficient):
            s += ":" + str(o.ufl_shape)
        key = (s,)
    sid = _SKEY.setdefault(key, len(_SKEY))
    r = (o, sid, s)
    _IDMEMO[id(o)] = r
    return r


def sid(o):
    return _info(o)[1]


def sstr(o):
    return _info(o)[2]


def is_expr(x):
    return isinstance(x, Expr)


def same(a, b):
    """Result equality: UFL expressions structurally (own sid), everything else by type and ==."""
    if is_expr(a) and is_expr(b):
        return sid(a) == sid(b)
    if isinstance(a, (list, tuple)) and isinstance(b, (list, tuple)):
        return len(a) == len(b) and all(same(x, y) for x, y in zip(a, b))
    return type(a) is type(b) and a == b


def show(x):
    if is_expr(x):
        return sstr(x)
    if isinstance(x, (list, tuple)):
        return [show(k) for k in x]
    return repr(x)


# ---- reference traversals -----------------------------------------------------------------------


def ref_distinct(e, cutf=None, acc=None):
    """sid -> object of all structurally distinct subexpressions, no descent below cut nodes."""
    if acc is None:
        acc = {}
    s = sid(e)
    if s in acc:
        return acc
    if not (cutf and cutf(e)):
        for c in e.ufl_operands:
            ref_distinct(c, cutf, acc)
    acc[s] = e
    return acc


def check_tree_order(seq, root, cutf=None):
    """seq must list every tree occurrence exactly once, each after its parent occurrence."""
    avail = Counter({id(root): 1})
    for x in seq:
        if avail[id(x)] <= 0:
            return f"node {sstr(x)} yielded before (or more often than) its parent occurrences"
        avail[id(x)] -= 1
        if not (cutf and cutf(x)):
            for c in x.ufl_operands:
                avail[id(c)] += 1
    left = sum(avail.values())
    if left:
        return f"{left} tree occurrences never yielded"
    return None


def check_unique(seq, root, cutf, order, prior=()):
    """Unique traversal law.

    Every structurally distinct (effective) subexpression not in `prior` exactly once; nodes of `prior`
    never, except possibly the root itself once; order 'post': all operands of a non-cut node yielded
    earlier (or in prior); order 'pre': every non-root node has an earlier yielded user.
    """
    want = ref_distinct(root, cutf)
    prior = set(prior)
    seen = []
    seen_set = set()
    for x in seq:
        s = sid(x)
        if s in seen_set:
            return f"node {sstr(x)} yielded twice"
        if s not in want:
            return f"node {sstr(x)} yielded but not an (effective) subexpression"
        if s in prior and s != sid(root):
            return f"already visited node {sstr(x)} yielded again"
        if order == "post" and not (cutf and cutf(x)):
            for c in x.ufl_operands:
                if sid(c) not in seen_set and sid(c) not in prior:
                    return f"user {sstr(x)} yielded before its operand {sstr(c)}"
        seen.append(x)
        seen_set.add(s)
    missing = [sstr(o) for s, o in want.items() if s not in seen_set and s not in prior]
    if missing:
        return f"never yielded: {missing[:3]}"
    if sid(root) not in seen_set and sid(root) not in prior:
        return "root not yielded"
    if order == "pre":
        users_before = set()
        for i, x in enumerate(seq):
            if i > 0 and sid(x) not in users_before:
                return f"node {sstr(x)} yielded before any of its users"
            if not (cutf and cutf(x)):
                for c in x.ufl_operands:
                    users_before.add(sid(c))
        if seq and seq[0] is not root and sid(seq[0]) != sid(root):
            return "first yielded node is not the root"
    return None


def cutoff_list(classes):
    lst = [False] * Expr._ufl_num_typecodes_
    for c in classes:
        lst[c._ufl_typecode_] = True
    return lst


def subsets(items, nonempty=False):
    items = list(items)
    for r in range(1 if nonempty else 0, len(items) + 1):
        yield from itertools.combinations(items, r)


# =================================================================================================
# Part A
# =================================================================================================


class Ctx:
    """Per-worker context: accumulator; keeps, per violation family, the smallest witnesses only."""

    KEEP = 5

    def __init__(self, part):
        self.part = part
        self.v = {}
        self.case = None

    def bad(self, family, detail, extra=None):
        self.part.count("viol:" + family)
        w = dict(self.case)
        w["family"] = family
        if extra:
            w["extra"] = extra
        key = f"{family}|{self.case['key']}"
        sk = [self.case.get("n", 0), len(key), key, json.dumps(extra, sort_keys=True, default=str)]
        w["_sort"] = sk
        fam = self.v.setdefault(family, {})
        if key not in fam or sk < fam[key][0]:
            fam[key] = (sk, f"{family}: {detail}", w)
        if len(fam) > 4 * self.KEEP:
            for k in sorted(fam, key=lambda k: fam[k][0])[self.KEEP :]:
                del fam[k]

    def flush(self):
        for family, fam in self.v.items():
            for k in sorted(fam, key=lambda k: fam[k][0])[: self.KEEP]:
                self.part.violation(k, fam[k][1], fam[k][2])
        self.v = {}
        return self.part.dict()

    def ok(self, n=1):
        self.part.inc("validated", n)

    def tr(self, n=1):
        self.part.inc("transitions", n)


def merge_parts(run, parts):
    """Merge worker results; per family report the KEEP smallest not-known violations (sharding independent)."""
    allv = {}
    for d in parts:
        for v in d.pop("violations", []):
            fam = allv.setdefault(v["witness"]["family"], {})
            if v["key"] not in fam or v["witness"]["_sort"] < fam[v["key"]]["witness"]["_sort"]:
                fam[v["key"]] = v
        run.merge(d)
    for family in sorted(allv):
        kept = 0
        for k in sorted(allv[family], key=lambda k: allv[family][k]["witness"]["_sort"]):
            v = allv[family][k]
            if run.match_known(k) is not None:
                run.violation(k, v["what"], v["witness"])
            elif kept < Ctx.KEEP:
                run.violation(k, v["what"], v["witness"])
                kept += 1


def present_op_classes(e):
    return sorted({type(o) for o in ref_distinct(e).values() if o.ufl_operands}, key=lambda c: c.__name__)


def part_a(cx, mk, pairs):
    P = cx.part
    e = mk()
    ops_present = present_op_classes(e)
    # --- tree traversals
    seq = list(TV.pre_traversal(e))
    cx.tr()
    err = check_tree_order(seq, e)
    cx.ok()
    if err:
        cx.bad("A:pre_traversal", err)
    seq = list(TV.post_traversal(e))
    cx.tr()
    err = check_tree_order(seq[::-1], e)
    cx.ok()
    if err:
        cx.bad("A:post_traversal", err)
    lr = []

    def lrpost(o):
        for c in o.ufl_operands:
            lrpost(c)
        lr.append(id(o))

    lrpost(e)
    P.outcome("post_traversal:left-to-right" if [id(x) for x in seq] == lr else "post_traversal:other-order")
    # terminals
    got = Counter(id(x) for x in TV.traverse_terminals(e))
    cx.tr()
    want = Counter()

    def terms_(o):
        if not o.ufl_operands:
            want[id(o)] += 1
        for c in o.ufl_operands:
            terms_(c)

    terms_(e)
    cx.ok()
    if got != want:
        cx.bad("A:traverse_terminals", "multiset of terminal occurrences differs")
    got = [sid(x) for x in TV.traverse_unique_terminals(e)]
    cx.tr()
    wantu = {s for s, o in ref_distinct(e).items() if not o.ufl_operands}
    cx.ok()
    if len(got) != len(set(got)) or set(got) != wantu:
        cx.bad("A:traverse_unique_terminals", f"got {len(got)} terminals, {len(set(got))} distinct, want {len(wantu)}")
    # --- unique traversals
    e = mk()
    seq = list(TV.unique_pre_traversal(e))
    cx.tr()
    err = check_unique(seq, e, None, "pre")
    cx.ok()
    if err:
        cx.bad("A:unique_pre_traversal", err)
    e = mk()
    seq = list(TV.unique_post_traversal(e))
    cx.tr()
    err = check_unique(seq, e, None, "post")
    cx.ok()
    if err:
        cx.bad("A:unique_post_traversal", err)
    # --- cutoff variants: every subset of the operator classes present (+ a terminal class)
    cutsets = [tuple(c) for c in subsets(ops_present)] + [(Coefficient,)]
    for cs in cutsets:
        lst = cutoff_list(cs)
        cset = set(cs)

        def cutf(o, cset=cset):
            return type(o) in cset

        seq = list(TV.cutoff_post_traversal(e, lst))
        cx.tr()
        err = check_tree_order(seq[::-1], e, cutf)
        cx.ok()
        if err:
            cx.bad("A:cutoff_post_traversal", err, {"cut": [c.__name__ for c in cs]})
        e = mk()
        seq = list(TV.cutoff_unique_post_traversal(e, lst))
        cx.tr()
        err = check_unique(seq, e, cutf, "post")
        cx.ok()
        if err:
            cx.bad("A:cutoff_unique_post_traversal", err, {"cut": [c.__name__ for c in cs]})
        P.outcome(f"cutoff:{len(cs)}:{len(seq)}")
    # --- shared `visited` over two roots (ordered pairs of sub-DAGs)
    if pairs:
        nsub = len(ref_distinct(e))
        single_cuts = [()] + [(c,) for c in ops_present]

        def pick(i, j):
            subs = list(ref_distinct(mk()).values())
            return subs[i], subs[j]

        for i in range(nsub):
            for j in range(nsub):
                for name, fn in (("unique_pre_traversal", TV.unique_pre_traversal), ("unique_post_traversal", TV.unique_post_traversal)):
                    a, b = pick(i, j)
                    vis = set()
                    s1 = list(fn(a, vis))
                    s2 = list(fn(b, vis))
                    cx.tr(2)
                    err = check_unique(s1, a, None, name.split("_")[1]) or check_unique(
                        s2, b, None, "post" if "post" in name else "none", prior=[sid(x) for x in s1]
                    )
                    if not err:
                        need = set(ref_distinct(a)) | set(ref_distinct(b))
                        have = {sid(x) for x in s1} | {sid(x) for x in s2}
                        if need != have:
                            err = "union of two traversals sharing `visited` is not the union of subexpressions"
                        elif any(x not in vis for x in s1 + s2):
                            err = "yielded node missing from visited set"
                    cx.ok()
                    if err:
                        cx.bad("A:visited:" + name, err, {"roots": [sstr(a), sstr(b)]})
                a, b = pick(i, j)
                vis = set()
                s1 = [sid(x) for x in TV.traverse_unique_terminals(a, vis)]
                s2 = [sid(x) for x in TV.traverse_unique_terminals(b, vis)]
                cx.tr(2)
                ta = {s for s, o in ref_distinct(a).items() if not o.ufl_operands}
                tb = {s for s, o in ref_distinct(b).items() if not o.ufl_operands}
                cx.ok()
                s2x = [s for s in s2 if s != sid(b)]
                if not b.ufl_operands and sid(b) not in ta and s2.count(sid(b)) != 1:
                    cx.bad("A:visited:traverse_unique_terminals", "terminal root not yielded", {"roots": [sstr(a), sstr(b)]})
                if set(s1) != ta or len(s1) != len(ta) or set(s2x) != (tb - ta - {sid(b)}) or len(s2x) != len(set(s2x)):
                    cx.bad("A:visited:traverse_unique_terminals", "wrong terminals with shared visited", {"roots": [sstr(a), sstr(b)]})
                for cs in single_cuts:
                    lst = cutoff_list(cs)
                    cset = set(cs)

                    def cutf(o, cset=cset):
                        return type(o) in cset

                    a, b = pick(i, j)
                    vis = set()
                    s1 = list(TV.cutoff_unique_post_traversal(a, lst, vis))
                    s2 = list(TV.cutoff_unique_post_traversal(b, lst, vis))
                    cx.tr(2)
                    err = check_unique(s1, a, cutf, "post") or check_unique(s2, b, cutf, "post", prior=[sid(x) for x in s1])
                    if not err:
                        need = set(ref_distinct(a, cutf)) | set(ref_distinct(b, cutf))
                        have = {sid(x) for x in s1} | {sid(x) for x in s2}
                        if need != have:
                            err = "union of two cutoff traversals sharing `visited` is not the union of effective subexpressions"
                    cx.ok()
                    if err:
                        cx.bad(
                            "A:visited:cutoff_unique_post_traversal",
                            err,
                            {"roots": [sstr(a), sstr(b)], "cut": [c.__name__ for c in cs]},
                        )


# =================================================================================================
# own dispatch model
# =================================================================================================


def own_name(c):
    return c.__dict__.get("_ufl_handler_name_")


def my_camel2underscore(name):
    out = []
    prev_low = False
    for ch in name:
        low = ch.islower() or ch.isdigit()
        if not low and prev_low:
            out.append("_")
        out.append(ch.lower())
        prev_low = low
    return "".join(out)


_CHAIN = {}


def chain(cls):
    """Handler names of the UFL types among cls.__mro__, nearest first (Python MRO order)."""
    r = _CHAIN.get(cls)
    if r is None:
        r = _CHAIN[cls] = tuple(own_name(k) for k in cls.__mro__ if isinstance(k, UFLType) and own_name(k))
    return r


def expected_handler(cls, defined):
    for nm in chain(cls):
        if nm in defined:
            return nm
    return "ufl_type"


# =================================================================================================
# handler tables (specs): name -> (kind, real_fn, ref_fn); kind in {"post", "cut"}
# =================================================================================================


class Undefined(ValueError):
    pass


def _undef(self, o, *ops):
    raise Undefined(type(o).__name__)


def h_reuse(self, o, *ops):
    if all(a is b for a, b in zip(o.ufl_operands, ops)):
        return o
    return o._ufl_expr_reconstruct_(*ops)


def s_post(tag):
    def fn(self, o, *ops, **kw):
        extra = "".join(f"@{k}={v}" for k, v in sorted(kw.items()))
        return f"{tag}:{type(o).__name__}{extra}[" + ",".join(map(str, ops)) + "]"

    return fn


def s_cut(tag):
    def fn(self, o, **kw):
        extra = "".join(f"@{k}={v}" for k, v in sorted(kw.items()))
        return f"{tag}:{type(o).__name__}{extra}<{sstr(o)}>"

    return fn


def ctx_positional(self, o, **kw):
    extra = "".join(f"@{k}={v}" for k, v in sorted(kw.items()))
    return f"Ctx:{type(o).__name__}{extra}[" + ",".join(str(self(c, **{f"p{i}": 1})) for i, c in enumerate(o.ufl_operands)) + "]"


def P_(fn, ref=None):
    return ("post", fn, ref or fn)


def C_(fn, ref=None):
    return ("cut", fn, ref or fn)


def spec_id():
    return {"expr": P_(MultiFunction.reuse_if_untouched, h_reuse)}


def spec_swap():
    return {
        "expr": P_(h_reuse),
        "sin": P_(lambda self, o, a: Exp(a)),
        "exp": P_(lambda self, o, a: Sin(a)),
    }


def _rep(self, o, *ops):
    return U.g if sid(o) == sid(U.f) else o


def spec_leafrep_cut():
    return {"expr": P_(h_reuse), "coefficient": C_(lambda self, o: _rep(self, o))}


def spec_leafrep_post():
    return {"expr": P_(h_reuse), "coefficient": P_(_rep)}


def spec_zero():
    return {"expr": P_(h_reuse), "coefficient": C_(lambda self, o: Zero() if sid(o) == sid(U.f) else o)}


def spec_wrap():
    return {"expr": P_(h_reuse), "math_function": P_(lambda self, o, a: Sin(o._ufl_expr_reconstruct_(a)))}


def spec_count():
    return {"expr": P_(lambda self, o, *ops: 1 + sum(ops))}


def spec_str():
    return {"expr": P_(s_post("expr")), "terminal": C_(s_cut("terminal"))}


def spec_cut(names):
    d = spec_str()
    for n in names:
        d[n] = C_(s_cut(n))
    return d


def spec_op_only():
    return {"operator": P_(s_post("operator"))}


def spec_manual():
    return {"expr": P_(h_reuse), "sin": C_(lambda self, o: Exp(self.recurse(o.ufl_operands[0])))}


def spec_memo():
    return {"expr": P_(s_post("expr")), "sin": C_(s_cut("sin"))}


class C19MemoState(MultiFunction):
    """Memoized cut-off handlers whose results depend on per-instance state."""

    def __init__(self, salt):
        MultiFunction.__init__(self)
        self.salt = salt

    def expr(self, o, *ops):
        return f"expr:{type(o).__name__}[" + ",".join(map(str, ops)) + "]"

    @memoized_handler
    def sin(self, o):
        return f"sin@{self.salt}<{sstr(o)}>"

    @memoized_handler
    def terminal(self, o):
        return f"terminal@{self.salt}<{sstr(o)}>"


def _logged(fn):
    """What downstream code does to handlers: a signature-preserving decorator (functools.wraps)."""
    import functools

    @functools.wraps(fn)
    def wrapper(self, *args, **kwargs):
        self.log.append(fn.__name__)
        return fn(self, *args, **kwargs)

    return wrapper


class C19Decorated(MultiFunction):
    """Post-order and cut-off handlers behind a functools.wraps decorator, and one with a keyword-only parameter:
    which handlers are cut-offs is decided from the handler's signature."""

    def __init__(self):
        MultiFunction.__init__(self)
        self.log = []

    @_logged
    def expr(self, o, *ops):
        return f"expr:{type(o).__name__}[" + ",".join(map(str, ops)) + "]"

    @_logged
    def terminal(self, o):
        return f"terminal<{sstr(o)}>"

    def sin(self, o, a, *, tag="k"):
        return f"sin@{tag}[{a}]"


def decorated_ref(o):
    if o._ufl_is_terminal_:
        return f"terminal<{sstr(o)}>"
    ops = [decorated_ref(c) for c in o.ufl_operands]
    if isinstance(o, Sin):
        return f"sin@k[{ops[0]}]"
    return f"expr:{type(o).__name__}[" + ",".join(ops) + "]"


def memo_state_ref(o, salt):
    if isinstance(o, Sin):
        return f"sin@{salt}<{sstr(o)}>"
    if o._ufl_is_terminal_:
        return f"terminal@{salt}<{sstr(o)}>"
    return f"expr:{type(o).__name__}[" + ",".join(memo_state_ref(c, salt) for c in o.ufl_operands) + "]"


MF_BASE = {"ufl_type": P_(_undef)}
TR_BASE = {"ufl_type": C_(_undef), "terminal": C_(lambda self, o: o)}

_CLASS_CACHE = {}


def wrap_handler(kind, fn, memo=False):
    if kind == "post":

        def h(self, o, *ops):
            self.calls[sid(o)] += 1
            return fn(self, o, *ops)

    else:

        def h(self, o):
            self.calls[sid(o)] += 1
            return fn(self, o)

        if memo:
            h = memoized_handler(h)
    return h


def algo_class(base, famkey, spec, memo_names=()):
    key = (base.__name__, famkey)
    cls = _CLASS_CACHE.get(key)
    if cls is None:

        def __init__(self):
            base.__init__(self)
            self.calls = Counter()

        ns = {"__init__": __init__}
        for name, (kind, fn, _ref) in spec.items():
            ns[name] = wrap_handler(kind, fn, memo=name in memo_names)
        if base is MultiFunction:
            ns["recurse"] = lambda self, x: map_expr_dag(self, x)
        else:
            ns["recurse"] = lambda self, x: self.visit(x)
        cls = _CLASS_CACHE[key] = type("C19" + base.__name__, (base,), ns)
    return cls


_INST_CACHE = {}


def algo(base, famkey, spec, memo_names=()):
    """An instance with an empty call log (instances are stateless apart from the log; reused for speed)."""
    key = (base.__name__, famkey)
    inst = _INST_CACHE.get(key)
    if inst is None:
        inst = _INST_CACHE[key] = algo_class(base, famkey, spec, memo_names)()
    inst.calls.clear()
    if memo_names:
        inst._memoized_handler_cache.clear()
    return inst


class RefAlgo:
    """Plain recursive application of the raw handler functions to the expression tree."""

    def __init__(self, base_table, spec):
        self.table = dict(base_table)
        self.table.update(spec)
        self.logged = set(spec)
        self.calls = Counter()

    def kind(self, o):
        return self.table[expected_handler(type(o), self.table)][0]

    def cutf(self, o):
        return self.kind(o) == "cut"

    def recurse(self, o):
        return self(o)

    def __call__(self, o):
        name = expected_handler(type(o), self.table)
        kind, _fn, ref = self.table[name]
        if name in self.logged:
            self.calls[sid(o)] += 1
        if kind == "cut":
            return ref(self, o)
        return ref(self, o, *[self(c) for c in o.ufl_operands])


def run_it(fn):
    try:
        return ("ok", fn())
    except Undefined:
        return ("exc", "ValueError")
    except Exception as ex:  # noqa: BLE001
        return ("exc", type(ex).__name__)


def outcome_same(a, b):
    if a[0] != b[0]:
        return False
    if a[0] == "exc":
        return True
    return same(a[1], b[1])


def result_duplicates(r):
    """Pairs of distinct objects with the same structure in the result DAG."""
    seen = {}
    stack = [r]
    visited = set()
    while stack:
        o = stack.pop()
        if id(o) in visited:
            continue
        visited.add(id(o))
        s = sid(o)
        if s in seen and seen[s] is not o:
            return sstr(o)
        seen[s] = o
        stack.extend(o.ufl_operands)
    return None


NAME_OF = {Sin: "sin", Exp: "exp", Division: "division", ListTensor: "list_tensor", LT: "lt", Conditional: "conditional", Indexed: "indexed"}


def families_for(e):
    ops = [NAME_OF[c] for c in present_op_classes(e)]
    fams = [
        ("id", spec_id(), "expr", True),
        ("swap", spec_swap(), "expr", True),
        ("leafrep_cut", spec_leafrep_cut(), "expr", True),
        ("leafrep_post", spec_leafrep_post(), "expr", True),
        ("zero", spec_zero(), "expr", False),
        ("wrap", spec_wrap(), "expr", False),
        ("count", spec_count(), "val", False),
        ("str", spec_str(), "val", False),
        ("cut:operator", spec_cut(["operator"]), "val", False),
        ("cut:math_function", spec_cut(["math_function"]), "val", False),
        ("cut:condition", spec_cut(["condition"]), "val", False),
        ("op_only", spec_op_only(), "val", False),
        ("manual", spec_manual(), "expr", False),
    ]
    for cs in subsets(ops, nonempty=True):
        fams.append(("cut:" + "+".join(cs), spec_cut(cs), "val", False))
    return fams


def part_b_single(cx, mk, fully_shared):
    P = cx.part
    e = mk()
    for famkey, spec, _kind, nodup in families_for(e):
        # ---- reference (MultiFunction semantics)
        ref = RefAlgo(MF_BASE, spec)
        want = run_it(lambda: ref(e))
        eff = ref_distinct(e, ref.cutf)
        P.outcome(f"B:{famkey.split(':')[0]}:{want[0]}")
        for compress in (True, False):
            for caches in (False, True):
                if caches and not compress and not famkey.startswith(("id", "str")):
                    continue
                f = algo(MultiFunction, famkey, spec)
                vc, rc = ({}, {}) if caches else (None, None)
                e = mk()
                got = run_it(lambda: map_expr_dag(f, e, compress=compress, vcache=vc, rcache=rc))
                cx.tr()
                cx.ok()
                tag = f"B:map_expr_dag:{famkey.split(':')[0]}"
                ex = {"family": famkey, "compress": compress, "caches": caches}
                if not outcome_same(got, want):
                    cx.bad(tag + ":result", f"got {show(got[1])} want {show(want[1])}", ex)
                    continue
                if got[0] != "ok":
                    P.error(got[1])
                    continue
                if famkey != "manual" and dict(f.calls) != {s: 1 for s in eff}:
                    cx.bad(tag + ":calls", "handler not called exactly once per distinct (effective) node", ex)
                if caches:
                    if {sid(k) for k in vc} != set(eff) or len(vc) != len(eff):
                        cx.bad(tag + ":vcache", "vcache keys are not the distinct effective nodes", ex)
                    else:
                        r2 = RefAlgo(MF_BASE, spec)
                        if not all(same(val, r2(k)) for k, val in vc.items()):
                            cx.bad(tag + ":vcache", "vcache value differs from recursive application", ex)
                if nodup and compress and is_expr(got[1]):
                    # informational only: expr_equals eagerly re-points operands of equal nodes, so a
                    # compressed result can still hold equal-but-distinct objects (not part of C19)
                    P.outcome("compress:" + ("duplicates-left" if result_duplicates(got[1]) else "no-duplicates"))
                if famkey == "id" and fully_shared and got[1] is not e:
                    cx.bad(tag + ":identity", "reuse_if_untouched on a fully shared DAG did not return the input object", ex)
        # ---- memoized_handler variant (MultiFunction only)
        if famkey == "str" and any(type(o) is Sin for o in eff.values()):
            spec_m = spec_memo()
            refm = RefAlgo(MF_BASE, spec_m)
            wantm = run_it(lambda: refm(e))
            f = algo(MultiFunction, "memo", spec_m, memo_names=("sin",))
            got = run_it(lambda: map_expr_dag(f, e))
            got2 = run_it(lambda: map_expr_dag(f, e))
            cx.tr(2)
            cx.ok()
            if not outcome_same(got, wantm) or not outcome_same(got2, wantm):
                cx.bad("B:memoized_handler:result", f"got {show(got[1])} want {show(wantm[1])}")
            elif any(n != 1 for s, n in f.calls.items() if type(ref_distinct(e)[s]) is Sin):
                cx.bad("B:memoized_handler:calls", "memoized handler body executed more than once for a node")
        # ---- memoized handlers whose result depends on the state of the instance: two instances used one after the
        #      other on the same DAG (both orders) must each give what plain recursion with their own state gives
        if famkey == "str":
            for salts in ((2, 3), (3, 2)):
                for salt in salts:
                    inst = C19MemoState(salt)
                    gotm = run_it(lambda: map_expr_dag(inst, e))
                    wantm = ("ok", memo_state_ref(e, salt))
                    cx.tr()
                    cx.ok()
                    if gotm != wantm:
                        cx.bad("B:memoized_handler:instance-state", f"salts {salts}, instance {salt}: got {show(gotm[1])} want {show(wantm[1])}")
        if famkey == "str":
            gotd = run_it(lambda: map_expr_dag(C19Decorated(), e))
            wantd = ("ok", decorated_ref(e))
            cx.tr()
            cx.ok()
            if gotd != wantd:
                cx.bad("B:decorated-handlers:result", f"got {show(gotd[1])} want {show(wantd[1])}")
        # ---- Transformer.visit (tree semantics, base table has terminal=reuse)
        reft = RefAlgo(TR_BASE, spec)
        wantt = run_it(lambda: reft(e))
        t = algo(Transformer, famkey, spec)
        e = mk()
        gott = run_it(lambda: t.visit(e))
        cx.tr()
        cx.ok()
        tag = f"B:Transformer.visit:{famkey.split(':')[0]}"
        if not outcome_same(gott, wantt):
            cx.bad(tag + ":result", f"got {show(gott[1])} want {show(wantt[1])}", {"family": famkey})
        elif gott[0] == "ok" and famkey != "manual" and dict(t.calls) != dict(reft.calls):
            cx.bad(tag + ":calls", "handler calls differ from one call per tree occurrence", {"family": famkey})


def part_b_pairs(cx, mk):
    """Several roots sharing nodes; caches carried over between calls."""
    e = mk()
    nsub = len(ref_distinct(e))

    def pick(i, j):
        subs = list(ref_distinct(mk()).values())
        return subs[i], subs[j]

    ops = [NAME_OF[c] for c in present_op_classes(e)]
    fams = [("str", spec_str())] + [("cut:" + n, spec_cut([n])) for n in ops]
    for famkey, spec in fams:
        for i in range(nsub):
            for j in range(nsub):
                a, b = pick(i, j)
                ref = RefAlgo(MF_BASE, spec)
                want = run_it(lambda: [ref(a), ref(b)])
                eff = set(ref_distinct(a, ref.cutf)) | set(ref_distinct(b, ref.cutf))
                ex = {"family": famkey, "roots": [sstr(a), sstr(b)]}
                for compress in (True, False):
                    f = algo(MultiFunction, famkey, spec)
                    a, b = pick(i, j)
                    got = run_it(lambda: map_expr_dags(f, [a, b], compress=compress))
                    cx.tr()
                    cx.ok()
                    if not outcome_same(got, want):
                        cx.bad("B:map_expr_dags:result", f"got {show(got[1])} want {show(want[1])}", ex)
                    elif got[0] == "ok" and dict(f.calls) != {s: 1 for s in eff}:
                        cx.bad("B:map_expr_dags:calls", "handler not called exactly once per distinct node of the union", ex)
                # sequential calls with shared caches
                f = algo(MultiFunction, famkey, spec)
                vc, rc = {}, {}
                a, b = pick(i, j)
                got = run_it(lambda: [map_expr_dag(f, a, vcache=vc, rcache=rc), map_expr_dag(f, b, vcache=vc, rcache=rc)])
                cx.tr(2)
                cx.ok()
                if not outcome_same(got, want):
                    cx.bad("B:map_expr_dag:shared-caches:result", f"got {show(got[1])} want {show(want[1])}", ex)
                elif got[0] == "ok" and dict(f.calls) != {s: 1 for s in eff}:
                    cx.bad("B:map_expr_dag:shared-caches:calls", "node handled again although cached in vcache (or skipped)", ex)


# ---- map_integrand_dags -------------------------------------------------------------------------


def is_scalar_expr(o):
    return is_expr(o) and not isinstance(o, (ufl.classes.Condition, MultiIndex)) and o.ufl_shape == ()


def describe_form(F):
    if isinstance(F, ufl.Form):
        return [(i.integral_type(), str(i.subdomain_id()), sid(i.integrand())) for i in F.integrals()]
    return ("nonform", type(F).__name__)


def part_b_forms(cx, e, pairs):
    fams = [("id", spec_id()), ("swap", spec_swap()), ("leafrep_cut", spec_leafrep_cut()), ("zero", spec_zero())]
    cases = []
    if is_scalar_expr(e):
        cases.append(([("cell", e)], (None,)))
    if pairs:
        subs = [o for o in ref_distinct(e).values() if is_scalar_expr(o)]
        if is_scalar_expr(e):
            for b in subs:
                for x, y in ((e, b), (b, e)):
                    cases.append(([("cell", x), ("exterior_facet", y)], (None, ("cell",), ("exterior_facet",))))
    meas = {"cell": ufl.dx, "exterior_facet": ufl.ds}
    for integrals, onlys in cases:
        F = None
        for it, x in integrals:
            F = x * meas[it] if F is None else F + x * meas[it]
        for famkey, spec in fams:
            for only in onlys:
                for compress in (True, False) if len(integrals) == 1 else (True,):
                    ref = RefAlgo(MF_BASE, spec)

                    def want_fn(ref=ref, only=only):
                        out = []
                        for it, x in integrals:
                            y = ref(x) if (only is None or it in only) else x
                            if not is_expr(y):
                                raise ValueError("non-expr integrand")
                            if not isinstance(y, Zero):
                                out.append((it, "everywhere", sid(y)))
                        return out

                    want = run_it(want_fn)
                    got = run_it(lambda: describe_form(map_integrand_dags(algo(MultiFunction, famkey, spec), F, only, compress)))
                    cx.tr()
                    cx.ok()
                    if not outcome_same(got, want):
                        cx.bad(
                            "B:map_integrand_dags:result",
                            f"got {got} want {want}",
                            {"family": famkey, "only": only, "compress": compress, "integrands": [sstr(x) for _, x in integrals]},
                        )


# ---- DAGTraverser -------------------------------------------------------------------------------

_DT_CACHE = {}


def dt_class(famkey, regs):
    """regs: list of (class, mode, fn); mode in 'post' | 'cut' | ('only', indices) | 'reuse'."""
    cls = _DT_CACHE.get(famkey)
    if cls is not None:
        return cls

    class T(DAGTraverser):
        def __init__(self, **kw):
            DAGTraverser.__init__(self, **kw)
            self.calls = Counter()

        @singledispatchmethod
        def process(self, o, **kwargs):
            raise Undefined(type(o).__name__)

    for klass, mode, fn in regs:
        if mode == "reuse":

            def h(self, o, **kw):
                self.calls[(sid(o), tuple(sorted(kw.items())))] += 1
                return DAGTraverser.reuse_if_untouched(self, o, **kw)

        else:

            def inner(self, o, *ops, _fn=fn, **kw):
                self.calls[(sid(o), tuple(sorted(kw.items())))] += 1
                return _fn(self, o, *ops, **kw)

            if mode == "post":
                h = DAGTraverser.postorder(inner)
            elif mode == "cut":
                h = inner
            else:
                h = DAGTraverser.postorder_only_children(mode[1])(inner)
        T.process.register(klass)(h)
    _DT_CACHE[famkey] = T
    return T


class RefDT:
    """Plain recursion with nearest-registered-class-in-MRO dispatch."""

    def __init__(self, regs):
        self.regs = {k: (m, f) for k, m, f in regs}
        self.calls = Counter()

    def cutf(self, o):
        for k in type(o).__mro__:
            if k in self.regs:
                return self.regs[k][0] == "cut"
        return False

    def __call__(self, o, **kw):
        for k in type(o).__mro__:
            if k in self.regs:
                mode, fn = self.regs[k]
                break
        else:
            raise Undefined(type(o).__name__)
        self.calls[(sid(o), tuple(sorted(kw.items())))] += 1
        if mode == "reuse":
            ops = [self(c, **kw) for c in o.ufl_operands]
            return o if all(sid(a) == sid(b) for a, b in zip(ops, o.ufl_operands)) else o._ufl_expr_reconstruct_(*ops)
        if mode == "post":
            return fn(self, o, *[self(c, **kw) for c in o.ufl_operands], **kw)
        if mode == "cut":
            return fn(self, o, **kw)
        return fn(self, o, *[self(o.ufl_operands[i], **kw) for i in mode[1]], **kw)


def dt_families(e):
    T = ufl.classes.Terminal
    fams = [
        ("id", [(Expr, "reuse", None)]),
        ("str", [(Expr, "post", s_post("Expr")), (T, "cut", s_cut("Terminal"))]),
        (
            "swap",
            [(Expr, "reuse", None), (Sin, "post", lambda self, o, a, **kw: Exp(a)), (Exp, "post", lambda self, o, a, **kw: Sin(a))],
        ),
        (
            "only",
            [
                (Expr, "post", s_post("Expr")),
                (T, "cut", s_cut("Terminal")),
                (Conditional, ("only", (1, 2)), s_post("Conditional12")),
                (ListTensor, ("only", (0,)), s_post("ListTensor0")),
                (Division, ("only", (1, 1, 0)), s_post("Division110")),
            ],
        ),
        ("op_only", [(ufl.classes.Operator, "post", s_post("Operator"))]),
        # context-dependent traversal: every operator passes a different keyword (same value) to each operand, so
        # a shared operand is reached under contexts that differ only in the keyword NAME
        ("ctx", [(T, "cut", s_cut("Terminal")), (ufl.classes.Operator, "cut", ctx_positional)]),
        ("mathfn", [(Expr, "post", s_post("Expr")), (ufl.classes.MathFunction, "cut", s_cut("MathFunction"))]),
    ]
    for c in present_op_classes(e):
        fams.append(("cut:" + c.__name__, [(Expr, "post", s_post("Expr")), (T, "cut", s_cut("Terminal")), (c, "cut", s_cut(c.__name__))]))
    return fams


def part_b_dt(cx, mk, pairs):
    e = mk()
    for famkey, regs in dt_families(e):
        cls = dt_class(famkey, regs)
        for kw in ({}, {"tag": "x"}):
            ref = RefDT(regs)
            want = run_it(lambda: ref(e, **kw))
            for compress in (True, False):
                for caches in (False, True):
                    if kw and (caches or not compress):
                        continue
                    args = {"compress": compress}
                    if caches:
                        args["visited_cache"] = {}
                        args["result_cache"] = {}
                    t = cls(**args)
                    e = mk()
                    got = run_it(lambda: t(e, **kw))
                    cx.tr()
                    cx.ok()
                    ex = {"family": famkey, "compress": compress, "kwargs": kw, "caches": caches}
                    tag = "B:DAGTraverser:" + famkey.split(":")[0]
                    if not outcome_same(got, want):
                        cx.bad(tag + ":result", f"got {show(got[1])} want {show(want[1])}", ex)
                        continue
                    if got[0] != "ok":
                        cx.part.error(got[1])
                        continue
                    if dict(t.calls) != {k: 1 for k in ref.calls}:
                        cx.bad(tag + ":calls", "process not called exactly once per distinct visited node", ex)
                        continue
                    # second call: fully cached; other kwargs: separate cache entries
                    n0 = sum(t.calls.values())
                    got2 = run_it(lambda: t(e, **kw))
                    cx.tr()
                    if not outcome_same(got2, want) or sum(t.calls.values()) != n0:
                        cx.bad(tag + ":recall", "second call on the same traverser recomputed or changed the result", ex)
                    if famkey == "str":
                        # other value, other keyword name with the same value, names and values crossed
                        for kw2 in ({"tag": "y"}, {"other": "x"}, {"tag": "x", "other": "y"}, {"other": "x", "tag": "y"}):
                            ref2 = RefDT(regs)
                            want2 = run_it(lambda: ref2(e, **kw2))
                            got3 = run_it(lambda: t(e, **kw2))
                            cx.tr()
                            cx.ok()
                            if not outcome_same(got3, want2):
                                cx.bad(tag + ":kwargs", f"result for other kwargs {kw2}: got {show(got3[1])} want {show(want2[1])}", ex)
        if pairs and famkey in ("str", "only"):
            nsub = len(ref_distinct(e))
            for i in range(nsub):
                for j in range(nsub):
                    subs = list(ref_distinct(mk()).values())
                    a, b = subs[i], subs[j]
                    ref = RefDT(regs)
                    want = run_it(lambda: [ref(a), ref(b)])
                    t = cls()
                    got = run_it(lambda: [t(a), t(b)])
                    cx.tr(2)
                    cx.ok()
                    ex = {"family": famkey, "roots": [sstr(a), sstr(b)]}
                    if not outcome_same(got, want):
                        cx.bad("B:DAGTraverser:two-roots:result", f"got {show(got[1])} want {show(want[1])}", ex)
                    elif got[0] == "ok" and dict(t.calls) != {k: 1 for k in ref.calls}:
                        cx.bad("B:DAGTraverser:two-roots:calls", "node processed again although cached (or skipped)", ex)


# =================================================================================================
# DAG worker
# =================================================================================================

SUBSET_MAX_N = 5
FOUR_MODES_MAX_N = [5]  # above SUBSET_MAX_N: 4 sharing modes up to this size, 2 modes (all/none) beyond
PAIRS_MAX_N = [4, 4]  # two-root checks: DAGs up to [0] nodes; up to [1] nodes over the alphabet {f; Sin, Div}


def is_lean1(t):
    return all(s[0] in ("f", "Sin", "Div") for s in subterms(t))



def variants(t, n):
    """Object graphs of term t: which repeated subterms are one shared object and which are rebuilt."""
    occ = occurrences(t)
    rep = [s for s in subterms(t) if occ[s] >= 2]
    allsub = set(subterms(t))
    nonrep = frozenset(allsub - set(rep))
    if n <= SUBSET_MAX_N:
        # non-repeated leaves: canonical objects, except in the nothing-shared graph (fresh equal leaves)
        cands = [(frozenset(c) | nonrep) if c else frozenset() for c in subsets(rep)]
    else:
        leaves = {s for s in allsub if len(s) == 1}
        cands = [frozenset(allsub), frozenset()]
        if n <= FOUR_MODES_MAX_N[0]:
            cands += [frozenset(leaves), frozenset(allsub - leaves)]
    out = []
    seen = set()
    for sh in cands:
        try:
            e = build(t, sh, {})
        except Simplified:
            return None
        ids = {}
        pat = []

        def walk(o):
            pat.append(ids.setdefault(id(o), len(ids)))
            for c in o.ufl_operands:
                walk(c)

        walk(e)
        key = tuple(pat)
        if key in seen:
            continue
        seen.add(key)
        out.append((sh, e, len(pat), len(ids)))
    return out


def mode_of(t, sh, ntree, nobj, n):
    if ntree == n:
        return "tree"
    if nobj == n:
        return "max-shared"
    if nobj == ntree:
        return "unshared"
    return "mixed"


def check_variant(cx, t, n, sh, e, do_pairs):
    _IDMEMO.clear()
    fully = len({id(o) for o in _walk_objs(e)}) == n
    # UFL's == re-points the operands of equal operator nodes to one tuple ("eager DAGify"), i.e. the
    # code under test mutates unshared inputs into shared ones: rebuild the object graph for every call
    def mk():
        return e if fully else build(t, sh, {})

    part_a(cx, mk, do_pairs)
    part_b_single(cx, mk, fully)
    part_b_dt(cx, mk, do_pairs)
    part_b_forms(cx, e, do_pairs and fully)
    if do_pairs:
        part_b_pairs(cx, mk)


def _walk_objs(e):
    yield e
    for c in e.ufl_operands:
        yield from _walk_objs(c)


def dag_worker(items):
    part = Part()
    cx = Ctx(part)
    for t, n, _sort in items:
        vs = variants(t, n)
        if vs is None:
            part.count("recipes_simplified_by_constructor")
            continue
        part.count(f"dags:n={n}")
        for sh, e, ntree, nobj in vs:
            mode = mode_of(t, sh, ntree, nobj, n)
            part.count(f"objgraphs:n={n}:{mode}")
            part.inc("states")
            if ntree > n:
                part.inc("nontrivial")
            shl = sorted(tstr(s) for s in sh)
            cx.case = {"part": "AB", "term": t, "n": n, "shared": sorted(sh, key=tstr), "key": f"{tstr(t)}|shared={','.join(shl)}"}
            # two-root checks on the maximally shared and the fully unshared object graph
            do_pairs = mode in ("tree", "max-shared", "unshared") and (
                n <= PAIRS_MAX_N[0] or (n <= PAIRS_MAX_N[1] and is_lean1(t))
            )
            check_variant(cx, t, n, sh, e, do_pairs)
            if mode == "mixed":
                part.sample({"term": tstr(t), "shared": shl, "tree_nodes": ntree, "objects": nobj, "distinct": n}, limit=1)
    return cx.flush()


# =================================================================================================
# Part C: dispatch
# =================================================================================================

ALL_CLASSES = sorted(ufl.classes.all_ufl_classes, key=lambda c: c._ufl_typecode_)
CROSS_NAMES = [
    "expr",
    "terminal",
    "operator",
    "form_argument",
    "coefficient",
    "math_function",
    "sin",
    "constant_value",
    "scalar_value",
    "int_value",
    "condition",
    "binary_condition",
    "lt",
    "base_form",
    "geometric_quantity",
    "geometric_cell_quantity",
    "spatial_coordinate",
    "derivative",
    "grad",
    "list_tensor",
]
CLASS_OF_NAME = {own_name(c): c for c in ALL_CLASSES}


class Stub:
    ufl_operands = ()

    def __init__(self, c):
        self._ufl_typecode_ = c._ufl_typecode_
        self._ufl_class_ = c


def tagged(name, kind):
    if kind == 1:

        def h(self, o, *ops):
            return name

    else:

        def h(self, o):
            return name

    h.c19_name = name
    return h


def dt_tagged(name):
    def h(self, o, **kw):
        return name

    h.c19_name = name
    return h


def check_table(cx, table, algos):
    """table: tuple of (name, kind) with kind 1=post-order signature, 2=cut-off signature."""
    P = cx.part
    defined = dict(table)
    tkey = ",".join(f"{n}:{'post' if k == 1 else 'cut'}" for n, k in table)
    ns = {n: tagged(n, k) for n, k in table}
    for base in algos:
        if base is DAGTraverser:
            continue
        base_defined = {"ufl_type": 1} if base is MultiFunction else {"ufl_type": 2, "terminal": 2}
        full = dict(base_defined)
        full.update(defined)

        def init(self, base=base):
            base.__init__(self)

        cls = type("C19Tab" + base.__name__, (base,), dict(ns, __init__=init))
        inst = cls()
        cx.tr()
        for c in ALL_CLASSES:
            want = expected_handler(c, full)
            tc = c._ufl_typecode_
            if base is MultiFunction:
                h = inst._handlers[tc]
                cut = inst._is_cutoff_type[tc]
            else:
                h, post = inst._handlers[tc]
                cut = not post
            got = getattr(h, "c19_name", None) or {"undefined": "ufl_type", "reuse": "terminal"}.get(h.__name__, h.__name__)
            cx.ok()
            P.inc("states")
            if want != c.__dict__["_ufl_handler_name_"]:
                P.inc("nontrivial")
            case = {"part": "C", "algo": base.__name__, "table": [list(x) for x in table], "cls": c.__name__, "n": len(table)}
            if got != want:
                cx.case = dict(case, key=f"{base.__name__}:{c.__name__}:got={got}:want={want}")
                cx.bad("C:dispatch", f"{base.__name__} table {{{tkey}}} dispatches {c.__name__} to '{got}', nearest defining ancestor is '{want}'", {"first_table": tkey})
                continue
            if cut != (full[want] == 2):
                cx.case = dict(case, key=f"{base.__name__}:{c.__name__}:cutflag")
                cx.bad("C:cutflag", f"{base.__name__} table {{{tkey}}}: cut-off flag of {c.__name__} is {cut} for handler '{want}'")
            # dynamic call through the public entry point
            stub = Stub(c)
            r = run_it((lambda: inst(stub)) if base is MultiFunction else (lambda: inst.visit(stub)))
            cx.tr()
            exp = ("exc", "ValueError") if (want == "ufl_type" and "ufl_type" not in defined) else ("ok", stub if (want == "terminal" and "terminal" not in defined) else want)
            if r[0] != exp[0] or (r[0] == "ok" and r[1] is not exp[1] and r[1] != exp[1]):
                cx.case = dict(case, key=f"{base.__name__}:{c.__name__}:call:got={r[1]}:want={exp[1]}")
                cx.bad("C:call", f"{base.__name__} table {{{tkey}}}: calling with a {c.__name__} gave {r}, want {exp}")
            P.outcome(f"C:{base.__name__}:{'own' if want == c.__dict__['_ufl_handler_name_'] else ('fallback' if want == 'ufl_type' else 'ancestor')}")
        base._handlers_cache.pop(cls, None)  # bound memory: the fresh class is never used again
    if DAGTraverser in algos:
        regs = [n for n, _k in table if n in CLASS_OF_NAME]

        class T(DAGTraverser):
            @singledispatchmethod
            def process(self, o, **kwargs):
                return "ufl_type"

        for n in regs:
            T.process.register(CLASS_OF_NAME[n])(dt_tagged(n))
        disp = T.__dict__["process"].dispatcher
        inst = T()
        cx.tr()
        for c in ALL_CLASSES:
            want = "ufl_type"
            for k in c.__mro__:
                if isinstance(k, UFLType) and own_name(k) in regs:
                    want = own_name(k)
                    break
            h = disp.dispatch(c)
            got = getattr(h, "c19_name", "ufl_type")
            obj = object.__new__(c)
            r = inst.process(obj)
            cx.ok()
            cx.tr()
            P.inc("states")
            if got != want or r != want:
                cx.case = {"part": "C", "algo": "DAGTraverser", "table": [list(x) for x in table], "cls": c.__name__, "n": len(table), "key": f"DAGTraverser:{c.__name__}:got={got}/{r}:want={want}"}
                cx.bad("C:dispatch", f"DAGTraverser registrations {regs} dispatch {c.__name__} to '{got}'/'{r}', nearest registered ancestor is '{want}'")


def dispatch_tables(thorough):
    tabs = {}
    for c in ALL_CLASSES:
        ch = [*chain(c), "ufl_type"]
        states = (0, 1, 2) if (thorough and len(ch) <= 7) else (0, 1)
        for st in itertools.product(states, repeat=len(ch)):
            tabs[tuple(sorted((n, s) for n, s in zip(ch, st) if s))] = "chain"
    nchain = len(tabs)
    k = 16 if thorough else 13
    names = CROSS_NAMES[:k]
    ncross = 0
    for st in itertools.product((0, 1), repeat=k):
        # cut-off signature for every third present handler so that both kinds occur in the cross tables
        tab = tuple(sorted((n, 2 if (i % 3 == 2) else 1) for i, (n, s) in enumerate(zip(names, st)) if s))
        if tab not in tabs:
            tabs[tab] = "cross"
            ncross += 1
    return tabs, nchain, ncross, names


def table_worker(items):
    part = Part()
    cx = Ctx(part)
    for table, kind in items:
        part.count("tables:" + kind)
        algos = (MultiFunction, Transformer, DAGTraverser) if kind == "chain" else (MultiFunction, Transformer)
        # DAGTraverser dispatch ignores the signature kind: only for tables with post-order kinds
        if kind == "chain" and any(k == 2 for _n, k in table):
            algos = (MultiFunction, Transformer)
        check_table(cx, table, algos)
    return cx.flush()


def sanity_names(run):
    """Handler names are the documented CamelCase -> underscore mapping and are unique."""
    names = Counter()
    for c in ALL_CLASSES:
        nm = own_name(c)
        names[nm] += 1
        run.validated += 1
        if nm != my_camel2underscore(c.__name__):
            run.violation(f"C:handler-name:{c.__name__}", f"handler name of {c.__name__} is {nm!r}", {"part": "name", "cls": c.__name__})
    for nm, k in names.items():
        if k > 1:
            run.violation(f"C:handler-name-collision:{nm}", f"{k} classes share handler name {nm!r}", {"part": "name", "name": nm})


# =================================================================================================
# main / replay
# =================================================================================================


def tiers(thorough):
    if os.environ.get("C19_DEV_SMALL"):  # development / self-test only: a much smaller space
        return [("full", 3), ("lean2", 4), ("lean1", 5)]
    if thorough:
        return [("full", 5), ("lean2", 6), ("lean1", 7)]
    return [("full", 4), ("lean2", 5), ("lean1", 6)]


def replay(run):
    with open(run.args.replay) as f:
        rj = json.load(f)
    w = rj["witness"]
    part = Part()
    cx = Ctx(part)
    if w["part"] == "AB":
        t = to_term(w["term"])
        sh = frozenset(to_term(s) for s in w["shared"])
        e = build(t, sh, {})
        cx.case = {"part": "AB", "term": t, "n": w["n"], "shared": sorted(sh, key=tstr), "key": w["key"]}
        part.inc("states")
        check_variant(cx, t, w["n"], sh, e, True)
    elif w["part"] == "C":
        table = tuple((n, k) for n, k in w["table"])
        check_table(cx, table, (MultiFunction, Transformer, DAGTraverser))
    else:
        sanity_names(run)
    d = cx.flush()
    d["violations"] = [v for v in d["violations"] if v["key"] == rj.get("key")]
    run.merge(d)
    run.rule = "replay of one witness"
    run.finish()


def main(argv):
    run = Run(PID, argv)
    if run.args.replay:
        return replay(run)
    thorough = run.thorough()
    PAIRS_MAX_N[:] = [5, 6] if thorough else [4, 4]
    FOUR_MODES_MAX_N[0] = 6 if thorough else 5
    # ---- DAGs
    seen = set()
    items = []
    per_alpha = {}
    for name, N in tiers(thorough):
        leaves, ops = ALPHABETS[name]
        cnt = Counter()
        for t, n, s in enumerate_terms(N, leaves, ops):
            if t in seen:
                continue
            seen.add(t)
            cnt[n] += 1
            items.append((t, n, s))
        per_alpha[name] = {"max_nodes": N, "new_recipes_by_node_count": dict(sorted(cnt.items()))}
    items.sort(key=lambda x: (x[1], tstr(x[0])))
    merge_parts(run, pmap(dag_worker, items, seed=run.seed, chunks_per_proc=16))
    # ---- dispatch tables
    tabs, nchain, ncross, names = dispatch_tables(thorough)
    titems = sorted(tabs.items())
    if os.environ.get("C19_DEV_SMALL"):
        titems = [x for x in titems if x[1] == "chain"]
        run.exhaustive = False
    merge_parts(run, pmap(table_worker, titems, seed=run.seed, chunks_per_proc=8))
    sanity_names(run)
    run.rule = (
        "Parts A/B: every recipe over the alphabet whose DAG has <= N structurally distinct nodes, each built as "
        "every object graph obtained by choosing for each repeated subterm 'one shared object' or 'rebuilt per "
        "occurrence' (all subsets for n<=5; 4 fixed modes above), deduplicated by object-identity pattern; "
        "non-trivial = object graphs whose tree expansion has more nodes than the DAG (real sharing). "
        "Part C: every (table, class) pair; non-trivial = expected handler is not the class's own."
    )
    run.bounds = {
        "alphabets": {k: {"leaves": ALPHABETS[k][0], "ops": [o[0] for o in ALPHABETS[k][1]], **v} for k, v in per_alpha.items()},
        "recipes": len(items),
        "sharing_modes": f"all subsets of repeated subterms for n<={SUBSET_MAX_N}; {{all shared, none, leaves only, operators only}} for n<={FOUR_MODES_MAX_N[0]}; {{all shared, none}} beyond",
        "traversal_cutoff_sets": "all subsets of the operator classes present in the DAG, plus {Coefficient}",
        "two_root_checks": f"all ordered pairs of sub-DAGs of each DAG with <= {PAIRS_MAX_N[0]} nodes (<= {PAIRS_MAX_N[1]} nodes over {{f; Sin, Div}}), on the tree / max-shared / unshared object graphs",
        "handler_families": "id, swap, leafrep(cut/post), zero, wrap, count, str, cut:{operator,math_function,condition}, op_only, manual, memoized, cut:every nonempty subset of present operator handler names",
        "dispatch_classes": len(ALL_CLASSES),
        "dispatch_tables_chain": nchain,
        "dispatch_tables_cross_extra": ncross,
        "dispatch_cross_names": names,
        "dispatch_chain_states": "absent/post/cut for chains of <=6 names + ufl_type (thorough), absent/post otherwise",
    }
    if os.environ.get("C19_DEV_SMALL"):
        run.bounds["DEV_SMALL"] = "development run on a reduced space (C19_DEV_SMALL set): not a tier result"
    run.assumptions += [
        "structural identity of expressions is type name + operands, terminals by str(); the alphabet has no constructor simplification depending on object identity (recipes whose constructor simplifies are dropped and counted)",
        "handlers are pure functions of (node, processed operands) apart from the call log",
        "pre_traversal/post_traversal operand order is unspecified: any order with parents before (after) children is accepted",
        "with a caller-supplied `visited` set a unique traversal may yield its root again; nothing else already visited",
    ]
    run.finish()
