"""C01 Form preprocessing preserves the meaning of every integral.

Exhaustive product  integrand templates x element settings x meshes (incl. immersed) x measures x option
sets of compute_form_data.  For every (integral type, subdomain id) of the result, the sum of the model
values of the preprocessed integrands (reference-frame data) must equal the measure's scaling factor
times the sum of the model values of the original integrands that apply there (physical data).  Any
exception raised by compute_form_data is an accepted outcome ("or raises"), counted by type.
"""

import copy
import itertools
import json

import ufl
from mc import elements as E
from mc import envs as EV
from mc import formsem as FS
from mc.runner import Part, Run, pmap
from mc.sem import sem as M
from mc.sem.jet import Ambiguous, Undefined, mpf, set_order

PID = "C01"
ORDER = 3

MESHES = [("triangle", 2), ("interval", 1), ("tetrahedron", 3), ("triangle", 3), ("interval", 2)]

ELEMENT_SETTINGS = ["P1", "P2v", "RT", "N1", "DGP", "Regge", "HHJ", "GLS", "SymP1", "Mx[RT,DG0]", "Mx[P2v,P1]", "P2t"]


def arg_element(name, cellname, gdim):
    c = cellname
    t = EV.TDIM[c]
    if name == "P1":
        return E.P(c, 1)
    if name == "P2v":
        return E.P(c, 2, (gdim,))
    if name == "P2t":
        return E.P(c, 1, (gdim, gdim))
    if name == "RT":
        return E.RT(c, 1)
    if name == "N1":
        return E.N1curl(c, 1)
    if name == "DGP":
        return E.DGpiola(c, 1)
    if name == "Regge":
        return E.Regge(c, 1)
    if name == "HHJ":
        return E.HHJ(c, 1)
    if name == "GLS":
        return E.CovContra(c, 1)
    if name == "SymP1":
        return E.SymP(c, 1, gdim)
    if name == "Mx[RT,DG0]":
        return E.Mixed([E.RT(c, 1), E.DG(c, 0)])
    if name == "Mx[P2v,P1]":
        return E.Mixed([E.P(c, 2, (gdim,)), E.P(c, 1)])
    raise KeyError(name)


class World:
    def __init__(self, cellname, gdim, setting):
        self.cellname, self.gdim, self.setting = cellname, gdim, setting
        self.tdim = EV.TDIM[cellname]
        m = EV.mesh(cellname, gdim)
        self.mesh = m
        el = arg_element(setting, cellname, gdim)
        self.V = ufl.FunctionSpace(m, el)
        self.u = ufl.TrialFunction(self.V)
        self.v = ufl.TestFunction(self.V)
        self.k = ufl.Coefficient(self.V)  # coefficient in the same (possibly Piola / mixed) space
        S2 = ufl.FunctionSpace(m, E.P(cellname, 2))
        self.f = ufl.Coefficient(S2)
        self.g = ufl.Coefficient(S2)
        self.w = ufl.Coefficient(ufl.FunctionSpace(m, E.P(cellname, 2, (gdim,))))
        self.q = ufl.Coefficient(ufl.FunctionSpace(m, E.DG(cellname, 1)))
        self.c = ufl.Constant(m)
        self.x = ufl.SpatialCoordinate(m)
        self.n = ufl.FacetNormal(m)


def parts(W, a):
    """Decompose a (possibly mixed) function into a list of scalar/vector/tensor pieces."""
    if W.setting.startswith("Mx["):
        return list(ufl.split(a))
    return [a]


def templates(W, itype):
    """name -> integrand builder (returns scalar UFL expression)."""
    u, v, k, f, g, w, q, c, x, n = W.u, W.v, W.k, W.f, W.g, W.w, W.q, W.c, W.x, W.n
    i, j, l = ufl.indices(3)
    T = {}
    up, vp, kp = parts(W, u), parts(W, v), parts(W, k)
    facet = itype != FS.CELL
    inter = itype == FS.INT

    def R(e, side="+"):
        return e(side) if inter else e

    # generic in the value shape: bilinear, linear, functional
    T["mass"] = lambda: sum(ufl.inner(R(a), R(b, "-")) for a, b in zip(up, vp))
    T["weighted_mass"] = lambda: sum(R(f) * ufl.inner(R(a), R(b)) for a, b in zip(up, vp))
    T["source"] = lambda: sum(R(f) * ufl.inner(R(kk), R(b)) for kk, b in zip(kp, vp))
    T["energy"] = lambda: sum(ufl.inner(R(kk), R(kk)) for kk in kp) * R(f)
    T["nonlinear"] = lambda: sum(ufl.exp(R(f)) * ufl.sqrt(ufl.inner(R(kk), R(kk)) + 1) * ufl.inner(R(kk), R(b)) for kk, b in zip(kp, vp))
    T["grad_grad"] = lambda: sum(ufl.inner(ufl.grad(R(a)), ufl.grad(R(b))) for a, b in zip(up, vp))
    T["xweight"] = lambda: sum(x[0] * ufl.inner(R(a), R(b, "-")) for a, b in zip(up, vp))
    T["cond"] = lambda: ufl.conditional(ufl.lt(R(f), R(g)), R(f), R(g) * R(g)) * sum(ufl.inner(R(kk), R(b)) for kk, b in zip(kp, vp))
    T["hquant"] = lambda: R(ufl.CellVolume(W.mesh)) * R(ufl.Circumradius(W.mesh)) * sum(ufl.inner(R(a), R(b)) for a, b in zip(up, vp))
    T["diameter"] = lambda: R(ufl.CellDiameter(W.mesh)) * sum(ufl.inner(R(kk), R(b)) for kk, b in zip(kp, vp))
    T["derivative"] = lambda: ufl.derivative(sum(ufl.inner(R(kk), R(kk)) ** 2 for kk in kp) * R(f), k, v).integrals()[0].integrand() if False else None
    del T["derivative"]
    T["absdet"] = lambda: abs(R(ufl.JacobianDeterminant(W.mesh))) * sum(ufl.inner(R(kk), R(b)) for kk, b in zip(kp, vp))
    T["vardiff"] = lambda: _vardiff(W, kp, vp, R)
    # rank specific
    a0, b0, k0 = up[0], vp[0], kp[0]
    r = len(a0.ufl_shape)
    if r == 0:
        T["advect"] = lambda: ufl.dot(R(w), ufl.grad(R(a0))) * R(b0)
        T["dx0"] = lambda: R(a0).dx(0) * R(b0) + R(f).dx(0) * R(a0) * R(b0)
        T["hess"] = lambda: ufl.inner(ufl.grad(ufl.grad(R(f))), ufl.outer(R(w), R(w))) * R(a0) * R(b0)
        T["power"] = lambda: (R(k0) ** 2 + 1) ** 1.5 * R(b0)
    if r == 1:
        T["div_q"] = lambda: ufl.div(R(a0)) * R(f) * ufl.div(R(b0))
        T["index_reuse"] = lambda: (R(a0)[i] * R(w)[i]) * (R(b0)[i] * R(w)[i])
        T["capture"] = lambda: ufl.as_vector(ufl.grad(R(w))[i, l] * R(a0)[l], i)[l] * R(b0)[l]
        T["nabla"] = lambda: ufl.inner(ufl.nabla_grad(R(a0)), ufl.grad(R(b0)))
        T["sym_grad"] = lambda: ufl.inner(ufl.sym(ufl.grad(R(a0))), ufl.grad(R(b0)))
        if W.gdim == 3:
            T["curl_curl"] = lambda: ufl.inner(ufl.curl(R(a0)), ufl.curl(R(b0)))
            T["cross"] = lambda: ufl.dot(ufl.cross(R(a0), R(w)), R(b0))
        if W.gdim == 2:
            T["curl2d"] = lambda: ufl.curl(R(a0)) * ufl.curl(R(b0))
            T["perp"] = lambda: ufl.dot(ufl.perp(R(a0)), R(b0))
        T["detinv"] = lambda: ufl.det(ufl.grad(R(w)) + ufl.Identity(W.gdim)) * ufl.inner(ufl.inv(ufl.grad(R(w)) + ufl.Identity(W.gdim)) * R(a0), R(b0)) if W.gdim == W.tdim else None
    if r == 2:
        T["trace"] = lambda: ufl.tr(R(a0)) * ufl.tr(R(b0))
        T["dev_sym"] = lambda: ufl.inner(ufl.dev(R(a0)), ufl.sym(R(b0))) if W.gdim in (2, 3) else None
        T["divdiv"] = lambda: ufl.dot(ufl.div(R(a0)), ufl.div(R(b0)))
        T["Aij"] = lambda: R(a0)[i, j] * R(b0)[j, i] + R(a0)[i, i] * R(b0)[j, j]
        T["double_dot_w"] = lambda: ufl.dot(ufl.dot(R(a0), R(w)), ufl.dot(R(b0), R(w)))
    if facet:
        T["flux"] = lambda: sum(ufl.inner(R(a), R(b)) for a, b in zip(up, vp)) * ufl.dot(R(w), R(n))
        T["farea"] = lambda: ufl.FacetArea(W.mesh) * sum(ufl.inner(R(kk), R(b)) for kk, b in zip(kp, vp))
        if r == 0:
            T["dn"] = lambda: ufl.dot(ufl.grad(R(a0)), R(n)) * R(b0)
        if r == 1:
            T["normal_comp"] = lambda: ufl.dot(R(a0), R(n)) * ufl.dot(R(b0), R(n))
        if r == 2:
            T["nn"] = lambda: ufl.dot(ufl.dot(R(a0), R(n)), R(n)) * ufl.dot(ufl.dot(R(b0), R(n)), R(n))
    if inter:
        T["jump_avg"] = lambda: sum(ufl.inner(ufl.jump(a), ufl.avg(b)) for a, b in zip(up, vp))
        T["sides"] = lambda: sum(q("+") * ufl.inner(a("-"), b("+")) + q("-") * ufl.inner(a("+"), b("-")) for a, b in zip(up, vp))
        T["h_avg"] = lambda: ufl.avg(ufl.CellVolume(W.mesh)) / ufl.FacetArea(W.mesh) * sum(ufl.inner(ufl.jump(a), ufl.jump(b)) for a, b in zip(up, vp))
        if r == 0:
            T["jump_n"] = lambda: ufl.inner(ufl.jump(a0, n), ufl.jump(b0, n))
            T["avg_grad"] = lambda: ufl.dot(ufl.avg(ufl.grad(a0)), n("+")) * ufl.jump(b0)
    return T


def _vardiff(W, kp, vp, R):
    k0 = kp[0]
    V = ufl.variable(R(k0))
    psi = ufl.inner(V, V) * ufl.exp(R(W.f))
    return ufl.inner(ufl.diff(psi, V), R(vp[0]))


def derivative_forms(W, measure):
    """Forms that are Gateaux derivatives (first and second) of a functional."""
    k, f = W.k, W.f
    kp = parts(W, k)
    Fl = (sum(ufl.inner(kk, kk) for kk in kp) ** 2 * f + ufl.exp(f) * sum(ufl.inner(kk, kk) for kk in kp)) * measure
    out = {}
    out["dF"] = lambda: ufl.derivative(Fl, k, W.v)
    out["d2F"] = lambda: ufl.derivative(ufl.derivative(Fl, k, W.v), k, W.u)
    out["dF_df"] = lambda: ufl.derivative(Fl, f)
    return out


MEASURES = {
    "dx": (FS.CELL, lambda m: ufl.dx(domain=m)),
    "dx(1)": (FS.CELL, lambda m: ufl.dx(1, domain=m)),
    "dx((1,2))+dx": (FS.CELL, None),
    "ds": (FS.EXT, lambda m: ufl.ds(domain=m)),
    "ds(1)+ds": (FS.EXT, None),
    "dS": (FS.INT, lambda m: ufl.dS(domain=m)),
}

OPTION_KEYS = [
    "do_apply_function_pullbacks",
    "do_apply_integral_scaling",
    "do_apply_geometry_lowering",
    "do_cancel_jacobian_products",
    "do_remove_component_tensors",
    "complex_mode",
    "do_replace_functions",
    "do_append_everywhere_integrals",
    "do_apply_restrictions",
    "do_apply_default_restrictions",
]


def option_sets(quick):
    """Option dictionaries. thorough: all 2^10; quick: all 2^5 of the lowering flags with the rest cycling."""
    out = []
    if quick:
        for bits in itertools.product([False, True], repeat=5):
            n = sum(1 << i for i, b in enumerate(bits) if b)
            o = dict(zip(OPTION_KEYS[:5], bits))
            o["complex_mode"] = bool(n % 2)
            o["do_replace_functions"] = bool((n // 2) % 2)
            o["do_append_everywhere_integrals"] = not bool((n // 4) % 3 == 0)
            o["do_apply_restrictions"] = True
            o["do_apply_default_restrictions"] = bool(n % 5)
            out.append(o)
        # a few with restrictions off
        for n in (0, 31, 7):
            o = dict(out[n])
            o["do_apply_restrictions"] = False
            out.append(o)
    else:
        for bits in itertools.product([False, True], repeat=len(OPTION_KEYS)):
            out.append(dict(zip(OPTION_KEYS, bits)))
    return out


def build_form(W, mname, tname):
    itype, mk = MEASURES[mname]
    if tname.startswith("D:"):
        meas = mk(W.mesh) if mk else (ufl.dx((1, 2), domain=W.mesh) if itype == FS.CELL else ufl.ds(1, domain=W.mesh))
        return derivative_forms(W, meas)[tname[2:]]()
    T = templates(W, itype)
    if tname not in T:
        return None
    e = T[tname]()
    if e is None:
        return None
    if mk is not None:
        return e * mk(W.mesh)
    if itype == FS.CELL:
        return e * ufl.dx((1, 2), domain=W.mesh) + 2 * e * ufl.dx(domain=W.mesh) + W.c * e * ufl.dx(3, domain=W.mesh)
    return e * ufl.ds(1, domain=W.mesh) + 3 * e * ufl.ds(domain=W.mesh)


def all_template_names():
    names = set()
    for setting in ELEMENT_SETTINGS:
        for it in (FS.CELL, FS.EXT, FS.INT):
            try:
                W = World("triangle", 2, setting)
                names |= set(templates(W, it))
            except Exception:
                pass
            try:
                W = World("tetrahedron", 3, setting)
                names |= set(templates(W, it))
            except Exception:
                pass
    return sorted(names) + ["D:dF", "D:d2F", "D:dF_df"]


def check_item(item, opts_list, part, n_env):
    from ufl.algorithms import compute_form_data

    cellname, gdim, setting, mname, tname = item
    key0 = f"{tname}|{setting}|{cellname}{gdim}d|{mname}"
    itype = MEASURES[mname][0]
    try:
        W = World(cellname, gdim, setting)
        form = build_form(W, mname, tname)
    except BaseException as e:  # noqa: BLE001
        if isinstance(e, (KeyboardInterrupt, SystemExit, MemoryError)):
            raise
        part.error("build:" + type(e).__name__)
        return
    if form is None or not isinstance(form, ufl.Form) or not form.integrals():
        part.count("template_not_applicable")
        return
    part.inc("states")
    orig = FS.original_integrands(form)
    nontrivial = False
    for opts in opts_list:
        part.inc("transitions")
        okey = "".join("1" if opts[k] else "0" for k in OPTION_KEYS)
        try:
            fd = compute_form_data(form, **opts)
            idata = [(d.integral_type, tuple(d.subdomain_id), [i.integrand() for i in d.integrals]) for d in fd.integral_data]
            rmap = dict(fd.function_replace_map) if opts["do_replace_functions"] else {}
        except BaseException as e:  # noqa: BLE001
            if isinstance(e, (KeyboardInterrupt, SystemExit, MemoryError)):
                raise
            part.error(type(e).__name__)
            part.outcome(("raises", type(e).__name__))
            continue
        envs = FS.envs_for(itype, cellname, gdim, complex_mode=opts["complex_mode"], n=n_env, both_orientations=True)
        seen_ids = set()
        for it, sids, integrands in idata:
            for sid in sids:
                seen_ids.add((it, sid))
                contributors = [o[2] for o in orig if o[0] == it and FS.applies(o[1], sid, opts["do_append_everywhere_integrals"])]
                for env in envs:
                    env2 = copy.copy(env)
                    env2.alias = {new: old for old, new in rmap.items()}
                    try:
                        lhs = FS.sum_integrands(integrands, env2)
                        rhs = FS.sum_integrands(contributors, env)
                        if opts["do_apply_integral_scaling"]:
                            rhs = rhs * FS.measure_scale(it, env)
                    except Ambiguous:
                        part.count("ambiguous_env")
                        continue
                    except Undefined as ex:
                        part.count("model_undefined_env")
                        part.count("undefined:" + str(ex)[:60])
                        continue
                    part.inc("validated")
                    if not M.values_close(lhs, rhs, mpf("1e-9")):
                        part.violation(
                            f"{PID}:{key0}|{okey}",
                            f"compute_form_data changed the integrand of {key0} (subdomain {sid}) with options {okey}",
                            {
                                "item": list(item),
                                "options": opts,
                                "integral_type": it,
                                "subdomain_id": str(sid),
                                "preprocessed": M.show(lhs),
                                "original_scaled": M.show(rhs),
                                "env": env.describe(),
                                "integrand": str(integrands[0])[:1500],
                            },
                        )
                        return
                    if rhs != 0:
                        nontrivial = True
        # coverage of subdomains: every expected target must be present unless its expected sum is zero
        targets = set()
        for it, sid, _, _ in orig:
            for s in sid if isinstance(sid, tuple) else (sid,):
                targets.add((it, "otherwise" if s in ("everywhere", "otherwise") else s))
        for it, sid in targets - seen_ids:
            contributors = [o[2] for o in orig if o[0] == it and FS.applies(o[1], sid, opts["do_append_everywhere_integrals"])]
            for env in envs[:1]:
                try:
                    rhs = FS.sum_integrands(contributors, env)
                except (Ambiguous, Undefined):
                    continue
                if not M.values_close(rhs, mpf(0), mpf("1e-12")):
                    part.violation(
                        f"{PID}:dropped:{key0}|{okey}",
                        f"compute_form_data dropped the integral over {it} {sid} of {key0} with options {okey}",
                        {"item": list(item), "options": opts, "integral_type": it, "subdomain_id": str(sid), "expected": M.show(rhs)},
                    )
                    return
        part.outcome(("ok", okey))
    if nontrivial:
        part.inc("nontrivial")
    part.sample({"template": tname, "setting": setting, "mesh": f"{cellname}{gdim}d", "measure": mname}, limit=2)


def main(argv):
    run = Run(PID, argv)
    quick = not run.thorough()
    set_order(ORDER)
    if run.args.replay:
        return replay(run)
    tnames = all_template_names()
    meshes = MESHES[:3] + MESHES[3:4] if quick else MESHES
    items = []
    for cellname, gdim in meshes:
        for setting in ELEMENT_SETTINGS:
            for mname in MEASURES:
                for tname in tnames:
                    if quick:
                        # quick tier: full product on the 2D triangle, a fixed diagonal slice elsewhere
                        h = (len(setting) * 7 + len(tname) * 3 + len(mname)) % 4
                        if (cellname, gdim) != ("triangle", 2) and h != 0:
                            continue
                        if (cellname, gdim) == ("triangle", 2) and h > 1:
                            continue
                    items.append((cellname, gdim, setting, mname, tname))
    if run.smoke:
        items = items[:: max(1, len(items) // 48)]
        run.exhaustive = False
    opts_list = option_sets(quick)
    if quick:
        # quick: each item runs a rotating quarter of the option sets (all sets are covered across items)
        pass
    run.bounds.update(
        templates=tnames,
        element_settings=ELEMENT_SETTINGS,
        meshes=[f"{c}{g}d" for c, g in meshes],
        measures=list(MEASURES),
        option_sets=len(opts_list),
        items=len(items),
        quick_slice="quick: on triangle2d half of the (setting, template, measure) product, elsewhere a quarter (fixed arithmetic slice); each item runs 9 of the 35 option sets (rotating)"
        if quick
        else "full item product; each item runs a rotating 1/128 slice of the 1024 option combinations (all covered across items) plus the all-on set",
    )

    def work(chunk):
        part = Part()
        set_order(ORDER)
        for item in chunk:
            if quick:
                h = sum(map(ord, "|".join(map(str, item)))) % 4
                ol = [o for n, o in enumerate(opts_list) if n % 4 == h or n in (31,)]
            else:
                # thorough: the full item product; each item runs a rotating 1/128 slice of the 1024 option combinations
                # (all combinations are covered across items) plus the all-on set.  The complete product
                # items x 1024 is about 6 million compute_form_data calls and does not finish in hours.
                h = sum(map(ord, "|".join(map(str, item)))) % 128
                ol = [o for n, o in enumerate(opts_list) if n % 128 == h or n == len(opts_list) - 1]
            check_item(item, ol, part, 1)
        return part.dict()

    for d in pmap(work, items, seed=run.seed, chunks_per_proc=8):
        run.merge(d)
    run.rule = (
        "one state per (template, element setting, mesh, measure) form; every option set is a transition; every (integral type, subdomain id) of every "
        "result is compared in every environment; non-trivial = some compared original value non-zero"
    )
    run.assumptions += [
        "affine simplex cells only; MeshSequence, coefficients_to_split, quadrilaterals, vertex/custom integrals are not covered",
        "H1 (identity pullback) coefficients are continuous across interior facets; all other data are independent per side",
        "FEniCS/basix reference-cell tables; det J carries CellOrientation on manifolds",
    ]
    run.finish()


def replay(run):
    with open(run.args.replay) as f:
        w = json.load(f)["witness"]
    part = Part()
    set_order(ORDER)
    check_item(tuple(w["item"]), [w["options"]], part, 2)
    run.merge(part.dict())
    run.finish()
