"""C06 Lowering compound tensor algebra preserves values.

Finite operator table x operand shapes x operand kinds (+ all unary-after-unary/binary nestings), each
case lowered by the real apply_algebra_lowering and compared (shape, free indices, value) with the
definition of the compound operator in the reference model, on real and complex environments; the
hand-expanded determinant / adjugate / cofactor / deviatoric / inverse tables are additionally checked on
the complete {0,1}^(n*n) grid of matrices (both sides are multilinear in every entry, so agreement on the
grid proves the polynomial identity), and pseudo-determinants/-inverses on integer grids of rectangular
matrices.
"""

import itertools
import json

import numpy as np

import ufl
from mc import elements as E
from mc import envs as EV
from mc import passes as P
from mc.runner import Part, Run, pmap
from mc.sem import sem as M
from mc.sem.cells import det as m_det
from mc.sem.cells import inv as m_inv
from mc.sem.cells import matmul, pinv, zeros
from mc.sem.jet import Ambiguous, S, Undefined, mpf, set_order

PID = "C06"


class World:
    def __init__(self, cellname):
        self.cellname = cellname
        self.mesh = EV.mesh(cellname)
        self.gdim = self.mesh.geometric_dimension
        self._coef = {}
        self._const = {}

    def coef(self, shape, k=0, degree=2):
        key = (shape, k, degree)
        if key not in self._coef:
            el = E.P(self.cellname, degree, shape)
            self._coef[key] = ufl.Coefficient(ufl.FunctionSpace(self.mesh, el))
        return self._coef[key]

    def const(self, k):
        if k not in self._const:
            self._const[k] = ufl.Constant(self.mesh)
        return self._const[k]


KINDS = ["coef", "sum", "list", "zrow", "scaled", "transposed"]


def operand(W, shape, kind, k=0):
    """A tensor-valued operand of the given shape and structural kind."""
    A = W.coef(shape, k)
    if kind == "coef":
        return A
    if kind == "sum":
        return A + W.coef(shape, k + 10)
    if kind == "scaled":
        return W.const(0) * A
    if kind == "transposed":
        if len(shape) != 2:
            return None
        return ufl.transpose(W.coef(shape[::-1], k + 20))
    if kind in ("list", "zrow"):
        cnt = itertools.count(100 * (k + 1))

        def build(sh, first=True):
            if not sh:
                return W.const(next(cnt))
            rows = []
            for r in range(sh[0]):
                if kind == "zrow" and first and r == 0:
                    rows.append(build_zero(sh[1:]))
                else:
                    rows.append(build(sh[1:], False))
            return rows

        def build_zero(sh):
            if not sh:
                return 0
            return [build_zero(sh[1:]) for _ in range(sh[0])]

        if kind == "zrow" and len(shape) == 1 and shape[0] < 2:
            return None
        return ufl.as_tensor(build(shape))
    raise ValueError(kind)


UNARY = {
    "transpose": ufl.transpose,
    "tr": ufl.tr,
    "det": ufl.det,
    "inv": ufl.inv,
    "cofac": ufl.cofac,
    "dev": ufl.dev,
    "sym": ufl.sym,
    "skew": ufl.skew,
}
BINARY = {"dot": ufl.dot, "inner": ufl.inner, "outer": ufl.outer}


def cases(W, quick):
    """Yield (name, builder) pairs; builders return a UFL expression or raise."""
    out = []
    dims = [1, 2, 3, 4]
    kinds = KINDS if not quick else ["coef", "sum", "list", "zrow"]
    for opn, op in UNARY.items():
        for n in dims:
            shapes = [(n, n)]
            if opn == "transpose":
                shapes += [(n, m) for m in dims if m != n and m <= 3]
            for sh in shapes:
                for kind in kinds:
                    out.append((f"{opn}({kind}{sh})", (lambda op=op, sh=sh, kind=kind: op(operand(W, sh, kind)))))
    vecdims = [2, 3]
    for opn, op in BINARY.items():
        for ra, rb in itertools.product([1, 2, 3], repeat=2):
            if ra + rb > 5:
                continue
            for d in vecdims:
                sa, sb = (d,) * ra, (d,) * rb
                if opn == "inner" and sa != sb:
                    continue
                for kind in ["coef", "sum", "list"] if not (quick and ra + rb > 3) else ["coef"]:
                    out.append(
                        (
                            f"{opn}({kind}{sa},{kind}{sb})",
                            (lambda op=op, sa=sa, sb=sb, kind=kind: op(operand(W, sa, kind, 0), operand(W, sb, kind, 1))),
                        )
                    )
        # rectangular dot / outer
        out.append((f"{opn}(coef(2, 3),coef(3, 2))", (lambda op=op: op(W.coef((2, 3)), W.coef((3, 2))))))
        out.append((f"{opn}(coef(2, 3),coef(3,))", (lambda op=op: op(W.coef((2, 3)), W.coef((3,))))))
    # scalars through the public functions
    for opn in ("dot", "inner", "outer"):
        out.append((f"{opn}(scalar,scalar)", (lambda opn=opn: getattr(ufl, opn)(W.coef(()), W.coef((), 1)))))
        out.append((f"{opn}(scalar,vec)", (lambda opn=opn: getattr(ufl, opn)(W.coef(()), W.coef((2,), 1)))))
    for kind in ["coef", "sum", "list", "zrow"]:
        out.append((f"cross({kind})", (lambda kind=kind: ufl.cross(operand(W, (3,), kind, 0), operand(W, (3,), kind, 1)))))
        out.append((f"perp({kind})", (lambda kind=kind: ufl.perp(operand(W, (2,), kind, 0)))))
    # operands carrying free indices
    i = ufl.Index()
    B = W.coef((2, 2, 2))
    out.append(("dot(B[i,:,:],v)", lambda: ufl.dot(B[i, :, :], W.coef((2,)))))
    out.append(("outer(B[i,:,0],v)", lambda: ufl.outer(B[i, :, 0], W.coef((2,)))))
    out.append(("inner(B[i,:,:],A)", lambda: ufl.inner(B[i, :, :], W.coef((2, 2)))))
    out.append(("tr(B[i,:,:])", lambda: ufl.tr(B[i, :, :])))
    out.append(("transpose(B[i,:,:])", lambda: ufl.transpose(B[i, :, :])))
    out.append(("perp(B[i,0,:])", lambda: ufl.perp(B[i, 0, :])))
    out.append(("sym(B[i,:,:])", lambda: ufl.sym(B[i, :, :])))
    # nestings of two compound operators on 2x2 and 3x3
    for n in (2, 3):
        A0, A1 = W.coef((n, n)), W.coef((n, n), 1)
        v0, v1 = W.coef((n,)), W.coef((n,), 1)
        inner_exprs = {
            "dot(A,A1)": lambda: ufl.dot(A0, A1),
            "outer(v,v1)": lambda: ufl.outer(v0, v1),
            "A.T": lambda: ufl.transpose(A0),
            "sym(A)": lambda: ufl.sym(A0),
            "skew(A)": lambda: ufl.skew(A0),
            "dev(A)": lambda: ufl.dev(A0),
            "inv(A)": lambda: ufl.inv(A0),
            "cofac(A)": lambda: ufl.cofac(A0),
            "A+A1.T": lambda: A0 + ufl.transpose(A1),
            "dot(A,v)": lambda: ufl.dot(A0, v0),
        }
        for nm, fe in inner_exprs.items():
            for opn, op in UNARY.items():
                out.append((f"{opn}({nm})[n={n}]", (lambda op=op, fe=fe: op(fe()))))
            out.append((f"dot({nm},v)[n={n}]", (lambda fe=fe: ufl.dot(fe(), v1))))
            out.append((f"inner({nm},{nm})[n={n}]", (lambda fe=fe: ufl.inner(fe(), fe()))))
            out.append((f"outer(v,{nm})[n={n}]", (lambda fe=fe: ufl.outer(v1, fe()))))
    # differential operators (lowered to Grad + index notation)
    g = W.gdim
    f = W.coef(())
    v = W.coef((g,))
    T = W.coef((g, g))
    diff_ops = {"grad": ufl.grad, "nabla_grad": ufl.nabla_grad, "div": ufl.div, "nabla_div": ufl.nabla_div, "curl": ufl.curl}
    for nm, op in diff_ops.items():
        for tn, t in (("f", f), ("v", v), ("T", T)):
            out.append((f"{nm}({tn})@{W.cellname}", (lambda op=op, t=t: op(t))))
            for nm2, op2 in diff_ops.items():
                out.append((f"{nm2}({nm}({tn}))@{W.cellname}", (lambda op=op, op2=op2, t=t: op2(op(t)))))
        out.append((f"{nm}(f*v)@{W.cellname}", (lambda op=op: op(f * v))))
        out.append((f"{nm}(dot(T,v))@{W.cellname}", (lambda op=op: op(ufl.dot(T, v)))))
        out.append((f"tr({nm}(v))@{W.cellname}", (lambda op=op: ufl.tr(op(v)))))
    out.append((f"f.dx(0)@{W.cellname}", lambda: f.dx(0)))
    out.append((f"v.dx(i)@{W.cellname}", lambda: v.dx(i)))
    out.append((f"T[i,j].dx(j)@{W.cellname}", lambda: T[i, ufl.Index()].dx(0)))
    return out


def run_case(name, builder, envs, part):
    from ufl.algorithms.apply_algebra_lowering import apply_algebra_lowering

    part.inc("transitions")
    try:
        e = builder()
    except BaseException as ex:  # noqa: BLE001
        if isinstance(ex, (KeyboardInterrupt, SystemExit, MemoryError)):
            raise
        part.error("construct:" + type(ex).__name__)
        return
    if e is None:
        return
    e = ufl.as_ufl(e)
    try:
        low = apply_algebra_lowering(e)
    except BaseException as ex:  # noqa: BLE001
        if isinstance(ex, (KeyboardInterrupt, SystemExit, MemoryError)):
            raise
        part.error("lowering:" + type(ex).__name__)
        part.count("lowering_rejected")
        return
    part.inc("states")
    set_order(max(1, M.derivative_depth(e)))
    wit = {"case": name, "before": repr(e)[:800]}
    # structural: no compound operator left
    from ufl.corealg.traversal import unique_pre_traversal
    from ufl.classes import CompoundTensorOperator, CompoundDerivative, Grad, ReferenceGrad

    for n in unique_pre_traversal(low):
        if isinstance(n, CompoundTensorOperator) or (
            isinstance(n, CompoundDerivative) and not isinstance(n, (Grad, ReferenceGrad))
        ):
            part.violation(f"{PID}:leftover:{name}", f"lowering left {type(n).__name__} in {name}", dict(wit, after=repr(low)[:800]))
            return
    ok = P.check_pass("apply_algebra_lowering", e, low, envs, part, PID, name, wit)
    if ok:
        part.inc("nontrivial")
        part.outcome((type(e).__name__, tuple(e.ufl_shape)))
    part.sample({"case": name}, limit=2)


def grid_matrices(n, m, values, full):
    """All n x m matrices with entries in `values` (full) or a structured subset."""
    cells = n * m
    if full:
        for ent in itertools.product(values, repeat=cells):
            yield np.array(ent, dtype=object).reshape(n, m)
    else:
        # vary the first two rows over the grid, fix the rest to generic integers
        free = min(cells, 2 * m)
        rest = [((3 * k * k + 5 * k + 1) % 7) - 3 for k in range(cells - free)]
        for ent in itertools.product(values, repeat=free):
            yield np.array(list(ent) + rest, dtype=object).reshape(n, m)


def to_mp(Mx):
    out = zeros(Mx.shape)
    for idx in np.ndindex(Mx.shape):
        out[idx] = S(int(Mx[idx]))
    return out


def grid_work(items):
    """items: list of (table, n, m, list of matrices)."""
    from ufl.algorithms.apply_algebra_lowering import apply_algebra_lowering
    from ufl.compound_expressions import determinant_expr, inverse_expr

    part = Part()
    set_order(0)
    env = EV.cell_envs("triangle", n=1)[0]
    W = World("triangle")
    cache = {}
    for table, n, m, mats in items:
        key = (table, n, m)
        if key not in cache:
            A = W.coef((n, m), 0, 1)
            if table == "det":
                e = determinant_expr(A)
            elif table == "inv":
                e = inverse_expr(A)
            elif table == "cofac":
                e = apply_algebra_lowering(ufl.cofac(A))
            elif table == "dev":
                e = apply_algebra_lowering(ufl.dev(A))
            elif table == "Determinant":
                e = apply_algebra_lowering(ufl.det(A))
            elif table == "Inverse":
                e = apply_algebra_lowering(ufl.inv(A))
            cache[key] = (A, e)
        A, e = cache[key]
        for Mx in mats:
            part.inc("transitions")
            mv = to_mp(Mx)
            ctx = M.Ctx(env, coef_value_override={A: (lambda c, mv=mv: mv)})
            # reference
            try:
                if table in ("det", "Determinant"):
                    if n == m:
                        ref = m_det(mv)
                    else:
                        import mpmath

                        ref = mpmath.sqrt(m_det(matmul(mv.T.copy(), mv)))
                elif table in ("inv", "Inverse"):
                    if n == m:
                        if m_det(mv) == 0:
                            part.count("singular_skipped")
                            continue
                        ref = m_inv(mv)
                    else:
                        if m_det(matmul(mv.T.copy(), mv)) == 0:
                            part.count("singular_skipped")
                            continue
                        ref = pinv(mv)
                elif table == "cofac":
                    ref = zeros((n, n))
                    for i in range(n):
                        for j in range(n):
                            rows = [r for r in range(n) if r != i]
                            cols = [c for c in range(n) if c != j]
                            ref[i, j] = S((-1) ** (i + j)) * m_det(mv[np.ix_(rows, cols)])
                elif table == "dev":
                    tr = sum((mv[i, i] for i in range(n)), S(0))
                    ref = mv.copy()
                    for i in range(n):
                        ref[i, i] = ref[i, i] - tr / n
                val = M.sem(e, ctx, {})
            except Undefined:
                part.count("model_undefined_env")
                continue
            part.inc("validated")
            part.inc("states")
            if not M.values_close(val, ref, mpf("1e-12")):
                part.violation(
                    f"{PID}:grid:{table}{n}x{m}:{Mx.tolist()}",
                    f"{table} table {n}x{m} wrong for matrix {Mx.tolist()}",
                    {"table": table, "n": n, "m": m, "matrix": Mx.tolist(), "model": M.show(ref), "ufl": M.show(val)},
                )
            else:
                part.inc("nontrivial")
    return part.dict()


def main(argv):
    run = Run(PID, argv)
    quick = not run.thorough()
    if run.args.replay:
        return replay(run)
    # part 1: operator table
    worlds = {"triangle": World("triangle"), "tetrahedron": World("tetrahedron")}
    envs = {
        "triangle": EV.cell_envs("triangle", complex_too=True, n=1 if quick else 2),
        "tetrahedron": EV.cell_envs("tetrahedron", complex_too=True, n=1 if quick else 2),
    }
    all_cases = []
    for wn, W in worlds.items():
        cs = cases(W, quick)
        if wn == "tetrahedron":
            # on the tetrahedron only what depends on gdim: differential operators and 3D cross/curl
            cs = [c for c in cs if "@" in c[0] or c[0].startswith("cross")]
        all_cases += [(wn, k) for k in range(len(cs))]
        worlds[wn].cases = cs
    run.bounds["operator_cases"] = len(all_cases)

    def work(chunk):
        part = Part()
        for wn, k in chunk:
            name, builder = worlds[wn].cases[k]
            run_case(name, builder, envs[wn], part)
        return part.dict()

    for d in pmap(work, all_cases, seed=run.seed):
        run.merge(d)
    # part 2: exhaustive grids for the hand-expanded tables
    items = []
    B01 = [0, 1]
    chunk = 256

    def add(table, n, m, mats):
        mats = list(mats)
        for k in range(0, len(mats), chunk):
            items.append((table, n, m, mats[k : k + chunk]))

    for table in ("det", "cofac", "Inverse", "dev"):
        for n in (2, 3):
            if table == "dev" or True:
                add(table, n, n, grid_matrices(n, n, B01, True))
    add("det", 4, 4, grid_matrices(4, 4, B01, not quick))
    add("cofac", 4, 4, grid_matrices(4, 4, B01, not quick))
    add("Inverse", 4, 4, grid_matrices(4, 4, B01, False) if quick else grid_matrices(4, 4, B01, True))
    add("det", 1, 1, grid_matrices(1, 1, [-1, 0, 1, 2], True))
    add("Inverse", 1, 1, grid_matrices(1, 1, [-1, 1, 2], True))
    for n in (2,):
        add("Inverse", n, n, grid_matrices(n, n, [-1, 0, 1, 2], True))
        add("det", n, n, grid_matrices(n, n, [-1, 0, 1, 2], True))
    # rectangular: pseudo-determinant / pseudo-inverse (real matrices)
    for m in (2, 3, 4):
        for n in range(1, m):
            vals = [-1, 0, 1, 2] if n * m <= 6 else [0, 1]
            full = n * m <= 8 or not quick
            add("det", m, n, grid_matrices(m, n, vals, full))
            add("inv", m, n, grid_matrices(m, n, vals, full))
    run.bounds["grid_matrices"] = sum(len(x[3]) for x in items)
    for d in pmap(grid_work, items, seed=run.seed):
        run.merge(d)
    run.bounds.update(
        worlds=list(worlds),
        grids="{0,1}^(n*n) complete for n<=3 (and n=4 in thorough; quick varies two rows), {-1,0,1,2} for 1x1/2x2 and small rectangular",
    )
    run.rule = (
        "operator table x shapes x operand kinds + nestings, each lowered by apply_algebra_lowering; grid cases = one matrix each; "
        "non-trivial = compared and equal with a model value"
    )
    run.assumptions += [
        "documented conventions: inner conjugates its second, outer its first operand; dot does not conjugate",
        "pseudo-determinant / pseudo-inverse checked for real matrices only",
    ]
    run.finish()


def replay(run):
    with open(run.args.replay) as f:
        rp = json.load(f)
    w = rp["witness"]
    part = Part()
    if "table" in w:
        d = grid_work([(w["table"], w["n"], w["m"], [np.array(w["matrix"], dtype=object)])])
        run.merge(d)
    else:
        for wn in ("triangle", "tetrahedron"):
            W = World(wn)
            for name, builder in cases(W, False):
                if name == w["case"]:
                    run_case(name, builder, EV.cell_envs(wn, complex_too=True, n=2), part)
        run.merge(part.dict())
    run.finish()
