"""C09 Jacobian product cancellation preserves values.

BFS over the low-level expressions the pass receives: products, sums, index sums (implicit summation over
the reused pool indices), powers with constant exponents (nested), reciprocals, over J[a,b], K[a,b],
detJ, Identity, coefficient components.  cancel_jacobian_products (and remove_component_tensors followed
by it, as in compute_form_data) runs on every state; the result must have the same shape, free indices
and value on cells with det J > 0, det J < 0, and on full-rank immersed cells (3x2 Jacobian, both
orientations).
"""

import itertools
import json

import ufl
from mc import elements as E
from mc import envs as EV
from mc import passes as P
from mc.explore import check_recipe, dedup, run_level
from mc.runner import Part, Run
from mc.sem import lang as L
from mc.sem.jet import set_order

PID = "C09"


def universe(cellname, gdim):
    m = EV.mesh(cellname, gdim)
    t_ = EV.TDIM[cellname]
    S = ufl.FunctionSpace(m, E.P(cellname, 2))
    V = ufl.FunctionSpace(m, E.P(cellname, 1, (gdim,)))
    R = ufl.FunctionSpace(m, E.P(cellname, 1, (t_,)))
    T = ufl.FunctionSpace(m, E.P(cellname, 1, (gdim, gdim)))
    t = {
        "J": ufl.Jacobian(m),
        "K": ufl.JacobianInverse(m),
        "detJ": ufl.JacobianDeterminant(m),
        "I": ufl.Identity(gdim),
        "It": ufl.Identity(t_),
        "v": ufl.Coefficient(V),
        "r": ufl.Coefficient(R),
        "A": ufl.Coefficient(T),
        "f": ufl.Coefficient(S),
    }
    return L.Universe(t)


def pass_check(recipe, obj, lts, ctxs, envs, part, U):
    from ufl.algorithms.cancel_jacobian_products import cancel_jacobian_products
    from ufl.algorithms.remove_component_tensors import remove_component_tensors

    key = L.show_recipe(recipe)
    wit = {"recipe": recipe, "show": key, "before": repr(obj)[:1200]}
    ok = True
    for name, fn in (
        ("cancel_jacobian_products", cancel_jacobian_products),
        ("cancel_jacobian_products.remove_component_tensors", lambda e: cancel_jacobian_products(remove_component_tensors(e))),
    ):
        part.inc("transitions")
        try:
            res = fn(obj)
        except BaseException as e:  # noqa: BLE001
            if isinstance(e, (KeyboardInterrupt, SystemExit, MemoryError)):
                raise
            part.error(f"{name}:{type(e).__name__}")
            continue
        if res is not obj and repr(res) != repr(obj):
            part.count("rewritten:" + name)
        ok &= P.check_pass(name, obj, res, envs, part, PID, key, wit)
    return None if ok else "VIOLATION"


EXPONENTS = [2, -1, 0.5, -2, 3, 1.5, -0.5]


def explore(run, cellname, gdim, quick):
    U = universe(cellname, gdim)
    tdim = EV.TDIM[cellname]
    envs = []
    for k, verts in enumerate(EV.VERTS[(cellname, gdim)]):
        for ori in ([1, -1] if gdim > tdim else [1]):
            from mc.sem.cells import ConcreteCell
            from mc.sem.fields import FieldData
            from mc.sem.sem import Env

            envs.append(Env(ConcreteCell(cellname, verts, orientation=ori), EV.POINTS[tdim][k % 2], fields=FieldData(salt=k), name=f"{cellname}{gdim}d#{k}/ori{ori}"))
    tag = f"{cellname}{gdim}d"
    seen = set()

    def level(cands, lvl, sample_every=0):
        import sys
        import time

        cands = sorted(set(cands), key=repr)
        if run.smoke:
            cands = cands[:: max(1, len(cands) // 80)]
            run.exhaustive = False
        print(f"[{PID}] {tag} level {lvl}: {len(cands)} candidates t={time.time() - run.t0:.0f}s", file=sys.stderr)
        run.bounds[f"{tag}:level{lvl}_candidates"] = len(cands)
        new = run_level(cands, U, envs, PID, run, run.seed, extra_check=pass_check, compare=False, sample_every=sample_every)
        sts, _ = dedup(new, seen, lvl, run)
        return sts

    l0 = level([("t", n) for n in U.t], 0)
    # L1: indexed terminals with pool / fixed indices
    idx2 = [("i", "j"), ("j", "i"), ("i", "k"), ("k", "i"), ("k", "j"), ("j", "k"), ("i", 0), (0, "i"), ("k", 0), (0, "k"), ("i", "i"), (0, 0), (0, 1)]
    idx1 = [("i",), ("j",), ("k",), (0,)]
    c = []
    for s in l0:
        for comp in idx2 if s.rank == 2 else idx1 if s.rank == 1 else []:
            c.append(("getitem", s.recipe) + comp)
    l1 = level(c, 1)
    scal = [s for s in l0 if s.rank == 0]
    # L2: powers / reciprocals of scalars (detJ, f) incl. nested; products of two indexed factors (contractions)
    c = []
    for s in scal:
        r = s.recipe
        for p in EXPONENTS:
            c.append(("pow", r, ("num", p)))
            for q in EXPONENTS[:4]:
                c.append(("pow", ("pow", r, ("num", p)), ("num", q)))
        c.append(("div", ("num", 1), r))
        c.append(("div", ("num", 1), ("pow", r, ("num", 2))))
        for q in EXPONENTS:
            # powers of reciprocals: (1/x)**q, (1/x**2)**q, (1/x**3)**q
            c.append(("pow", ("div", ("num", 1), r), ("num", q)))
            c.append(("pow", ("div", ("num", 1), ("pow", r, ("num", 2))), ("num", q)))
            c.append(("pow", ("div", ("num", 1), ("pow", r, ("num", 3))), ("num", q)))
        c.append(("abs", r))
    for a, b in itertools.product(l1, repeat=2):
        c.append(("mul", a.recipe, b.recipe))
    l2 = level(c, 2, sample_every=400)
    # L2x: two Kronecker-delta contractions over the SAME summation index object with different targets, over equal and
    # over different contracted factors (the pass eliminates each sum by substituting the index in the factor)
    c = []
    gd = U.t["I"].ufl_shape[0]
    targets = [0, 1, "i", "j"]
    deltas = [("getitem", ("t", "I"), a, "k") for a in targets] + [("getitem", ("t", "I"), "k", a) for a in targets]
    factors = [("getitem", ("t", "v"), "k"), ("getitem", ("t", "A"), "k", 0), ("getitem", ("t", "A"), 0, "k"),
               ("mul", ("getitem", ("t", "v"), "k"), ("t", "f"))]
    if gd == U.t["J"].ufl_shape[0]:
        factors.append(("getitem", ("t", "J"), "k", 0))
    for d1, d2 in itertools.product(deltas, repeat=2):
        for e1 in factors:
            for e2 in factors if not quick else [e1, factors[0]]:
                c.append(("mul", ("mul", d1, e1), ("mul", d2, e2)))
                c.append(("add", ("mul", d1, e1), ("mul", d2, e2)))
    l2x = level(c, 21, sample_every=400)
    run.bounds[f"{tag}:delta_pairs"] = len(l2x)
    # L3: products of L2 with L1 / scalars / powers (triple contractions, J K J chains, reciprocal cancellation)
    c = []
    pw = [s for s in l2 if s.recipe[0] in ("pow", "div", "abs")]
    prods = [s for s in l2 if s.recipe[0] == "mul"]
    jk = [s for s in l1 if s.recipe[1][1] in ("J", "K")]
    other = [s for s in l1 if s.recipe[1][1] in ("v", "r", "A")]
    if quick:
        prods = [s for s in prods if any(n in repr(s.recipe) for n in ("'J'", "'K'"))]
        other = other[::3]
    for a in pw:
        for b in pw + scal:
            c.append(("mul", a.recipe, b.recipe))
        for b in jk[:6]:
            c.append(("mul", a.recipe, b.recipe))
    for a in prods:
        for b in jk + (other if not quick else other[:6]):
            c.append(("mul", a.recipe, b.recipe))
        for b in scal + pw[:6]:
            c.append(("mul", a.recipe, b.recipe))
        c.append(("add", a.recipe, a.recipe))
    l3 = level(c, 3, sample_every=3000)
    # L4 (comb): multiply the triple products by reciprocal powers and one more Jacobian factor; sums of rewritten products
    c = []
    src = [s for s in l3 if s.recipe[0] == "mul"]
    # comb level: the triple products with the shortest recipes (all of them is 2-3 million candidates per mesh)
    src = sorted(src, key=lambda s: (len(repr(s.recipe)), repr(s.recipe)))[: (1500 if quick else 20000)]
    rec = [("div", ("num", 1), ("t", "detJ")), ("pow", ("t", "detJ"), ("num", -2)), ("pow", ("pow", ("t", "detJ"), ("num", 2)), ("num", 0.5))]
    for s in src:
        for rr in rec:
            c.append(("mul", s.recipe, rr))
        for b in jk[:4] if quick else jk:
            c.append(("mul", s.recipe, b.recipe))
        if s.fid and len(s.fid) <= 2:
            c.append(("as_tensor", s.recipe) + tuple(sorted(s.fid)))
    l4 = level(c, 4, sample_every=10000)
    run.bounds[f"{tag}:levels"] = [len(l0), len(l1), len(l2), len(l3), len(l4)]
    run.bounds[f"{tag}:envs"] = [e.name for e in envs]


def main(argv):
    run = Run(PID, argv)
    quick = not run.thorough()
    set_order(0)
    if run.args.replay:
        return replay(run)
    meshes = [("triangle", 2), ("triangle", 3)] + ([] if quick else [("tetrahedron", 3), ("interval", 2)])
    for cellname, gdim in meshes:
        explore(run, cellname, gdim, quick)
    run.bounds.update(
        meshes=[f"{c}{g}d" for c, g in meshes],
        exponents=EXPONENTS,
        grammar="L1 indexed J/K/I/coefficients with pool indices i,j,k and fixed indices; L2 powers (nested) / reciprocals of detJ and f, all pairwise products "
        "(implicit index sums); L3 products with further factors (J K J chains, reciprocal cancellation); L4 comb with reciprocal powers, extra Jacobian factors, as_tensor",
    )
    run.rule = "every recipe of the grammar; state = distinct repr; both pass pipelines run on every state; non-trivial = built and evaluated"
    run.assumptions += ["J has full rank; K is the (pseudo-)inverse computed from the vertices; det J carries CellOrientation on manifolds"]
    run.finish()


def replay(run):
    with open(run.args.replay) as f:
        rp = json.load(f)

    def tup(x):
        return tuple(tup(y) for y in x) if isinstance(x, list) else x

    recipe = tup(rp["witness"]["recipe"])
    name = rp["witness"].get("env", {}).get("name", "triangle2d")
    part = Part()
    for cellname, gdim in [("triangle", 2), ("triangle", 3), ("tetrahedron", 3), ("interval", 2)]:
        if not name.startswith(f"{cellname}{gdim}d"):
            continue
        U = universe(cellname, gdim)
        tdim = EV.TDIM[cellname]
        from mc.sem.cells import ConcreteCell
        from mc.sem.fields import FieldData
        from mc.sem.sem import Env

        envs = []
        for k, verts in enumerate(EV.VERTS[(cellname, gdim)]):
            for ori in ([1, -1] if gdim > tdim else [1]):
                envs.append(Env(ConcreteCell(cellname, verts, orientation=ori), EV.POINTS[tdim][k % 2], fields=FieldData(salt=k), name=f"{cellname}{gdim}d#{k}/ori{ori}"))
        check_recipe(recipe, U, envs, part, PID, extra_check=pass_check, compare=False)
    run.merge(part.dict())
    run.states = 1
    run.finish()
