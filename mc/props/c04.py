"""C04 diff() with respect to variables computes partial derivatives.

BFS over recipes f built on variables (scalar, vector, tensor variables; variables of sums/products;
nested variables; a Coefficient used as variable) x every differentiation variable x repeated diff.  The
real diff() + expand_derivatives is compared with the model's definition of the partial derivative: the
tau-coefficient of Sem(f) with the variable's label bound to its value + tau*E_alpha (everything not
expressed through that label fixed), shape f.shape + v.shape.
"""

import json

import ufl
from mc import elements as E
from mc import envs as EV
from mc import passes as P
from mc.explore import check_recipe, dedup, run_level
from mc.runner import Part, Run
from mc.sem import lang as L
from mc.sem.jet import set_order

PID = "C04"


def universe():
    m = EV.mesh("triangle")
    S2 = ufl.FunctionSpace(m, E.P("triangle", 2))
    V2 = ufl.FunctionSpace(m, E.P("triangle", 2, (2,)))
    T1 = ufl.FunctionSpace(m, E.P("triangle", 1, (2, 2)))
    f = ufl.Coefficient(S2)
    g = ufl.Coefficient(S2)
    v = ufl.Coefficient(V2)
    A = ufl.Coefficient(T1)
    c = ufl.Constant(m)
    Vs = ufl.variable(f)
    Vp = ufl.variable(f * g + c)
    Vv = ufl.variable(v)
    VT = ufl.variable(ufl.grad(v) + ufl.Identity(2))
    VA = ufl.variable(A)
    Vn = ufl.variable(Vs * g + Vs**2)  # variable of an expression containing another variable
    # variables wrapping expressions that derivative expansion itself rewrites (grad of a non-terminal, a nested diff)
    Vg = ufl.variable(ufl.grad(f * g))
    Vd = ufl.variable(ufl.diff(Vs**2 * g, Vs))
    Vw = ufl.variable(Vs)  # a variable that directly labels another Variable: d/dVw holds Vs fixed elsewhere
    t = {
        "f": f,
        "g": g,
        "v": v,
        "A": A,
        "c": c,
        "Vs": Vs,
        "Vp": Vp,
        "Vv": Vv,
        "VT": VT,
        "VA": VA,
        "Vn": Vn,
        "Vg": Vg,
        "Vd": Vd,
        "Vw": Vw,
        "two": ufl.as_ufl(2),
    }
    U = L.Universe(t)
    U.vars = ["Vs", "Vp", "Vv", "VT", "VA", "Vn", "Vg", "Vd", "Vw", "f", "v"]
    # what each variable was created from (for the construction check)
    U.var_of = {"Vs": f, "Vp": f * g + c, "Vv": v, "VT": ufl.grad(v) + ufl.Identity(2), "VA": A, "Vn": Vs * g + Vs**2,
                "Vg": ufl.grad(f * g), "Vd": ufl.diff(Vs**2 * g, Vs), "Vw": Vs}
    return U


def check_variable_construction(run, U):
    """v = variable(e) must be a NEW variable whose value is e: a Variable node with a label that does not occur in e
    (otherwise "holding everything not expressed through v fixed" cannot be expressed: d/dv would also move e's own
    variables).  One state per variable of the universe."""
    from ufl.classes import Label, Variable
    from ufl.corealg.traversal import unique_pre_traversal

    for name, e in U.var_of.items():
        v = U.t[name]
        run.transitions += 1
        run.states += 1
        problems = []
        if not isinstance(v, Variable):
            problems.append(f"variable(e) returned a {type(v).__name__}")
        else:
            inner_labels = {n.count() for n in unique_pre_traversal(e) if isinstance(n, Label)}
            if v.label().count() in inner_labels:
                problems.append("the label of variable(e) already occurs inside e")
            if repr(v.expression()) != repr(e):
                problems.append("variable(e).expression() is not e")
        run.validated += 1
        if problems:
            run.violation(
                f"{PID}:variable-construction:{name}",
                f"variable(e) for {name} = variable({str(e)[:60]}): " + "; ".join(problems),
                {"variable": name, "e": repr(e)[:500], "result": repr(v)[:500]},
            )


SCALAR_FNS = ["sqrt", "exp", "ln", "sin", "cos", "tan", "sinh", "cosh", "tanh", "asin", "acos", "atan", "erf", "abs"]


def make_check(U, quick):
    def diff_check(recipe, obj, lts, ctxs, envs, part, U_):
        from ufl.algorithms import expand_derivatives

        key = L.show_recipe(recipe)
        if obj.ufl_free_indices:
            return None
        ok = True
        used = set(L_terms(recipe))
        cfgs = []
        for vn in U.vars:
            cfgs.append((f"diff(.,{vn})", [vn]))
        for a in ("Vs", "Vv", "VT", "Vn", "Vg", "Vd", "f"):
            cfgs.append((f"diff(diff(.,{a}),{a})", [a, a]))
        cfgs += [("diff(diff(.,Vs),Vv)", ["Vs", "Vv"]), ("diff(diff(.,VT),Vs)", ["VT", "Vs"]), ("diff(diff(.,Vn),Vs)", ["Vn", "Vs"]),
                 ("diff(diff(.,Vs),Vn)", ["Vs", "Vn"]), ("diff(diff(.,f),Vs)", ["f", "Vs"])]
        for name, chain in cfgs:
            # quick tier: second derivatives only for expressions that mention the first variable
            if len(chain) == 2 and quick and not (set(chain) & used):
                continue
            part.inc("transitions")
            wit = {"recipe": recipe, "show": key, "config": name, "F": repr(obj)[:800]}
            try:
                D = obj
                R = obj  # the same derivative as a raw node: the model's definition, independent of construction-time shortcuts
                for vn in chain:
                    D = ufl.diff(D, U.t[vn])
                    R = raw_variable_derivative(R, U.t[vn])
                expected_shape = tuple(obj.ufl_shape)
                for vn in chain:
                    expected_shape += tuple(U.t[vn].ufl_shape)
                ed = expand_derivatives(D)
            except BaseException as e:  # noqa: BLE001
                if isinstance(e, (KeyboardInterrupt, SystemExit, MemoryError)):
                    raise
                part.error(type(e).__name__)
                part.count("rejected:" + name)
                continue
            if tuple(ed.ufl_shape) != expected_shape or tuple(D.ufl_shape) != expected_shape:
                part.violation(
                    f"{PID}:{name}:shape:{key}",
                    f"{name} of {key} has shape {tuple(ed.ufl_shape)} (unexpanded {tuple(D.ufl_shape)}), expected {expected_shape}",
                    dict(wit, after=repr(ed)[:1200]),
                )
                ok = False
                continue
            good = P.check_pass(name, R, ed, envs, part, PID, key, wit, same_type=False)
            ok &= good
            if good and (set(chain) & used):
                part.count("nontrivial_pairs")
        return None if ok else "VIOLATION"

    return diff_check


def raw_variable_derivative(f, v):
    """VariableDerivative(f, v) without the constructor's 'trivially independent' shortcut."""
    from ufl.classes import VariableDerivative
    from ufl.differentiation import Derivative

    o = Derivative.__new__(VariableDerivative)
    VariableDerivative.__init__(o, f, v)
    return o


def L_terms(r):
    if r[0] == "t":
        return [r[1]]
    out = []
    for x in r[1:]:
        if isinstance(x, tuple):
            out += L_terms(x)
    return out


def main(argv):
    run = Run(PID, argv)
    quick = not run.thorough()
    set_order(2)
    U = universe()
    envs = EV.cell_envs("triangle", n=1 if quick else 2)
    chk = make_check(U, quick)
    if run.args.replay:
        return replay(run, U, envs, chk)
    check_variable_construction(run, U)
    seen = set()

    def level(cands, lvl, sample_every=0):
        import sys
        import time

        cands = sorted(set(cands), key=repr)
        if run.smoke:
            cands = cands[:: max(1, len(cands) // 60)]
            run.exhaustive = False
        print(f"[{PID}] level {lvl}: {len(cands)} candidates t={time.time() - run.t0:.0f}s", file=sys.stderr)
        run.bounds[f"level{lvl}_candidates"] = len(cands)
        new = run_level(cands, U, envs, PID, run, run.seed, extra_check=chk, compare=False, sample_every=sample_every)
        sts, _ = dedup(new, seen, lvl, run)
        return sts

    l0 = level([("t", n) for n in U.t], 0)
    c = []
    idx = {1: [(0,), (1,), ("i",)], 2: [(0, 1), (1, 0), ("i", "i"), (0, "i"), ("i", "j")]}
    for s in l0:
        r = s.recipe
        if s.rank == 0:
            for fn in SCALAR_FNS:
                c.append((fn, r))
            c += [("neg", r), ("pow", r, ("num", 2)), ("pow", r, ("num", 0.5)), ("pow", r, ("num", -1)), ("pow", ("num", 2), r), ("pow", r, r),
                  ("div", ("num", 1), r), ("grad", r), ("dx", r, 0)]
        for comp in idx.get(s.rank, []):
            c.append(("getitem", r) + comp)
        if s.rank == 2:
            for op in ("tr", "det", "inv", "transpose", "sym", "dev", "cofac", "skew"):
                c.append((op, r))
        if s.rank >= 1:
            c += [("inner", r, r), ("dot", r, r), ("outer", r, r), ("pow", r, ("num", 2)), ("grad", r), ("neg", r)]
            if s.rank == 1:
                c.append(("divg", r))
    for a in l0:
        for b in l0:
            for op in ("add", "sub", "mul", "div", "pow", "dot", "inner", "outer", "max_value"):
                c.append((op, a.recipe, b.recipe))
    c.append(("conditional", ("lt", ("t", "Vs"), ("t", "g")), ("mul", ("t", "Vs"), ("t", "Vs")), ("t", "Vp")))
    c.append(("as_vector", ("t", "Vs"), ("t", "Vn")))
    l1 = level(c, 1, sample_every=40)
    c = []
    fns2 = SCALAR_FNS if not quick else ["sqrt", "exp", "ln", "sin", "abs"]
    partners = ["Vs", "Vv", "VT", "Vn", "Vg", "Vd", "Vw", "f"] if quick else ["Vs", "Vp", "Vv", "VT", "VA", "Vn", "Vg", "Vd", "Vw", "f", "v", "g"]
    bops = ("mul", "add", "dot", "inner") if quick else ("mul", "add", "div", "dot", "inner")
    for s in l1:
        if s.cond or s.fid:
            continue
        r = s.recipe
        if s.rank == 0:
            for fn in fns2:
                c.append((fn, r))
            c += [("pow", r, ("num", 2)), ("div", ("num", 1), r)]
        elif s.rank == 2 and s.shape[0] == s.shape[1]:
            c += [("tr", r), ("det", r), ("inv", r), ("inner", r, r)]
        else:
            c += [("inner", r, r)]
        for b in partners:
            for op in bops:
                c.append((op, r, ("t", b)))
                c.append((op, ("t", b), r))
    l2 = level(c, 2, sample_every=1500)
    run.bounds.update(
        levels=[len(l0), len(l1), len(l2)],
        terminals=sorted(U.t),
        variables={
            "Vs": "variable(f)",
            "Vp": "variable(f*g + c)",
            "Vv": "variable(v)",
            "VT": "variable(grad(v) + I)",
            "VA": "variable(A)",
            "Vn": "variable(Vs*g + Vs**2) (nested)",
            "f, v": "coefficients used as variables",
        },
        configurations="diff w.r.t. each of 8 variables; repeated diff (same variable x5, mixed pairs x5)",
    )
    run.rule = "every f of the grammar x every diff configuration; state = distinct repr of f; non-trivial = model value of f not identically zero"
    run.extra["pairs_mentioning_variable"] = run.counters.get("nontrivial_pairs", 0)
    run.assumptions += [
        "partial derivative defined by binding the variable's label to value + tau*E_alpha; for a Coefficient as variable its value is shifted, its spatial derivatives are not",
    ]
    run.finish()


def replay(run, U, envs, chk):
    with open(run.args.replay) as f:
        rp = json.load(f)

    def tup(x):
        return tuple(tup(y) for y in x) if isinstance(x, list) else x

    if "variable" in rp["witness"] and "recipe" not in rp["witness"]:
        check_variable_construction(run, U)
        return run.finish()
    recipe = tup(rp["witness"]["recipe"])
    part = Part()
    check_recipe(recipe, U, envs, part, PID, extra_check=chk, compare=False)
    run.merge(part.dict())
    run.states = 1
    run.finish()
