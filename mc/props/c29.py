"""C29 Commutative constructors are order independent.

Bounded exhaustive check.  A finite universe U of expressions (recipes over a terminal alphabet chosen to
stress `ufl.sorting.cmp_expr` and its terminal comparators) is built on the real constructors, in three
"worlds" that differ only in the numbers carried by Index and Label objects.  Then

* cmp laws, on the complete matrix M[a,b] = sign(cmp_expr(a,b)) over ALL ordered pairs of U (every entry is
  a real call): totality (no exception), reflexivity (also on a structurally equal rebuilt copy),
  antisymmetry, and - over ALL n^3 ordered triples, decided on the matrix by boolean matrix products -
  transitivity of <, transitivity of the 0-class and consistency (0-class is a congruence for <);
* tie law: cmp(a,b)==0 only for pairs that cannot be told apart without looking at index/label numbers;
* constructor laws on ALL unordered pairs: a+b == b+a, a*b == b*a (scalar, incl. implicit summation),
  scalar*tensor up to fresh index renaming, inner(a,b) == Conj(inner(b,a)) (what Inner.__new__ promises);
* numbering laws: the relative order (cmp sign, and which operand a Sum/Product puts first) is the same in
  the renumbered worlds;
* documented order of bare Coefficients (count) and Arguments ((number, part));
* on a reduced universe R: sorted_expr on every permutation of every triple, Sum/Product of triples under
  the commutations of each binary node.

"Distinguishable without comparing index or label numbers" is decided by the harness's own normal form
nfE (all Index / Label numbers erased).  Pairs with equal nfE are excused; they are split into "pure
renaming" (alpha normal forms nfA equal, numbers renamed by first occurrence) and "index pattern only"
(e.g. A[i,j]*B[i,j] vs A[i,j]*B[j,i]: telling them apart needs comparing index numbers for identity).
Set C29_ALPHA_STRICT=1 to treat the second class as distinguishable as well.
"""

import hashlib
import itertools
import json
import os

import numpy as np

import ufl
from mc import elements as E
from mc.runner import Part, Run, pmap
from ufl.algebra import Conj, Product, Sum
from ufl.classes import (
    Argument,
    BaseFormOperator,
    Coefficient,
    ComplexValue,
    Constant,
    ExternalOperator,
    FloatValue,
    IndexSum,
    IntValue,
    Label,
    MultiIndex,
    PermutationSymbol,
    ScalarValue,
    Variable,
    Zero,
)
from ufl.constantvalue import as_ufl
from ufl.core.expr import Expr
from ufl.core.multiindex import FixedIndex, Index
from ufl.sorting import cmp_expr, sorted_expr

PID = "C29"
ALPHA_STRICT = os.environ.get("C29_ALPHA_STRICT", "0") == "1"
KEEP = 3  # witnesses kept per (law, tag) family; totals are counted exactly

FATAL = (KeyboardInterrupt, SystemExit, MemoryError)


# =====================================================================================================
# worlds and terminals
# =====================================================================================================


class World:
    """Named Index / Label objects with given numbers + the terminal alphabet."""

    def __init__(self, name, idx_counts, lab_counts, base):
        self.name = name
        self.idx = {}
        for n in ("i", "j", "k"):
            c = idx_counts[n]
            self.idx[n] = Index() if c is None else Index(count=c)
        self.lab = {}
        for n in ("L3", "L4"):
            c = lab_counts[n]
            self.lab[n] = Label() if c is None else Label(c)
        self.t = dict(base)
        i, j = self.idx["i"], self.idx["j"]
        # zeros that carry free indices (their repr holds raw index numbers)
        self.t["Zi2"] = Zero((), (i.count(),), (2,))
        self.t["Zj2"] = Zero((), (j.count(),), (2,))
        self.t["Zj3"] = Zero((), (j.count(),), (3,))
        self.names = {}
        self.names_by_repr = {}
        for k, v in self.t.items():
            self.names[id(v)] = k
            self.names_by_repr.setdefault(repr(v), k)
        self.named_idx = {ix.count(): n for n, ix in self.idx.items()}
        self.named_lab = {lb.count(): n for n, lb in self.lab.items()}


def base_terminals():
    """World independent terminals; every counted object gets an explicit number."""
    mA = ufl.Mesh(E.P("triangle", 1, (2,)), ufl_id=9)
    mB = ufl.Mesh(E.P("triangle", 1, (2,)), ufl_id=10)
    mT = ufl.Mesh(E.P("tetrahedron", 1, (3,)), ufl_id=9)
    S1A = ufl.FunctionSpace(mA, E.P("triangle", 1))
    S2A = ufl.FunctionSpace(mA, E.P("triangle", 2))
    S1B = ufl.FunctionSpace(mB, E.P("triangle", 1))
    VA = ufl.FunctionSpace(mA, E.P("triangle", 1, (2,)))
    TA = ufl.FunctionSpace(mA, E.P("triangle", 1, (2, 2)))
    V3 = ufl.FunctionSpace(mT, E.P("tetrahedron", 1, (3,)))
    t = {}
    # coefficients: same count on different element / mesh / shape; counts around 9/10/11 and 99/100
    t["f5"] = Coefficient(S1A, count=5)
    t["g5"] = Coefficient(S2A, count=5)
    t["h5"] = Coefficient(S1B, count=5)
    t["v5"] = Coefficient(VA, count=5)
    for c in (9, 10, 11, 99, 100):
        t[f"f{c}"] = Coefficient(S1A, count=c)
    t["g10"] = Coefficient(S2A, count=10)
    t["v6"] = Coefficient(VA, count=6)
    t["w7"] = Coefficient(VA, count=7)
    t["A3"] = Coefficient(TA, count=3)
    t["B4"] = Coefficient(TA, count=4)
    t["q8"] = Coefficient(V3, count=8)
    # constants (ordered by repr string in cmp_expr)
    for c in (9, 10, 11, 99, 100):
        t[f"c{c}"] = Constant(mA, count=c)
    t["cB9"] = Constant(mB, count=9)
    t["cv9"] = Constant(mA, (2,), count=9)
    t["cv10"] = Constant(mA, (2,), count=10)
    t["cT4"] = Constant(mA, (2, 2), count=4)
    # arguments
    t["a0"] = Argument(S1A, 0)
    t["a1"] = Argument(S1A, 1)
    t["b0"] = Argument(S2A, 0)
    t["a0p0"] = Argument(S1A, 0, part=0)
    t["a0p1"] = Argument(S1A, 0, part=1)
    t["a1p0"] = Argument(S1A, 1, part=0)
    t["va0"] = Argument(VA, 0)
    t["va1"] = Argument(VA, 1)
    # literals
    t["two"] = IntValue(2)
    t["three"] = IntValue(3)
    t["ftwo"] = FloatValue(2.0)
    t["half"] = FloatValue(0.5)
    t["p3"] = FloatValue(0.3)
    t["p3ulp"] = FloatValue(0.1 + 0.2)  # one ulp above 0.3: distinguishable only beyond the 16th significant digit
    t["cplx"] = ComplexValue(1 + 2j)
    t["cj"] = ComplexValue(2j)
    t["zero"] = Zero()
    t["zerov"] = Zero((2,))
    t["I2"] = ufl.Identity(2)
    t["I3"] = ufl.Identity(3)
    t["eps2"] = PermutationSymbol(2)
    # geometry on two meshes (ordered by repr string, mesh ids 9 / 10)
    for nm, m in (("A", mA), ("B", mB)):
        t["x" + nm] = ufl.SpatialCoordinate(m)
        t["vol" + nm] = ufl.CellVolume(m)
        t["n" + nm] = ufl.FacetNormal(m)
        t["J" + nm] = ufl.Jacobian(m)
    t["hA"] = ufl.Circumradius(mA)
    t["detJA"] = ufl.JacobianDeterminant(mA)
    t["xT"] = ufl.SpatialCoordinate(mT)
    # base form operators: data (function space, derivatives) is not an operand
    t["eo1"] = ExternalOperator(t["f9"], function_space=S1A)
    t["eo2"] = ExternalOperator(t["f9"], function_space=S2A)
    t["eo3"] = ExternalOperator(t["f9"], function_space=S1A, derivatives=(1,))
    return t


def make_worlds():
    base = base_terminals()
    # W0: natural counters.  W1: counters shifted by dummies, named objects created in reverse order.
    # W2: explicit large numbers in another relative order (never reached by the global counter).
    w0 = World("W0", {"i": None, "j": None, "k": None}, {"L3": None, "L4": None}, base)
    for _ in range(7):
        Index()
    for _ in range(8):
        Label()
    k1, j1, i1 = Index(), Index(), Index()
    l4, l3 = Label(), Label()
    w1 = World(
        "W1",
        {"i": i1.count(), "j": j1.count(), "k": k1.count()},
        {"L3": l3.count(), "L4": l4.count()},
        base,
    )
    w2 = World(
        "W2", {"i": 10**6, "j": 10**6 - 1, "k": 10**5 - 1}, {"L3": 10**6, "L4": 10**6 - 1}, base
    )
    return [w0, w1, w2]


# =====================================================================================================
# recipes
# =====================================================================================================

UN = {
    "neg": lambda x: -x,
    "abs": lambda x: abs(x),
    "conj": ufl.conj,
    "real": ufl.real,
    "imag": ufl.imag,
    "sin": ufl.sin,
    "cos": ufl.cos,
    "sqrt": ufl.sqrt,
    "exp": ufl.exp,
    "ln": ufl.ln,
    "pos": lambda x: x("+"),
    "minus": lambda x: x("-"),
    "grad": ufl.grad,
    "div": ufl.div,
    "tr": ufl.tr,
    "T": ufl.transpose,
    "dx0": lambda x: x.dx(0),
    "dx1": lambda x: x.dx(1),
    "bj1": lambda x: ufl.bessel_J(1, x),
    "bj2": lambda x: ufl.bessel_J(2, x),
    "cavg": ufl.cell_avg,
}
BIN = {
    "add": lambda a, b: a + b,
    "sub": lambda a, b: a - b,
    "mul": lambda a, b: a * b,
    "div": lambda a, b: a / b,
    "pow": lambda a, b: a**b,
    "inner": ufl.inner,
    "dot": ufl.dot,
    "outer": ufl.outer,
    "max": ufl.max_value,
    "atan2": ufl.atan2,
}
COND = {"lt": ufl.lt, "gt": ufl.gt, "le": ufl.le, "eq": ufl.eq, "ne": ufl.ne}


def build(r, W):
    k = r[0]
    if k == "t":
        return W.t[r[1]]
    if k == "ix":
        x = build(r[1], W)
        return x[tuple(W.idx[s] if isinstance(s, str) else s for s in r[2])]
    if k == "u":
        return UN[r[1]](build(r[2], W))
    if k == "b":
        return BIN[r[1]](build(r[2], W), build(r[3], W))
    if k == "lt":
        return ufl.as_tensor([build(x, W) for x in r[1:]])
    if k == "ct":
        return ufl.as_tensor(build(r[1], W), tuple(W.idx[s] for s in r[2]))
    if k == "cnd":
        return COND[r[1]](build(r[2], W), build(r[3], W))
    if k == "cond":
        return ufl.conditional(COND[r[1]](build(r[2], W), build(r[3], W)), build(r[4], W), build(r[5], W))
    if k == "var":
        return Variable(build(r[1], W), W.lab[r[2]])
    raise KeyError(k)


def try_build(r, W):
    try:
        x = build(r, W)
    except FATAL:
        raise
    except BaseException:  # noqa: BLE001  (constructor rejected the recipe: not a member of U)
        return None
    if isinstance(x, (int, float, complex)):
        x = as_ufl(x)
    return x if isinstance(x, Expr) else None


def show(r):
    k = r[0]
    if k == "t":
        return r[1]
    if k == "ix":
        return f"{show(r[1])}[{','.join(str(s) for s in r[2])}]"
    if k == "u":
        return f"{r[1]}({show(r[2])})"
    if k == "b":
        return f"{r[1]}({show(r[2])},{show(r[3])})"
    if k == "lt":
        return "[" + ",".join(show(x) for x in r[1:]) + "]"
    if k == "ct":
        return f"as_tensor({show(r[1])},({','.join(r[2])}))"
    if k == "cnd":
        return f"{r[1]}({show(r[2])},{show(r[3])})"
    if k == "cond":
        return f"cond({r[1]}({show(r[2])},{show(r[3])}),{show(r[4])},{show(r[5])})"
    if k == "var":
        return f"var({show(r[1])},{r[2]})"
    return repr(r)


def tup(x):
    return tuple(tup(y) for y in x) if isinstance(x, list) else x


# =====================================================================================================
# the harness's own normal forms
# =====================================================================================================


def nf(e, W, mode):
    """Normal form string of expression e built in world W.

    mode 'erase': every Index / Label number erased.
    mode 'alpha': Index / Label numbers renamed by first occurrence.
    mode 'dedup': named indices / labels keep their names, all others renamed by first occurrence.
    """
    ren_i, ren_l = {}, {}

    def index(c):
        if mode == "erase":
            return "*"
        if mode == "dedup" and c in W.named_idx:
            return W.named_idx[c]
        return "i%d" % ren_i.setdefault(c, len(ren_i))

    def label(c):
        if mode == "erase":
            return "L*"
        if mode == "dedup" and c in W.named_lab:
            return W.named_lab[c]
        return "L%d" % ren_l.setdefault(c, len(ren_l))

    def rec(x):
        if x._ufl_is_terminal_:
            if isinstance(x, MultiIndex):
                return (
                    "MI("
                    + ",".join(str(ix._value) if isinstance(ix, FixedIndex) else index(ix.count()) for ix in x._indices)
                    + ")"
                )
            if isinstance(x, Label):
                return label(x.count())
            if isinstance(x, Zero) and x.ufl_free_indices:
                if mode == "erase":
                    return f"Zero({x.ufl_shape};{sorted(x.ufl_index_dimensions)})"
                return (
                    f"Zero({x.ufl_shape};"
                    + ",".join(f"{index(c)}:{d}" for c, d in zip(x.ufl_free_indices, x.ufl_index_dimensions))
                    + ")"
                )
            nm = W.names.get(id(x))
            if nm is None:
                rp = repr(x)
                nm = W.names_by_repr.get(rp, rp)
            return nm
        name = type(x).__name__
        if isinstance(x, BaseFormOperator):
            name += f"<{x.derivatives};{W.names_by_repr.get(repr(x.ufl_function_space()), repr(x.ufl_function_space()))}>"
        return name + "(" + ",".join(rec(o) for o in x.ufl_operands) + ")"

    return rec(e)


def short(s, n=90):
    if len(s) <= n:
        return s
    return s[: n - 10] + "~" + hashlib.sha1(s.encode()).hexdigest()[:8]


def diff_tag(a, b):
    """Class tag: the first place (pre-order, natural operand order) where a and b differ
    in what can be seen without index / label numbers."""
    stack = [(a, b)]
    while stack:
        x, y = stack.pop()
        if x is y:
            continue
        tx, ty = type(x).__name__, type(y).__name__
        if type(x) is not type(y):
            return "-vs-".join(sorted((tx, ty)))
        if x._ufl_is_terminal_:
            if isinstance(x, MultiIndex):
                if len(x._indices) != len(y._indices):
                    return "MultiIndex(length)"
                for p, q in zip(x._indices, y._indices):
                    fp, fq = isinstance(p, FixedIndex), isinstance(q, FixedIndex)
                    if fp != fq:
                        return "MultiIndex(fixed-vs-free)"
                    if fp and p._value != q._value:
                        return "MultiIndex(fixed-values)"
                continue
            if isinstance(x, Label):
                continue
            if isinstance(x, Zero):
                if x.ufl_shape != y.ufl_shape or sorted(x.ufl_index_dimensions) != sorted(y.ufl_index_dimensions):
                    return "Zero(shape/dims)"
                continue
            if isinstance(x, Coefficient):
                if x.count() != y.count():
                    return "Coefficient(count)"
                if x != y:
                    return "Coefficient(same-count)"
                continue
            if isinstance(x, Argument):
                if (x.number(), x.part()) != (y.number(), y.part()):
                    if x.number() == y.number() and (x.part() is None) != (y.part() is None):
                        return "Argument(part-None-vs-int)"
                    return "Argument(number/part)"
                if x != y:
                    return "Argument(same-number-part)"
                continue
            if isinstance(x, Constant):
                if repr(x) != repr(y):
                    return "Constant(count)" if x.count() != y.count() else "Constant(same-count)"
                continue
            if repr(x) != repr(y):
                return tx
            continue
        if isinstance(x, BaseFormOperator):
            if x.derivatives != y.derivatives or x.ufl_function_space() != y.ufl_function_space():
                return tx + "(data)"
        xo, yo = x.ufl_operands, y.ufl_operands
        if len(xo) != len(yo):
            return tx + "(arity)"
        for p, q in reversed(list(zip(xo, yo))):
            stack.append((p, q))
    return "index-pattern-only"


def hidden_diffs(a, b, out=None):
    """Root-cause tags: differences between a and b that cmp_expr cannot see (or sees through numbers)."""
    out = set() if out is None else out
    stack = [(a, b)]
    while stack:
        x, y = stack.pop()
        if x is y or type(x) is not type(y):
            continue
        if x._ufl_is_terminal_:
            if isinstance(x, MultiIndex):
                if len(x._indices) != len(y._indices):
                    out.add("MultiIndex(length)")
            elif isinstance(x, Coefficient):
                if x.count() == y.count() and x != y:
                    out.add("Coefficient(same-count)")
            elif isinstance(x, Argument):
                if x.number() == y.number() and (x.part() is None) != (y.part() is None):
                    out.add("Argument(part-None-vs-int)")
                elif (x.number(), x.part()) == (y.number(), y.part()) and x != y:
                    out.add("Argument(same-number-part)")
            elif isinstance(x, Zero):
                if x.ufl_free_indices and y.ufl_free_indices and repr(x) != repr(y):
                    out.add("Zero(free-index-numbers-in-repr)")
            continue
        if isinstance(x, BaseFormOperator):
            if x.derivatives != y.derivatives or x.ufl_function_space() != y.ufl_function_space():
                out.add(type(x).__name__ + "(data)")
        stack.extend(zip(x.ufl_operands, y.ufl_operands))
    return out


def cause_tag(*pairs):
    """Family tag of a violation: the hidden differences of the pairs involved, else the first visible difference."""
    out = set()
    for x, y in pairs:
        hidden_diffs(x, y, out)
    if out:
        return "+".join(sorted(out))
    return diff_tag(*pairs[0])


# =====================================================================================================
# universe
# =====================================================================================================

IDX_R1 = [(0,), (1,), ("i",), ("j",)]
IDX_R2 = [(0, 1), (1, 0), ("i", 0), (0, "i"), ("i", "j"), ("j", "i"), ("i", "i"), ("i", "k"), (1, "j")]
IDX_R1_LITE = [(0,), ("i",)]
IDX_R2_LITE = [(0, 1), ("i", "j"), ("j", "i")]

EXTRAS = [
    # list tensors of different length / order / with zeros carrying free indices
    ("lt", ("t", "f9"), ("t", "f10")),
    ("lt", ("t", "f10"), ("t", "f9")),
    ("lt", ("t", "f9"), ("t", "f10"), ("t", "f11")),
    ("lt", ("t", "f9"), ("t", "c9")),
    ("lt", ("lt", ("t", "f9"), ("t", "f10")), ("lt", ("t", "f10"), ("t", "f9"))),
    ("lt", ("ix", ("t", "v6"), ("i",)), ("ix", ("t", "w7"), ("i",))),
    ("lt", ("t", "Zi2"), ("ix", ("t", "v6"), ("i",))),
    ("lt", ("t", "Zj2"), ("ix", ("t", "v6"), ("j",))),
    ("lt", ("t", "Zj3"), ("ix", ("t", "q8"), ("j",))),
    ("lt", ("t", "Zj2"), ("ix", ("t", "w7"), ("j",))),
    # component tensors differing only in the index pattern, index sums
    ("ct", ("b", "mul", ("t", "two"), ("ix", ("t", "A3"), ("i", "j"))), ("i", "j")),
    ("ct", ("b", "mul", ("t", "two"), ("ix", ("t", "A3"), ("i", "j"))), ("j", "i")),
    ("ct", ("b", "mul", ("ix", ("t", "v6"), ("i",)), ("ix", ("t", "w7"), ("j",))), ("i", "j")),
    ("ct", ("b", "mul", ("ix", ("t", "v6"), ("i",)), ("ix", ("t", "w7"), ("j",))), ("j", "i")),
    ("ct", ("b", "mul", ("ix", ("t", "v6"), ("i",)), ("t", "f9")), ("i",)),
    ("b", "mul", ("ix", ("t", "v6"), ("i",)), ("ix", ("t", "w7"), ("i",))),
    ("b", "mul", ("ix", ("t", "A3"), ("i", "j")), ("ix", ("t", "B4"), ("i", "j"))),
    ("b", "mul", ("ix", ("t", "A3"), ("i", "j")), ("ix", ("t", "B4"), ("j", "i"))),
    ("b", "mul", ("ix", ("t", "A3"), ("i", "j")), ("ix", ("t", "v6"), ("j",))),
    ("b", "mul", ("ix", ("t", "A3"), ("i", "j")), ("ix", ("t", "v6"), ("i",))),
    # indexed terminals on same-count coefficients of different rank (MultiIndex of different length)
    ("ix", ("t", "v5"), (0,)),
    ("ix", ("t", "v5"), ("i",)),
    # conditionals and bare conditions
    ("cond", "lt", ("t", "f9"), ("t", "f10"), ("t", "f9"), ("t", "f10")),
    ("cond", "lt", ("t", "f9"), ("t", "f10"), ("t", "f10"), ("t", "f9")),
    ("cond", "gt", ("t", "f9"), ("t", "f10"), ("t", "f9"), ("t", "f10")),
    ("cond", "lt", ("t", "f10"), ("t", "f9"), ("t", "f9"), ("t", "f10")),
    ("cond", "lt", ("t", "f9"), ("t", "f10"), ("t", "v6"), ("t", "w7")),
    ("cond", "eq", ("t", "f9"), ("t", "two"), ("t", "Zi2"), ("ix", ("t", "v6"), ("i",))),
    ("cond", "eq", ("t", "f9"), ("t", "two"), ("t", "Zj2"), ("ix", ("t", "v6"), ("j",))),
    ("cnd", "lt", ("t", "f9"), ("t", "f10")),
    ("cnd", "gt", ("t", "f9"), ("t", "f10")),
    # variables: same expression with different labels, different expressions with the same label
    ("var", ("t", "f9"), "L3"),
    ("var", ("t", "f9"), "L4"),
    ("var", ("t", "f10"), "L3"),
    ("var", ("t", "v6"), "L3"),
    ("var", ("t", "v6"), "L4"),
    ("var", ("b", "mul", ("t", "f9"), ("t", "f10")), "L4"),
    # misc operator types
    ("u", "bj1", ("t", "f9")),
    ("u", "bj2", ("t", "f9")),
    ("u", "dx0", ("t", "f9")),
    ("u", "dx1", ("t", "f9")),
    ("u", "div", ("t", "v6")),
    ("u", "tr", ("t", "A3")),
    ("u", "T", ("t", "A3")),
    ("u", "cavg", ("t", "f9")),
    ("b", "max", ("t", "f9"), ("t", "f10")),
    ("b", "atan2", ("t", "f9"), ("t", "f10")),
    ("b", "atan2", ("t", "f10"), ("t", "f9")),
    ("b", "pow", ("t", "f9"), ("t", "two")),
    ("b", "pow", ("t", "f9"), ("t", "f10")),
    ("b", "sub", ("t", "f9"), ("t", "f10")),
    ("b", "sub", ("t", "f10"), ("t", "f9")),
]

PARAMS = {
    "quick": dict(
        core0=["f5", "g5", "f9", "f10", "c9", "c10", "a0", "two", "v6", "w7", "A3"],
        un1_targets=["f5", "g5", "f9", "f10", "c9", "c10", "a0", "b0", "v6", "A3", "xA", "xB", "nA", "eo1", "eo3"],
        un1_ops=["neg", "abs", "conj", "sin", "pos", "grad"],
        bin1_ops=["add", "mul", "div", "inner", "outer"],
        l2_sources="nonbin",
        core1=["f9", "v6"],
        un2_ops=["neg"],
        bin2_ops=["add", "mul"],
        level3=False,
        r_size=150,
    ),
    "thorough": dict(
        core0=["f5", "g5", "h5", "f9", "f10", "f100", "c9", "c10", "cB9", "a0", "b0", "two", "half", "v6", "w7",
               "va0", "A3", "B4", "xA"],
        un1_targets=None,  # all terminals
        un1_ops=["neg", "abs", "conj", "real", "sin", "cos", "sqrt", "pos", "minus", "grad"],
        bin1_ops=["add", "mul", "div", "inner", "dot", "outer", "pow"],
        l2_sources="nonbin",
        core1=["f9", "v6"],
        un2_ops=["neg"],
        bin2_ops=["add", "mul"],
        level3=True,
        l3_sources="ix",
        core2=["g5"],
        un3_ops=[],
        bin3_ops=[],
        r_size=240,
    ),
}


def idx_variants(e, lite):
    r = len(e.ufl_shape)
    if r == 1:
        return IDX_R1_LITE if lite else IDX_R1
    if r == 2:
        return IDX_R2_LITE if lite else IDX_R2
    return []


class Universe:
    def __init__(self, tier, worlds):
        self.tier = tier
        self.worlds = worlds
        self.recipes = []
        self.level = []
        self.objs = {w.name: [] for w in worlds}
        self._seen = set()
        self.rejected = 0
        self.duplicates = 0

    def add(self, r, level):
        W0 = self.worlds[0]
        x = try_build(r, W0)
        if x is None:
            self.rejected += 1
            return None
        key = nf(x, W0, "dedup")
        if key in self._seen:
            self.duplicates += 1
            return None
        self._seen.add(key)
        self.recipes.append(r)
        self.level.append(level)
        self.objs["W0"].append(x)
        return x

    def generate(self):
        P = PARAMS[self.tier]
        W0 = self.worlds[0]
        names = list(W0.t)
        lvl = {0: [], 1: [], 2: [], 3: []}

        def add(r, k):
            x = self.add(r, k)
            if x is not None:
                lvl[k].append((r, x))

        for n in names:
            add(("t", n), 0)
        l0 = list(lvl[0])
        # level 1
        for r, x in l0:
            for spec in idx_variants(x, lite=False):
                add(("ix", r, spec), 1)
        tg = P["un1_targets"]
        for r, x in l0:
            if tg is None or r[1] in tg:
                for op in P["un1_ops"]:
                    add(("u", op, r), 1)
        for a in P["core0"]:
            for b in P["core0"]:
                for op in P["bin1_ops"]:
                    add(("b", op, ("t", a), ("t", b)), 1)
        for r in EXTRAS:
            add(r, 1)
        l1 = list(lvl[1])
        # level 2 (comb): unary / light indexing over level 1, binary level 1 x core1 (both orders)
        for r, x in l1:
            for spec in idx_variants(x, lite=True):
                add(("ix", r, spec), 2)
            if P["l2_sources"] == "nonbin" and r[0] == "b" and r not in EXTRAS:
                continue
            for op in P["un2_ops"]:
                add(("u", op, r), 2)
            for c in P["core1"]:
                for op in P["bin2_ops"]:
                    add(("b", op, r, ("t", c)), 2)
                    add(("b", op, ("t", c), r), 2)
        if P["level3"]:
            l2 = list(lvl[2])
            for r, x in l2:
                for spec in idx_variants(x, lite=True)[1:2]:
                    add(("ix", r, spec), 3)
                if P["l3_sources"] == "ix" and r[0] != "ix":
                    continue
                for op in P["un3_ops"]:
                    add(("u", op, r), 3)
                for c in P["core2"]:
                    for op in P["bin3_ops"]:
                        add(("b", op, r, ("t", c)), 3)
        # the other worlds and the rebuilt copy
        for W in self.worlds[1:]:
            out = []
            for r in self.recipes:
                x = try_build(r, W)
                if x is None:
                    raise RuntimeError(f"harness: recipe {show(r)} builds in W0 but not in {W.name}")
                out.append(x)
            self.objs[W.name] = out
        cp = []
        for r in self.recipes:
            x = try_build(r, W0)
            if x is None:
                raise RuntimeError(f"harness: recipe {show(r)} does not rebuild")
            cp.append(x)
        self.copy = cp
        self.n = len(self.recipes)
        self.levels = [len(lvl[k]) for k in range(4)]
        # reduced universe for the triple laws: all terminals, all extras, every s-th of the rest
        rest = [k for k in range(self.n) if self.level[k] > 0 and self.recipes[k] not in EXTRAS]
        head = [k for k in range(self.n) if self.level[k] == 0 or self.recipes[k] in EXTRAS]
        want = max(0, P["r_size"] - len(head))
        stride = max(1, len(rest) // max(1, want))
        self.R = sorted(head + rest[::stride][:want])
        # sorted_expr law: additionally every indexing variant of every terminal
        ixt = [k for k in range(self.n) if self.recipes[k][0] == "ix" and self.recipes[k][1][0] == "t"]
        self.Rsort = sorted(set(self.R) | set(ixt))


# =====================================================================================================
# global state shared with forked workers
# =====================================================================================================

G = {}


def setup(tier):
    worlds = make_worlds()
    U = Universe(tier, worlds)
    U.generate()
    G["U"] = U
    G["worlds"] = worlds
    W0 = worlds[0]
    G["nfE"] = {w.name: [nf(x, w, "erase") for x in U.objs[w.name]] for w in worlds}
    G["nfA"] = [nf(x, W0, "alpha") for x in U.objs["W0"]]
    ids = {}
    key = G["nfA"] if ALPHA_STRICT else G["nfE"]["W0"]
    G["cls"] = np.array([ids.setdefault(s, len(ids)) for s in key], dtype=np.int64)
    # UFL's == (expr_equals) overwrites the operands of its left argument when it answers True, and it is blind to
    # BaseFormOperator data: keep the operand tuples of those universe members to restore them
    G["saved_operands"] = [
        x.ufl_operands if (not x._ufl_is_terminal_ and "ExternalOperator" in s and not isinstance(x, BaseFormOperator)) else None
        for x, s in zip(U.objs["W0"], G["nfA"])
    ]
    return U


def kname(k):
    return short(G["nfA"][k])


def wit(law, ks, world="W0", **extra):
    U = G["U"]
    d = {
        "law": law,
        "world": world,
        "recipes": [U.recipes[k] for k in ks],
        "shown": [show(U.recipes[k]) for k in ks],
        "nfA": [G["nfA"][k] for k in ks],
    }
    d.update(extra)
    return d


class Cands:
    """Violation candidates: exact totals per (law, tag); the KEEP smallest (by universe indices) kept."""

    def __init__(self):
        self.tot = {}
        self.keep = {}

    def add(self, law, tag, ks, what, world="W0", **extra):
        fam = f"{law}:{tag}"
        self.tot[fam] = self.tot.get(fam, 0) + 1
        lst = self.keep.setdefault(fam, [])
        lst.append((list(ks), what, world, extra))
        lst.sort(key=lambda t: (t[0], t[2]))
        del lst[KEEP:]

    def dump(self):
        return {"tot": self.tot, "keep": self.keep}

    def merge(self, d):
        for fam, n in d["tot"].items():
            self.tot[fam] = self.tot.get(fam, 0) + n
        for fam, lst in d["keep"].items():
            cur = self.keep.setdefault(fam, [])
            cur.extend((list(t[0]), t[1], t[2], t[3]) for t in lst)
            cur.sort(key=lambda t: (t[0], t[2]))
            del cur[KEEP:]

    def report(self, run):
        U = G["U"]
        run.extra["witnesses"] = [
            {"family": fam, "total": self.tot[fam], "world": world, "operands": [show(U.recipes[k]) for k in ks], "what": what}
            for fam in sorted(self.tot)
            for ks, what, world, extra in self.keep.get(fam, [])
        ]
        for nfam, fam in enumerate(sorted(self.tot)):
            run.count("violations:" + fam, self.tot[fam])
            law = fam.split(":", 1)[0]
            # all families are counted; witnesses: KEEP for the first 30 families, 1 for the next 70, then none
            nkeep = KEEP if nfam < 30 else (1 if nfam < 100 else 0)
            for ks, what, world, extra in self.keep.get(fam, [])[:nkeep]:
                key = f"{fam}:" + "|".join(kname(k) for k in ks) + ("" if world == "W0" else "@" + world)
                run.violation(key, f"[{self.tot[fam]} cases in family {fam}] {what}", wit(law, ks, world, **extra))


def sgn(c):
    return -1 if c < 0 else (1 if c > 0 else 0)


def safe_cmp(a, b):
    """(sign, None) or (None, exception name)."""
    try:
        return sgn(cmp_expr(a, b)), None
    except FATAL:
        raise
    except BaseException as e:  # noqa: BLE001
        return None, type(e).__name__


# =====================================================================================================
# phase 1: complete cmp matrices (workers), phase 2: matrix laws (parent)
# =====================================================================================================

RAISED = 9


def w_rows(items):
    part = Part()
    U = G["U"]
    rows = {}
    for wname, ia in items:
        objs = U.objs[wname]
        a = objs[ia]
        row = np.zeros(U.n, dtype=np.int8)
        for ib in range(U.n):
            s, ex = safe_cmp(a, objs[ib])
            if ex is not None:
                row[ib] = RAISED
                part.error("cmp_expr:" + ex)
            else:
                row[ib] = s
        part.inc("transitions", U.n)
        rows[f"{wname}:{ia}"] = row.tobytes()
        if wname == "W0":
            # reflexivity on a structurally equal rebuilt copy (distinct objects)
            a2 = U.copy[ia]
            s1, e1 = safe_cmp(a, a2)
            s2, e2 = safe_cmp(a2, a)
            part.inc("transitions", 2)
            eq = bool(a == a2)
            part.count("copy_pairs_equal" if eq else "copy_pairs_equal_up_to_fresh_indices")
            if (s1, s2) != (0, 0):
                if eq:
                    part.d.setdefault("copybad", []).append(ia)
                else:
                    part.count("copy_renamed_cmp_nonzero(numbers used; excused)")
    part.d["rows"] = rows
    return part.dict()


def matrix_laws(run, cands, Ms):
    U = G["U"]
    n = U.n
    cls = G["cls"]
    objs0 = U.objs["W0"]
    dist = cls[:, None] != cls[None, :]
    iu = np.triu(np.ones((n, n), dtype=bool), 1)
    for w in G["worlds"]:
        M = Ms[w.name]
        objs = U.objs[w.name]
        valid = M != RAISED
        # totality
        bad = np.argwhere(((~valid) | (~valid.T)) & iu) if not valid.all() else []
        for ia, ib in bad:
            tag = cause_tag((objs[ia], objs[ib]))
            cands.add("cmp-raises", tag, (int(ia), int(ib)), "cmp_expr raises, the ordering is not total", w.name)
        for ia in np.argwhere((~valid).diagonal()).ravel():
            cands.add("cmp-raises", "self", (int(ia),), "cmp_expr(a, a) raises", w.name)
        # reflexivity, antisymmetry over all ordered pairs
        for ia in np.argwhere(valid.diagonal() & (M.diagonal() != 0)).ravel():
            cands.add("refl", type(objs[ia]).__name__, (int(ia),), "cmp_expr(a, a) != 0", w.name)
        both = valid & valid.T
        anti = both & ((M + M.T) != 0) & iu
        for ia, ib in np.argwhere(anti):
            cands.add(
                "antisym",
                cause_tag((objs[ia], objs[ib])),
                (int(ia), int(ib)),
                f"sign(cmp(a,b))={M[ia, ib]} and sign(cmp(b,a))={M[ib, ia]}",
                w.name,
            )
        run.validated += n + (n * (n - 1)) // 2
        run.count(f"{w.name}:pairs_cmp0_offdiag_unordered", int(((M == 0) & iu).sum()))
        if w.name != "W0":
            run.count(f"{w.name}:ordered_pairs", n * n)
            continue
        # all n^3 ordered triples by boolean matrix products on the complete matrix
        L = (M == -1).astype(np.float32)
        Eq = (M == 0).astype(np.float32)
        Lb, Eb = L > 0, Eq > 0
        checks = [
            ("trans-lt", L, L, Lb, "a<b and b<c but not a<c"),
            ("trans-eq", Eq, Eq, Eb, "cmp(a,b)==0 and cmp(b,c)==0 but cmp(a,c)!=0"),
            ("cons-eq-lt", Eq, L, Lb, "cmp(a,b)==0 and b<c but not a<c"),
            ("cons-lt-eq", L, Eq, Lb, "a<b and cmp(b,c)==0 but not a<c"),
        ]
        for law, X, Y, Zb, what in checks:
            XY = X @ Y
            badm = (XY > 0.5) & ~Zb & valid
            ntrip = int(np.rint(XY[badm]).astype(np.int64).sum()) if badm.any() else 0
            run.count(f"{w.name}:bad_triples:{law}", ntrip)
            if ntrip:
                fam_seen = {}
                for ia, ic in np.argwhere(badm):
                    ib = int(np.argmax((X[ia, :] > 0) & (Y[:, ic] > 0)))
                    a, b, c = objs[ia], objs[ib], objs[ic]
                    tag = cause_tag((a, c), (a, b), (b, c))
                    if fam_seen.get(tag, 0) >= 50:  # diff_tag is only needed for classification
                        cands.tot[f"{law}:{tag}"] = cands.tot.get(f"{law}:{tag}", 0) + 1
                        continue
                    fam_seen[tag] = fam_seen.get(tag, 0) + 1
                    # confirm on the real function
                    if not confirm_triple(law, a, b, c):
                        raise RuntimeError("harness: matrix witness not confirmed by direct calls")
                    cands.add(law, tag, (int(ia), ib, int(ic)), what + "; " + sorted3_note(a, b, c), w.name)
        run.count(f"{w.name}:ordered_pairs", n * n)
        run.count(f"{w.name}:ordered_triples(4 laws each)", n**3)
        del L, Eq, Lb, Eb, XY
    # ---- tie law (W0): cmp == 0 only for pairs that cannot be told apart without numbers
    M0 = Ms["W0"]
    nfA, nfE = G["nfA"], G["nfE"]["W0"]
    ties = np.argwhere((M0 == 0) & iu)
    for ia, ib in ties:
        ia, ib = int(ia), int(ib)
        a, b = objs0[ia], objs0[ib]
        if nfA[ia] == nfA[ib]:
            run.count("cmp0:renaming_of_index_or_label_numbers(excused)")
            continue
        if nfE[ia] == nfE[ib] and not ALPHA_STRICT:
            run.count("cmp0:index_pattern_only(excused: needs comparing index numbers for identity)")
            if len(G.setdefault("pattern_samples", [])) < 4:
                G["pattern_samples"].append([show(U.recipes[ia]), show(U.recipes[ib])])
            continue
        try:
            # on rebuilt copies: a successful expr_equals overwrites the operands of its left argument
            if bool(try_build(U.recipes[ia], G["worlds"][0]) == try_build(U.recipes[ib], G["worlds"][0])):
                run.count("cmp0:distinguishable_but_ufl_==_is_blind_to_it")
        except FATAL:
            raise
        except BaseException:  # noqa: BLE001
            pass
        run.count("cmp0:distinguishable(VIOLATION)")
        cands.add(
            "tie",
            cause_tag((a, b)),
            (ia, ib),
            "cmp_expr(a,b)==0 for operands that are distinguishable without index/label numbers (a != b): "
            "the stable sort keeps the construction order",
        )
    run.validated += len(ties)
    # numbers used although operands are indistinguishable without them (excused, counted)
    same = (~dist) & iu & (M0 != 0) & (M0 != RAISED)
    run.count("nfE_equal_but_cmp_nonzero(numbers used; excused)", int(same.sum()))
    # ---- numbering law on cmp: same sign in the renumbered worlds for distinguishable pairs
    stable = np.ones(n, dtype=bool)
    for w in G["worlds"][1:]:
        stable &= np.array([x == y for x, y in zip(G["nfE"][w.name], nfE)])
    run.count("exprs_whose_erased_structure_depends_on_numbering", int((~stable).sum()))
    G["stable"] = stable
    okpair = stable[:, None] & stable[None, :] & dist & iu
    for w in G["worlds"][1:]:
        M = Ms[w.name]
        d = okpair & (M != M0)
        run.validated += int(okpair.sum())
        for ia, ib in np.argwhere(d):
            ia, ib = int(ia), int(ib)
            cands.add(
                "shift",
                cause_tag((objs0[ia], objs0[ib]), (U.objs[w.name][ia], U.objs[w.name][ib])),
                (ia, ib),
                f"sign(cmp(a,b)) is {M0[ia, ib]} in W0 but {M[ia, ib]} after renumbering indices/labels ({w.name})",
                w.name,
            )
    # ---- documented order of bare coefficients and arguments
    for ia in range(n):
        a = objs0[ia]
        if not isinstance(a, (Coefficient, Argument)):
            continue
        for ib in range(n):
            b = objs0[ib]
            if ia == ib or type(a) is not type(b):
                continue
            if isinstance(a, Coefficient):
                ka, kb = a.count(), b.count()
            else:
                ka, kb = (a.number(), a.part()), (b.number(), b.part())
            try:
                exp = -1 if ka < kb else (1 if ka > kb else None)
            except TypeError:
                continue
            if exp is None or M0[ia, ib] == RAISED:
                continue
            run.validated += 1
            if M0[ia, ib] != exp:
                cands.add(
                    "doc-order",
                    type(a).__name__,
                    (ia, ib),
                    f"documented order by {'count' if isinstance(a, Coefficient) else '(number, part)'} gives {exp}, "
                    f"cmp_expr gives {M0[ia, ib]}",
                )


def confirm_triple(law, a, b, c):
    ab, bc, ac = safe_cmp(a, b)[0], safe_cmp(b, c)[0], safe_cmp(a, c)[0]
    if law == "trans-lt":
        return ab == -1 and bc == -1 and ac != -1
    if law == "trans-eq":
        return ab == 0 and bc == 0 and ac != 0
    if law == "cons-eq-lt":
        return ab == 0 and bc == -1 and ac != -1
    if law == "cons-lt-eq":
        return ab == -1 and bc == 0 and ac != -1
    raise KeyError(law)


# =====================================================================================================
# phase 3: constructor laws on all unordered pairs
# =====================================================================================================


def attempt(f, *args):
    try:
        x = f(*args)
        if isinstance(x, (int, float, complex)):
            x = as_ufl(x)
        return x, None
    except FATAL:
        raise
    except BaseException as e:  # noqa: BLE001
        return None, type(e).__name__


def same_expr(x, y):
    """UFL's structural equality; a False answer is confirmed by the reprs (harness side)."""
    if x is y:
        return True
    if bool(x == y):
        return True
    return repr(x) == repr(y)


def first_of(x, a, b):
    """Which of a, b is the first operand of the Sum/Product (under IndexSum wrappers)? None if n/a."""
    while isinstance(x, IndexSum):
        x = x.ufl_operands[0]
    if not isinstance(x, (Sum, Product)):
        return None
    p, q = x.ufl_operands
    if p is a and q is b:
        return 0
    if p is b and q is a:
        return 1
    return None


def comm_law(law, opf, a, b, distinguishable, cmp_ab, part):
    """x = a op b, y = b op a.  Returns (status, x) with status in ok / excused / viol:<what> / raised."""
    x, ex = attempt(opf, a, b)
    y, ey = attempt(opf, b, a)
    part.inc("transitions", 2)
    if ex is not None or ey is not None:
        if ex is not None and ey is not None:
            part.error(f"{law}:{ex}")
            if ex != ey:
                part.count(f"{law}:both_raise_different_types")
            return "raised", (None, None)
        return f"viol:one order raises {ex or ey}, the other builds an expression", (x, None)
    part.inc("validated")
    # NB: a successful UFL == overwrites the operands of its left argument, so look at x before comparing
    f0 = first_of(x, a, b)
    rx = repr(x) if (distinguishable and cmp_ab == 0 and f0 is not None) else None
    if same_expr(x, y):
        # tie of distinguishable operands + stable sort: the results hold the operands in different order;
        # if UFL's == still says equal, it is blind to the difference (reprs decide)
        if rx is not None and rx != repr(y):
            return "viol:results differ (repr) although UFL == is blind to it", (x, f0)
        return "ok", (x, f0)
    if not distinguishable:
        return "excused", (x, f0)
    return "viol:results are not structurally equal", (x, f0)


def pair_laws(a, b, distinguishable, cmp_ab, part, others=()):
    """All constructor laws on one unordered pair.  Yields (law, what).

    others: [(worldname, a_w, b_w)] the same pair rebuilt in renumbered worlds (numbering law on constructors).
    """
    out = []
    nontrivial = False
    sa, sb = a.ufl_shape, b.ufl_shape
    # ---- sum
    st, (x, f0) = comm_law("sum", lambda p, q: p + q, a, b, distinguishable, cmp_ab, part)
    part.outcome("sum:" + st.split(":")[0] + ":" + type(x).__name__)
    if st.startswith("viol"):
        out.append(("sum", "a+b vs b+a: " + st[5:]))
    if st == "excused":
        part.count("sum:excused_differs")
    if x is not None and isinstance(x, Sum) and distinguishable:
        nontrivial = True
    out += ctor_numbering("sum", lambda p, q: p + q, f0, a, b, distinguishable, cmp_ab, others, part)
    # ---- product
    if sa == () and sb == ():
        st, (x, f0) = comm_law("prod", lambda p, q: p * q, a, b, distinguishable, cmp_ab, part)
        part.outcome("prod:" + st.split(":")[0] + ":" + type(x).__name__)
        if st.startswith("viol"):
            out.append(("prod", "a*b vs b*a: " + st[5:]))
        if st == "excused":
            part.count("prod:excused_differs")
        if x is not None and f0 is not None and distinguishable:
            nontrivial = True
        out += ctor_numbering("prod", lambda p, q: p * q, f0, a, b, distinguishable, cmp_ab, others, part)
    elif sa == () or sb == ():
        # scalar * tensor: ComponentTensor over fresh indices, equal up to renaming those
        x, ex = attempt(lambda p, q: p * q, a, b)
        y, ey = attempt(lambda p, q: p * q, b, a)
        part.inc("transitions", 2)
        if ex is not None or ey is not None:
            if ex is None or ey is None:
                out.append(("sprod", f"scalar*tensor: one order raises {ex or ey}, the other builds an expression"))
            else:
                part.error(f"sprod:{ex}")
        else:
            part.inc("validated")
            W0 = G["worlds"][0]
            same = nf(x, W0, "dedup") == nf(y, W0, "dedup")
            part.outcome("sprod:" + ("ok" if same else "differs") + ":" + type(x).__name__)
            if not same:
                if distinguishable:
                    out.append(("sprod", "scalar*tensor vs tensor*scalar differ beyond renaming of the fresh indices"))
                else:
                    part.count("sprod:excused_differs")
            elif distinguishable and not isinstance(x, Zero):
                nontrivial = True
    else:
        part.count("prod:not_commutative(tensor*tensor; skipped)")
    # ---- inner
    if sa == sb and sa != ():
        x, ex = attempt(ufl.inner, a, b)
        y, ey = attempt(ufl.inner, b, a)
        part.inc("transitions", 2)
        if ex is not None or ey is not None:
            if ex is None or ey is None:
                out.append(("inner", f"inner: one order raises {ex or ey}, the other builds an expression"))
            else:
                part.error(f"inner:{ex}")
        else:
            part.inc("validated")
            ok = same_expr(x, Conj(y)) and same_expr(y, Conj(x))
            part.outcome("inner:" + ("ok" if ok else "differs") + ":" + type(x).__name__ + "/" + type(y).__name__)
            if ok and distinguishable and cmp_ab == 0 and not isinstance(x, Zero):
                # blind == (see comm_law)
                ok = repr(x) == repr(Conj(y))
            if not ok:
                if distinguishable:
                    out.append(("inner", "inner(a,b) != Conj(inner(b,a)): both orders keep their own operand order"))
                else:
                    part.count("inner:excused_differs")
            elif distinguishable and not isinstance(x, Zero):
                nontrivial = True
    elif sa == sb:
        # scalars: inner(a,b) = a*Conj(b) by definition; only the product commutation is promised
        x, ex = attempt(ufl.inner, a, b)
        z, ez = attempt(lambda p, q: Conj(q) * p, a, b)
        part.inc("transitions", 2)
        if ex is None and ez is None:
            part.inc("validated")
            if not same_expr(x, z):
                cb = Conj(b)
                if distinguishable and nf(cb, G["worlds"][0], "erase") != nf(a, G["worlds"][0], "erase"):
                    s, _ = safe_cmp(a, cb)
                    if s != 0 or not ALPHA_STRICT:
                        if s != 0:
                            out.append(("inner0", "inner(a,b) != Conj(b)*a for scalars"))
                        else:
                            part.count("inner0:tie_with_conj(covered by tie law)")
                else:
                    part.count("inner0:excused_differs")
        elif (ex is None) != (ez is None):
            out.append(("inner0", f"inner(a,b) vs Conj(b)*a: one raises {ex or ez}"))
        else:
            part.error(f"inner0:{ex}")
    else:
        x, ex = attempt(ufl.inner, a, b)
        y, ey = attempt(ufl.inner, b, a)
        part.inc("transitions", 2)
        if (ex is None) != (ey is None):
            out.append(("inner", f"inner: one order raises {ex or ey}, the other builds an expression"))
        elif ex is not None:
            part.error(f"inner:{ex}")
    return out, nontrivial


def ctor_numbering(law, opf, f0, a, b, distinguishable, cmp_ab, others, part):
    """The constructor puts the same operand first in the renumbered worlds; it is the cmp_expr-smaller one."""
    out = []
    if f0 is None or not distinguishable:
        return out
    if not (isinstance(a, ScalarValue) or isinstance(b, ScalarValue)) and cmp_ab in (-1, 1):
        part.inc("validated")
        if f0 != (0 if cmp_ab < 0 else 1):
            part.count(f"{law}:canon_mismatch(first operand is not the cmp_expr-smaller one; not flagged)")
    for wname, aw, bw in others:
        xw, ex = attempt(opf, aw, bw)
        part.inc("transitions")
        if ex is not None:
            out.append((law + "-shift", f"builds in W0 but raises {ex} in {wname}"))
            continue
        fw = first_of(xw, aw, bw)
        part.inc("validated")
        if fw is not None and fw != f0:
            out.append(
                (law + "-shift", f"operand order of the result flips after renumbering indices/labels ({wname})")
            )
    return out


def w_pairs(rows):
    part = Part()
    U = G["U"]
    objs = U.objs["W0"]
    cls = G["cls"]
    M0 = G["M0"]
    stable = G["stable"]
    cands = Cands()
    oworlds = [w.name for w in G["worlds"][1:]]
    saved = G["saved_operands"]
    for ia in rows:
        a = objs[ia]
        for ib in range(ia + 1, U.n):
            b = objs[ib]
            distinguishable = bool(cls[ia] != cls[ib])
            others = (
                [(wn, U.objs[wn][ia], U.objs[wn][ib]) for wn in oworlds] if stable[ia] and stable[ib] else []
            )
            res, nontrivial = pair_laws(a, b, distinguishable, int(M0[ia, ib]), part, others)
            part.inc("states")
            if nontrivial:
                part.inc("nontrivial")
            if res:
                # tag on rebuilt copies: a successful UFL == (also inside Inner.__new__) overwrites operands
                W0 = G["worlds"][0]
                tag = cause_tag((try_build(U.recipes[ia], W0), try_build(U.recipes[ib], W0)))
                for law, what in res:
                    cands.add(law, tag, (ia, ib), what)
            if saved[ia] is not None:
                a.ufl_operands = saved[ia]
            if saved[ib] is not None:
                b.ufl_operands = saved[ib]
            if (ia * 7919 + ib) % 200003 == 0:
                part.sample({"a": show(U.recipes[ia]), "b": show(U.recipes[ib]), "cmp": int(M0[ia, ib]),
                             "a+b": short(nf(attempt(lambda p, q: p + q, a, b)[0], G["worlds"][0], "alpha"), 200)
                             if attempt(lambda p, q: p + q, a, b)[0] is not None else "raises"}, limit=2)
    part.d["cands"] = cands.dump()
    return part.dict()


# =====================================================================================================
# phase 4: triples on the reduced universe
# =====================================================================================================


def sorted3_law(a, b, c, cmpf):
    """sorted_expr of all 6 permutations: each result sorted, all equal position-wise up to cmp==0."""
    ref = None
    for perm in itertools.permutations((a, b, c)):
        s = sorted_expr(perm)
        if not (cmpf(s[0], s[1]) <= 0 and cmpf(s[1], s[2]) <= 0 and cmpf(s[0], s[2]) <= 0):
            return "sorted_expr result is not sorted"
        if ref is None:
            ref = s
        elif any(cmpf(p, q) != 0 for p, q in zip(ref, s)):
            return "sorted_expr of two permutations differ beyond cmp==0 ties"
    return None


def sorted3_note(a, b, c):
    """Observable consequence of an inconsistent comparison: does sorted_expr depend on the input order?"""
    try:
        outs = {tuple(id(x) for x in sorted_expr(p)) for p in itertools.permutations((a, b, c))}
    except FATAL:
        raise
    except BaseException as e:  # noqa: BLE001
        return f"sorted_expr raises {type(e).__name__}"
    return f"sorted_expr over the 6 input orders gives {len(outs)} different sequences"


def triple_ctor_law(opf, p, q, r):
    """(p.q).r, (q.p).r, r.(p.q), r.(q.p): commutations of each binary node. None=ok, 'raised', or text."""
    forms = [
        lambda: opf(opf(p, q), r),
        lambda: opf(opf(q, p), r),
        lambda: opf(r, opf(p, q)),
        lambda: opf(r, opf(q, p)),
    ]
    res = [attempt(f) for f in forms]
    exs = [e for _, e in res]
    if any(e is not None for e in exs):
        if all(e is not None for e in exs):
            return "raised"
        return f"some association-free commutations raise, others build: {exs}"
    x0 = res[0][0]
    for x, _ in res[1:]:
        if not same_expr(x0, x):
            return "commuting the operands of a binary node changes the result"
    return None


def w_triples(rows):
    part = Part()
    U = G["U"]
    objs = U.objs["W0"]
    R = U.Rsort
    inctor = set(U.R)
    cls = G["cls"]
    M0 = G["M0"]
    idx = {id(objs[k]): k for k in R}
    W0 = G["worlds"][0]
    cands = Cands()

    def cmpf(x, y):
        return int(M0[idx[id(x)], idx[id(y)]])

    for pa in rows:
        ia = R[pa]
        a = objs[ia]
        for pb in range(pa + 1, len(R)):
            ib = R[pb]
            b = objs[ib]
            for pc in range(pb + 1, len(R)):
                ic = R[pc]
                c = objs[ic]
                part.inc("states")
                if RAISED in (M0[ia, ib], M0[ib, ic], M0[ia, ic], M0[ib, ia], M0[ic, ib], M0[ic, ia]):
                    part.count("triples_skipped(cmp raises; flagged by cmp-raises)")
                    continue
                part.inc("transitions", 6)
                part.inc("validated")
                msg = sorted3_law(a, b, c, cmpf)
                if msg:
                    cands.add("sorted3", cause_tag((a, b), (b, c), (a, c)), (ia, ib, ic), msg)
                if not (ia in inctor and ib in inctor and ic in inctor):
                    continue
                if not (a.ufl_shape == b.ufl_shape == c.ufl_shape):
                    continue
                part.count("triples_R_constructor_laws")
                alld = len({cls[ia], cls[ib], cls[ic]}) == 3
                for law, opf in (("sum3", lambda p, q: p + q), ("prod3", lambda p, q: p * q)):
                    if law == "prod3" and a.ufl_shape != ():
                        continue
                    for p, q, r in ((a, b, c), (a, c, b), (b, c, a)):
                        msg = triple_ctor_law(opf, p, q, r)
                        part.inc("transitions", 8)
                        if msg == "raised":
                            part.error(law)
                            continue
                        part.inc("validated")
                        if msg is None:
                            if alld:
                                part.inc("nontrivial")
                            continue
                        # excused unless every commuted pair is distinguishable without numbers
                        s, _ = attempt(opf, p, q)
                        dis = (
                            alld
                            and s is not None
                            and nf(s, W0, "alpha" if ALPHA_STRICT else "erase")
                            != nf(r, W0, "alpha" if ALPHA_STRICT else "erase")
                        )
                        if dis:
                            cands.add(law, cause_tag((p, q), (s, r)), (ia, ib, ic), msg)
                        else:
                            part.count(law + ":excused_differs")
    part.d["cands"] = cands.dump()
    return part.dict()


# =====================================================================================================
# main / replay
# =====================================================================================================


def main(argv):
    run = Run(PID, argv)
    if run.args.replay:
        return replay(run)
    tier = run.tier
    U = setup(tier)
    n = U.n
    cands = Cands()
    import time

    tph = [time.time()]
    # ---- phase 1
    items = [(w.name, ia) for w in G["worlds"] for ia in range(n)]
    Ms = {w.name: np.zeros((n, n), dtype=np.int8) for w in G["worlds"]}
    copybad = []
    for d in pmap(w_rows, items, seed=run.seed):
        run.merge(d)
        for k, v in d["rows"].items():
            wn, ia = k.split(":")
            Ms[wn][int(ia), :] = np.frombuffer(v, dtype=np.int8)
        copybad += d.get("copybad", [])
    for ia in sorted(copybad):
        cands.add("refl", "equal-copy", (ia,), "a == a' (rebuilt copy) but cmp_expr(a, a') != 0")
    run.validated += n
    G["M0"] = Ms["W0"]
    tph.append(time.time())
    # ---- phase 2
    matrix_laws(run, cands, Ms)
    tph.append(time.time())
    # ---- phase 3
    for d in pmap(w_pairs, list(range(n)), seed=run.seed, chunks_per_proc=8):
        run.merge(d)
        cands.merge(d["cands"])
    tph.append(time.time())
    # ---- phase 4
    for d in pmap(w_triples, list(range(len(U.Rsort))), seed=run.seed, chunks_per_proc=8):
        run.merge(d)
        cands.merge(d["cands"])
    tph.append(time.time())
    run.extra["phase_wall_s(cmp matrices, matrix laws, pair constructors, triples on R)"] = [
        round(b - a, 1) for a, b in zip(tph, tph[1:])
    ]
    cands.report(run)
    # ---- bookkeeping
    run.evaluations = run.validated
    nR = len(U.R)
    nS = len(U.Rsort)
    run.bounds = {
        "universe_size": n,
        "levels(0..3)": U.levels,
        "recipes_rejected_by_ufl": U.rejected,
        "recipes_duplicate": U.duplicates,
        "terminals": sorted(G["worlds"][0].t),
        "worlds": {w.name: {"idx": {k: v.count() for k, v in w.idx.items()},
                            "labels": {k: v.count() for k, v in w.lab.items()}} for w in G["worlds"]},
        "ordered_pairs_per_world": n * n,
        "ordered_triples_per_world(matrix laws)": n**3,
        "unordered_pairs(constructor laws)": n * (n - 1) // 2,
        "reduced_universe_Rsort(terminals, extras, every indexed terminal, strided rest)": nS,
        "unordered_triples_Rsort(sorted_expr on all 6 permutations)": nS * (nS - 1) * (nS - 2) // 6,
        "reduced_universe_Rctor(terminals, extras, strided rest)": nR,
        "unordered_triples_Rctor(sum3/prod3 where shapes agree)": nR * (nR - 1) * (nR - 2) // 6,
        "params": {k: v for k, v in PARAMS[tier].items()},
        "comb": "level 1: indexing variants of every tensor terminal, unary ops on un1_targets, binary ops on core0 x core0, "
        "fixed extras; level 2: light indexing + un2_ops on all of level 1, bin2_ops level1 x core1 in both orders; "
        "level 3 (thorough): light indexing + un3_ops on level 2, bin3_ops level2 x core2",
        "alpha_strict": ALPHA_STRICT,
    }
    run.extra["index_pattern_only_samples"] = G.get("pattern_samples", [])
    run.extra["violation_families"] = dict(sorted(cands.tot.items()))
    run.exhaustive = True
    run.rule = (
        "universe = all recipes of the stated comb grammar that UFL accepts, distinct up to renaming of constructor-made "
        "fresh indices; every ordered pair (3 numbering worlds) is compared by the real cmp_expr, every ordered triple is "
        "decided on that complete matrix, every unordered pair goes through +, *, inner in both orders; a pair is "
        "non-trivial when its operands are distinguishable without index/label numbers and a genuine Sum/Product/Inner "
        "node (not folded away) was built from them; triples: the three are pairwise distinguishable and the "
        "constructions succeeded"
    )
    run.assumptions += [
        "structural equality is UFL's ==; a False answer is confirmed by comparing reprs, a True answer for a tie of "
        "distinguishable operands is checked against the reprs (== is blind to BaseFormOperator data)",
        "'distinguishable without comparing index or label numbers' = different after erasing every Index/Label number "
        "(nfE); pairs that differ only in the pattern of index identities are excused and counted "
        "(C29_ALPHA_STRICT=1 flags them)",
        "cmp_expr is a pure function of its two arguments (the triple laws are decided on the matrix of all pairwise "
        "results; every reported triple is re-confirmed by direct calls)",
        "PYTHONHASHSEED fixed by ./check (the element repr of the harness depends on set order)",
    ]
    run.finish()


def replay(run):
    with open(run.args.replay) as f:
        rp = json.load(f)
    w = rp["witness"]
    law = w["law"]
    worlds = make_worlds()
    G["worlds"] = worlds
    byname = {x.name: x for x in worlds}
    W0 = worlds[0]
    W = byname[w.get("world", "W0")]
    recs = [tup(r) for r in w["recipes"]]
    objs0 = [try_build(r, W0) for r in recs]
    objsW = [try_build(r, W) for r in recs]
    if any(x is None for x in objs0 + objsW):
        raise RuntimeError("harness: a witness recipe does not build")
    for r, x in zip(recs, objsW):
        print("operand:", show(r), "=>", short(nf(x, W, "alpha"), 300))
    mode = "alpha" if ALPHA_STRICT else "erase"
    fired = None
    part = Part()
    base = law[:-6] if law.endswith("-shift") else law
    if law == "cmp-raises":
        a, b = (objsW + objsW)[:2]
        s, ex = safe_cmp(a, b)
        if ex:
            fired = f"cmp_expr raises {ex}"
    elif law == "refl":
        a = objsW[0]
        a2 = try_build(recs[0], W)
        if safe_cmp(a, a)[0] != 0 or (a == a2 and safe_cmp(a, a2)[0] != 0):
            fired = "cmp_expr(a, a) != 0"
    elif law == "antisym":
        a, b = objsW
        s1, s2 = safe_cmp(a, b)[0], safe_cmp(b, a)[0]
        if s1 is not None and s2 is not None and s1 + s2 != 0:
            fired = f"sign(cmp(a,b))={s1}, sign(cmp(b,a))={s2}"
    elif law in ("trans-lt", "trans-eq", "cons-eq-lt", "cons-lt-eq"):
        if confirm_triple(law, *objsW):
            fired = law
    elif law == "tie":
        a, b = objs0
        if safe_cmp(a, b)[0] == 0 and nf(a, W0, mode) != nf(b, W0, mode) and not (a == b):
            fired = "cmp_expr(a,b)==0 for distinguishable operands"
    elif law == "shift":
        a, b = objs0
        aw, bw = objsW
        if nf(a, W0, mode) != nf(b, W0, mode) and safe_cmp(a, b)[0] != safe_cmp(aw, bw)[0]:
            fired = "relative order depends on index/label numbers"
    elif law == "doc-order":
        a, b = objs0
        ka, kb = (a.count(), b.count()) if isinstance(a, Coefficient) else ((a.number(), a.part()), (b.number(), b.part()))
        if safe_cmp(a, b)[0] != (-1 if ka < kb else 1):
            fired = "order of bare coefficients/arguments is not the documented one"
    elif base in ("sum", "prod", "sprod", "inner", "inner0"):
        a, b = objs0
        dis = nf(a, W0, mode) != nf(b, W0, mode)
        others = [(x.name, try_build(recs[0], x), try_build(recs[1], x)) for x in worlds[1:]]
        res, _ = pair_laws(a, b, dis, safe_cmp(a, b)[0], part, others)
        for lw, what in res:
            if lw == law:
                fired = what
    elif law == "sorted3":
        a, b, c = objs0
        fired = sorted3_law(a, b, c, lambda x, y: safe_cmp(x, y)[0])
    elif law in ("sum3", "prod3"):
        a, b, c = objs0
        opf = (lambda p, q: p + q) if law == "sum3" else (lambda p, q: p * q)
        for p, q, r in ((a, b, c), (a, c, b), (b, c, a)):
            msg = triple_ctor_law(opf, p, q, r)
            if msg not in (None, "raised"):
                fired = msg
    else:
        raise RuntimeError(f"harness: unknown law {law}")
    print("law:", law, "->", "REPRODUCED: " + fired if fired else "not reproduced")
    run.states = 1
    run.transitions = max(1, part.d["transitions"])
    run.validated = 1
    run.evaluations = 1
    run.nontrivial = 1
    run.rule = "replay of one witness"
    run.sample({"law": law, "operands": [show(r) for r in recs], "reproduced": bool(fired)})
    if fired:
        run.violation(rp["key"], fired, w)
    run.finish()
