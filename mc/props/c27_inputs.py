"""C27 helper: input catalogue.  Every builder creates a completely fresh universe (mesh, elements, spaces,
terminals, caller-owned metadata dicts / subdomain data / measures) and the input object built from it.

`build(name)` -> (obj, U).  U.make() rebuilds a structurally equal object from the SAME terminals (new
operator nodes), U.watch maps names to caller-owned objects whose deep state must never change.
"""

import numpy as np

import ufl
from mc import elements as E
from mc.envs import mesh as mk_mesh
from ufl import (
    CellDiameter,
    CellVolume,
    Circumradius,
    Coefficient,
    Constant,
    FacetNormal,
    FunctionSpace,
    Index,
    Measure,
    SpatialCoordinate,
    TestFunction,
    TrialFunction,
    as_tensor,
    as_vector,
    avg,
    conditional,
    conj,
    cos,
    curl,
    derivative,
    det,
    dev,
    diff,
    div,
    dot,
    dP,
    dS,
    ds,
    dx,
    exp,
    grad,
    gt,
    imag,
    inner,
    inv,
    jump,
    lt,
    max_value,
    real,
    sin,
    sqrt,
    sym,
    tr,
    variable,
)


class SubdomainData:
    """A caller-owned mutable object used as subdomain_data (like a dolfin MeshFunction)."""

    def __init__(self, name, markers):
        self.name = name
        self.markers = list(markers)
        self.info = {"dim": 2, "values": np.array(markers)}

    def __repr__(self):
        return f"SubdomainData({self.name!r})"


class SubdomainDataWithId(SubdomainData):
    """Variant that implements the ufl_id() protocol."""

    def ufl_id(self):
        return 4711


def rich_metadata():
    """Metadata with nested mutable values."""
    return {
        "quadrature_degree": 2,
        "rule": {"name": "custom", "points": [[0.0, 0.0], [1.0, 0.0], [0.0, 1.0]], "opts": {"tags": ["a", "b"]}},
        "weights": np.array([0.25, 0.25, 0.5]),
        "flags": ["x", ("y", 1)],
    }


class U:
    """Universe of one history."""

    def __init__(self):
        self.watch = {}
        self.make = None
        self.t = {}

    def w(self, name, obj):
        self.watch[name] = obj
        return obj


def _spaces(u, cell="triangle", gdim=None):
    m = mk_mesh(cell, gdim)
    u.mesh = m
    return m


# -------------------------------------------------------------------------------------------------
# forms
# -------------------------------------------------------------------------------------------------
def f_mass():
    u = U()
    m = _spaces(u)
    V = FunctionSpace(m, E.P("triangle", 1))
    tr_, te = TrialFunction(V), TestFunction(V)
    u.make = lambda: inner(tr_, te) * dx
    return u


def f_poisson_md():
    u = U()
    m = _spaces(u)
    V = FunctionSpace(m, E.P("triangle", 2))
    tr_, te = TrialFunction(V), TestFunction(V)
    f, g = Coefficient(V), Coefficient(V)
    md = u.w("md0", rich_metadata())
    dxm = u.w("measure.dxm", dx(metadata=md))
    dx1 = u.w("measure.dx1", dx(1, metadata=md))
    u.make = lambda: inner(grad(tr_), grad(te)) * dxm + f * te * dx1 + g * te * ds(2) + f * tr_ * te * dx
    return u


def f_linear_vec():
    u = U()
    m = _spaces(u)
    V = FunctionSpace(m, E.P("triangle", 1, (2,)))
    te = TestFunction(V)
    f = Coefficient(V)
    c = Constant(m)
    cv = Constant(m, shape=(2,))
    u.make = lambda: inner(f, te) * dx + c * conj(te[0]) * ds(1) + inner(cv, te) * dx(2, degree=3)
    return u


def f_functional():
    u = U()
    m = _spaces(u)
    V = FunctionSpace(m, E.P("triangle", 2))
    f, g = Coefficient(V), Coefficient(V)
    c = Constant(m)
    md = u.w("md0", {"quadrature_degree": 4, "scheme": ["default", {"k": [1, 2, 3]}]})
    u.make = lambda: f * g * dx(metadata=md) + c * f**2 * ds + exp(-g) * dx(3)
    return u


def f_mixed_stokes():
    u = U()
    m = _spaces(u)
    W = FunctionSpace(m, E.Mixed([E.P("triangle", 2, (2,)), E.P("triangle", 1)]))
    w, z = TrialFunction(W), TestFunction(W)
    uu, p = ufl.split(w)
    vv, q = ufl.split(z)
    f = Coefficient(FunctionSpace(m, E.P("triangle", 1, (2,))))
    wk = Coefficient(W)
    u.make = (
        lambda: inner(grad(uu), grad(vv)) * dx
        - div(vv) * p * dx
        + q * div(uu) * dx
        + dot(f, uu) * wk[2] * q * dx(1)
    )
    return u


def f_hdiv_rt():
    u = U()
    m = _spaces(u)
    V = FunctionSpace(m, E.RT("triangle", 1))
    Q = FunctionSpace(m, E.DG("triangle", 0))
    s, t = TrialFunction(V), TestFunction(V)
    k = Coefficient(Q)
    b = Coefficient(V)
    n = FacetNormal(m)
    md = u.w("md0", {"quadrature_degree": 3, "table": {"values": np.array([[1.0, 2.0], [3.0, 4.0]])}})
    u.make = (
        lambda: k * inner(s, t) * dx(metadata=md) + div(s) * div(t) * dx + dot(s, n) * dot(t, n) * ds(1) + dot(b, t) * div(s) * dx
    )
    return u


def f_hcurl_ned():
    u = U()
    m = _spaces(u)
    V = FunctionSpace(m, E.N1curl("triangle", 1))
    s, t = TrialFunction(V), TestFunction(V)
    b = Coefficient(V)
    u.make = lambda: inner(curl(s), curl(t)) * dx + inner(s, t) * dx + inner(b, s) * inner(b, t) * dx(1)
    return u


def f_dg_interior():
    u = U()
    m = _spaces(u)
    V = FunctionSpace(m, E.DG("triangle", 1))
    tr_, te = TrialFunction(V), TestFunction(V)
    f = Coefficient(V)
    n = FacetNormal(m)
    h = CellDiameter(m)
    md = u.w("md0", {"quadrature_degree": 2, "facet": {"sides": ["+", "-"]}})
    u.make = (
        lambda: inner(grad(tr_), grad(te)) * dx
        - inner(avg(grad(tr_)), jump(te, n)) * dS
        + (2.0 / avg(h)) * jump(tr_) * jump(te) * dS(metadata=md)
        + tr_("+") * te("-") * dS(3)
        + f * tr_ * te * ds
    )
    return u


def f_geometry():
    u = U()
    m = _spaces(u)
    V = FunctionSpace(m, E.P("triangle", 1))
    te = TestFunction(V)
    f = Coefficient(V)
    x = SpatialCoordinate(m)
    n = FacetNormal(m)
    u.make = (
        lambda: x[0] * f * te * dx
        + dot(n, grad(f)) * te * ds
        + CellVolume(m) * te * dx(2)
        + Circumradius(m) * sin(x[1]) * te * ds(1)
    )
    return u


def f_nonlinear_derivative():
    u = U()
    m = _spaces(u)
    V = FunctionSpace(m, E.P("triangle", 1))
    tr_, te = TrialFunction(V), TestFunction(V)
    f, g = Coefficient(V), Coefficient(V)
    md = u.w("md0", {"quadrature_degree": 3, "opts": [1, [2, 3]]})

    def mk():
        F = (1 + f**2) * inner(grad(f), grad(te)) * dx(metadata=md) - g * te * dx
        return derivative(F, f, tr_)

    u.make = mk
    return u


def f_variable_diff():
    u = U()
    m = _spaces(u)
    V = FunctionSpace(m, E.P("triangle", 1))
    tr_, te = TrialFunction(V), TestFunction(V)
    f = Coefficient(V)
    w = variable(f)
    u.t["variable"] = w
    u.make = lambda: diff(w**2 * sin(w), w) * te * dx + w * f * te * dx + w**2 * te * dx(1)
    return u


def f_conditional():
    u = U()
    m = _spaces(u)
    V = FunctionSpace(m, E.P("triangle", 1))
    te = TestFunction(V)
    f, g = Coefficient(V), Coefficient(V)
    u.make = lambda: conditional(gt(f, g), f, g) * te * dx + max_value(f, 0) * te * ds + abs(f - g) * te * dx(1)
    return u


def f_index_notation():
    u = U()
    m = _spaces(u)
    VV = FunctionSpace(m, E.P("triangle", 1, (2,)))
    T = FunctionSpace(m, E.P("triangle", 1, (2, 2)))
    tv = TestFunction(VV)
    fv = Coefficient(VV)
    A = Coefficient(T)
    i, j, k = Index(), Index(), Index()
    u.make = (
        lambda: fv[j].dx(i) * tv[j].dx(i) * dx
        + A[i, j] * fv[i] * tv[j] * dx
        + as_tensor(A[i, k] * A[k, j], (i, j))[0, 1] * tv[0] * dx(1)
        + as_vector(A[i, j] * fv[j], i)[k] * tv[k] * ds
    )
    return u


def f_subdomain_data():
    u = U()
    m = _spaces(u)
    V = FunctionSpace(m, E.P("triangle", 1))
    te = TestFunction(V)
    f, g = Coefficient(V), Coefficient(V)
    sd = u.w("sd0", SubdomainData("cells", [0, 1, 1, 2]))
    sd2 = u.w("sd1", SubdomainDataWithId("facets", [3, 3, 0]))
    md = u.w("md0", rich_metadata())
    dxs = u.w("measure.dxs", Measure("dx", domain=m, subdomain_id=(1, 2), subdomain_data=sd, metadata=md))
    dss = u.w("measure.dss", ds(3, subdomain_data=sd2))
    u.make = lambda: f * te * dxs + g * te * dss + f * g * te * dx(subdomain_data=sd)
    return u


def f_multi_md():
    u = U()
    m = _spaces(u)
    V = FunctionSpace(m, E.P("triangle", 1))
    te = TestFunction(V)
    f, g = Coefficient(V), Coefficient(V)
    md = u.w("md0", {"quadrature_degree": 2, "rule": {"points": [[0.5, 0.5]], "weights": [0.5]}})
    md_eq = u.w("md1", {"quadrature_degree": 2, "rule": {"points": [[0.5, 0.5]], "weights": [0.5]}})
    md_other = u.w("md2", {"quadrature_degree": 5, "w": np.array([1.0, 2.0])})
    u.make = (
        lambda: f * te * dx(metadata=md)
        + g * te * dx(metadata=md)
        + f * g * te * dx(metadata=md_eq)
        + te * dx(1, degree=3, scheme="vertex")
        + g * te * dx(1, metadata=md_other)
        + f * te * dx((1, 2), metadata=md_other)
    )
    return u


def f_complex_terms():
    u = U()
    m = _spaces(u)
    V = FunctionSpace(m, E.P("triangle", 1))
    tr_, te = TrialFunction(V), TestFunction(V)
    f, g = Coefficient(V), Coefficient(V)
    u.make = lambda: inner(tr_, te) * dx + real(f) * imag(g) * tr_ * conj(te) * dx(1) + conj(f * tr_) * conj(te) * ds
    return u


def f_tensor_sym():
    u = U()
    m = _spaces(u)
    VV = FunctionSpace(m, E.P("triangle", 2, (2,)))
    T = FunctionSpace(m, E.SymP("triangle", 1))
    uu, vv = TrialFunction(VV), TestFunction(VV)
    A = Coefficient(T)
    u.make = (
        lambda: inner(sym(grad(uu)), sym(grad(vv))) * dx
        + tr(A) * det(A) * div(uu) * div(vv) * dx
        + inner(dev(A), grad(vv)) * div(uu) * dx(1)
        + inner(inv(A) * uu, vv) * ds
    )
    return u


def f_coordinate_derivative():
    u = U()
    m = _spaces(u)
    V = FunctionSpace(m, E.P("triangle", 1))
    X = FunctionSpace(m, E.P("triangle", 1, (2,)))
    f = Coefficient(V)
    x = SpatialCoordinate(m)
    dX = TestFunction(X)
    u.make = lambda: derivative(f * f * dx + x[0] * f * dx(1), x, dX)
    return u


def f_interval_vertex():
    u = U()
    m = _spaces(u, "interval")
    V = FunctionSpace(m, E.P("interval", 2))
    tr_, te = TrialFunction(V), TestFunction(V)
    f = Coefficient(V)
    md = u.w("md0", {"quadrature_degree": 1, "pts": [[0.0], [1.0]]})
    u.make = lambda: inner(tr_.dx(0), te.dx(0)) * dx + f * inner(tr_, te) * ds + f * inner(tr_, te) * dP(metadata=md) + f * inner(tr_, te) * dx(1)
    return u


def f_manifold():
    u = U()
    m = _spaces(u, "triangle", 3)
    V = FunctionSpace(m, E.P("triangle", 1))
    tr_, te = TrialFunction(V), TestFunction(V)
    f = Coefficient(V)
    x = SpatialCoordinate(m)
    u.make = lambda: inner(grad(tr_), grad(te)) * dx + x[2] * f * inner(tr_, te) * dx + f * inner(tr_, te) * ds(1)
    return u


def f_tet_hdiv():
    u = U()
    m = _spaces(u, "tetrahedron")
    V = FunctionSpace(m, E.RT("tetrahedron", 1))
    s, t = TrialFunction(V), TestFunction(V)
    n = FacetNormal(m)
    u.make = lambda: inner(s, t) * dx + inner(dot(s, n), dot(t, n)) * ds + inner(div(s), div(t)) * dx(1)
    return u


def f_quadratic_mesh():
    """Non-affine (P2) coordinate element: the integral scaling factor has a non-zero degree."""
    u = U()
    m = ufl.Mesh(E.P("triangle", 2, (2,)))
    u.mesh = m
    V = FunctionSpace(m, E.P("triangle", 2))
    tr_, te = TrialFunction(V), TestFunction(V)
    f = Coefficient(V)
    md = u.w("md0", {"quadrature_degree": 4, "rule": {"pts": [[0.25, 0.25]], "w": np.array([0.5])}})
    u.make = (
        lambda: f * inner(grad(tr_), grad(te)) * dx(metadata=md) + inner(tr_, te) * ds(1) + f * inner(tr_, te) * dx(2)
    )
    return u


def f_empty():
    u = U()
    _spaces(u)
    u.make = lambda: ufl.Form([])
    return u


# -------------------------------------------------------------------------------------------------
# bare expressions and an integral
# -------------------------------------------------------------------------------------------------
def _expr_universe():
    u = U()
    m = _spaces(u)
    V = FunctionSpace(m, E.P("triangle", 2))
    VV = FunctionSpace(m, E.P("triangle", 1, (2,)))
    T = FunctionSpace(m, E.P("triangle", 1, (2, 2)))
    u.t.update(
        f=Coefficient(V),
        g=Coefficient(V),
        fv=Coefficient(VV),
        A=Coefficient(T),
        c=Constant(m),
        v=TestFunction(V),
        x=SpatialCoordinate(m),
        n=FacetNormal(m),
        i=Index(),
        j=Index(),
    )
    return u


def e_scalar():
    u = _expr_universe()
    t = u.t
    u.make = lambda: t["f"] * t["g"] + sin(t["f"]) ** 2 / (1 + t["g"] ** 2) + t["c"]
    return u


def e_grad_index():
    u = _expr_universe()
    t = u.t
    u.make = lambda: grad(t["fv"])[t["i"], t["j"]] * t["A"][t["j"], t["i"]] + dot(t["fv"], grad(t["f"]))
    return u


def e_free_index():
    u = _expr_universe()
    t = u.t
    u.make = lambda: t["A"][t["i"], t["j"]] * t["fv"][t["j"]] + t["fv"][t["i"]]
    return u


def e_vector():
    u = _expr_universe()
    t = u.t
    u.make = lambda: as_vector([t["f"] * t["fv"][0], cos(t["g"])]) + dot(t["A"], t["fv"]) + t["A"].T * t["fv"]
    return u


def e_cond_geom():
    u = _expr_universe()
    t = u.t
    u.make = (
        lambda: conditional(lt(t["x"][0], t["f"]), t["n"][0] * t["g"], sqrt(abs(t["f"]))) + jump(t["g"]) * t["n"]("+")[1]
    )
    return u


def e_variable_diff():
    u = _expr_universe()
    t = u.t
    w = variable(t["f"] * t["g"])
    t["variable"] = w
    u.make = lambda: diff(w**2 * t["f"], w) + w
    return u


def e_variable_compound():
    """A variable wrapping a compound expression that rewriting passes change (they rebuild the Variable with the
    old label around the new expression)."""
    u = _expr_universe()
    t = u.t
    w = variable(dot(t["fv"], t["fv"]) + det(t["A"]))
    t["variable"] = w
    u.make = lambda: 2 * exp(w) + w * t["f"]
    return u


def f_variable_compound():
    u = U()
    m = _spaces(u)
    V = FunctionSpace(m, E.P("triangle", 1))
    te = TestFunction(V)
    f = Coefficient(V)
    w = variable(inner(grad(f), grad(f)))
    u.t["variable"] = w
    u.make = lambda: diff(w**2, w) * f * te * dx + exp(w) * te * dx(1)
    return u


def e_abs_dup():
    """Contains an existing Abs/Conj/Real chain and two structurally equal but distinct subtrees."""
    u = _expr_universe()
    t = u.t

    def mk():
        a = abs(t["f"] * t["g"])
        s1 = t["f"] * t["g"] + t["c"]
        s2 = t["f"] * t["g"] + t["c"]  # equal to s1, distinct nodes
        return a * s1 + conj(real(a)) * s2 + s1 * s1

    u.make = mk
    return u


def e_arg_linear():
    u = _expr_universe()
    t = u.t
    u.make = lambda: t["f"] * t["v"].dx(0) + inner(grad(t["v"]), t["fv"]) * t["c"]
    return u


def i_integral():
    u = _expr_universe()
    t = u.t
    md = u.w("md0", rich_metadata())
    sd = u.w("sd0", SubdomainData("cells", [1, 2]))
    u.make = lambda: (t["f"] * inner(grad(t["g"]), grad(t["v"])) * dx(1, metadata=md, subdomain_data=sd)).integrals()[0]
    return u


# -------------------------------------------------------------------------------------------------
# base forms (Action / FormSum / Adjoint / Matrix / Cofunction) and forms with base form operators
# -------------------------------------------------------------------------------------------------
def _bf_universe():
    from ufl.classes import Cofunction, Matrix

    u = U()
    m = _spaces(u)
    V = FunctionSpace(m, E.P("triangle", 1))
    u.t.update(
        V=V,
        M=Matrix(V, V),
        M2=Matrix(V, V),
        u=Coefficient(V),
        g=Coefficient(V),
        c=Cofunction(V.dual()),
        v=TestFunction(V),
        w=TrialFunction(V),
    )
    return u


def b_action():
    from ufl.classes import Action

    u = _bf_universe()
    t = u.t
    u.make = lambda: Action(t["M"], t["u"])
    return u


def b_nested_action():
    from ufl.classes import Action

    u = _bf_universe()
    t = u.t
    u.make = lambda: Action(Action(t["M"], t["u"]), t["g"])
    return u


def b_formsum():
    from ufl.classes import Action

    u = _bf_universe()
    t = u.t
    md = u.w("md0", {"quadrature_degree": 2, "opts": [1, {"k": [2]}]})
    u.make = lambda: t["g"] * t["v"] * dx(metadata=md) + t["c"] + 2 * Action(t["M"], t["u"])
    return u


def b_adjoint():
    from ufl.classes import Adjoint

    u = _bf_universe()
    t = u.t
    u.make = lambda: Adjoint(t["M"])
    return u


def f_external_operator():
    from ufl.classes import ExternalOperator

    u = _bf_universe()
    t = u.t
    md = u.w("md0", {"quadrature_degree": 2, "opts": [1, {"k": [2]}]})

    def mk():
        N = ExternalOperator(t["u"], t["g"], function_space=t["V"])
        t["N"] = N
        return N * t["v"] * dx(metadata=md) + t["u"] * t["g"] * t["v"] * dx

    u.make = mk
    return u


def f_interpolate():
    from ufl.classes import Interpolate

    u = _bf_universe()
    t = u.t

    def mk():
        Iu = Interpolate(t["u"] ** 2, t["V"])
        return Iu * t["v"] * dx + t["g"] * t["v"] * ds

    u.make = mk
    return u


INPUTS = {
    "mass": f_mass,
    "poisson_md": f_poisson_md,
    "linear_vec": f_linear_vec,
    "functional": f_functional,
    "mixed_stokes": f_mixed_stokes,
    "hdiv_rt": f_hdiv_rt,
    "hcurl_ned": f_hcurl_ned,
    "dg_interior": f_dg_interior,
    "geometry": f_geometry,
    "nonlinear_derivative": f_nonlinear_derivative,
    "variable_diff": f_variable_diff,
    "conditional": f_conditional,
    "index_notation": f_index_notation,
    "subdomain_data": f_subdomain_data,
    "multi_md": f_multi_md,
    "complex_terms": f_complex_terms,
    "tensor_sym": f_tensor_sym,
    "coordinate_derivative": f_coordinate_derivative,
    "interval_vertex": f_interval_vertex,
    "manifold": f_manifold,
    "tet_hdiv": f_tet_hdiv,
    "quadratic_mesh": f_quadratic_mesh,
    "empty": f_empty,
    "expr_scalar": e_scalar,
    "expr_grad_index": e_grad_index,
    "expr_free_index": e_free_index,
    "expr_vector": e_vector,
    "expr_cond_geom": e_cond_geom,
    "expr_variable_diff": e_variable_diff,
    "expr_variable_compound": e_variable_compound,
    "variable_compound": f_variable_compound,
    "expr_abs_dup": e_abs_dup,
    "expr_arg_linear": e_arg_linear,
    "integral": i_integral,
    "bf_action": b_action,
    "bf_nested_action": b_nested_action,
    "bf_formsum": b_formsum,
    "bf_adjoint": b_adjoint,
    "extop_form": f_external_operator,
    "interpolate_form": f_interpolate,
}


def build(name):
    u = INPUTS[name]()
    obj = u.make()
    return obj, u
