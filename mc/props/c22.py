"""C22 Block extraction partitions mixed forms.

All linear/bilinear forms built from single couplings (a-th trial sub-function with b-th test sub-function,
several operators), their pairwise sums and the full sum, on a catalogue of mixed elements with 2-3
sub-spaces (scalar / vector / Piola / symmetric parts) and on MixedFunctionSpace (argument parts), over
dx, ds and dS.  extract_blocks on the real code: the model values of the blocks (sub-space arguments carry
the data of the corresponding components of the mixed argument) must sum to the value of the form, each
block's arguments live in sub-spaces i and j only, blocks reported as None must have value zero.
"""

import copy
import itertools
import json

import numpy as np

import ufl
from mc import elements as E
from mc import envs as EV
from mc import formsem as FS
from mc.runner import Part, Run, pmap
from mc.sem import sem as M
from mc.sem.jet import Ambiguous, Undefined, mpf, set_order

PID = "C22"

MIXED = {
    "Stokes[P2v,P1]": lambda c: [E.P(c, 2, (2,)), E.P(c, 1)],
    "Darcy[RT,DG0]": lambda c: [E.RT(c, 1), E.DG(c, 0)],
    "Three[P1,P1,P2v]": lambda c: [E.P(c, 1), E.P(c, 1), E.P(c, 2, (2,))],
    "Sym[SymP1,P1]": lambda c: [E.SymP(c, 1, 2), E.P(c, 1)],
    "Curl[N1,P1]": lambda c: [E.N1curl(c, 1), E.P(c, 1)],
    "Tensor[P1t,RT]": lambda c: [E.P(c, 1, (2, 2)), E.RT(c, 1)],
}


def scal(p, how, W):
    """A scalar functional of a sub-function p of any shape."""
    sh = p.ufl_shape
    if how == "first":
        return p[(0,) * len(sh)] if sh else p
    if how == "last":
        return p[tuple(s - 1 for s in sh)] if sh else p
    if how == "sumsq":
        return ufl.inner(p, W["ones"](sh)) if sh else p
    if how == "deriv":
        if len(sh) == 1 and sh[0] == 2:
            return ufl.div(p)
        if len(sh) == 0:
            return p.dx(0)
        return ufl.div(p)[0]
    raise KeyError(how)


class World:
    def __init__(self, name, style):
        self.name, self.style = name, style
        c = "triangle"
        m = EV.mesh(c)
        self.mesh = m
        subs = MIXED[name](c)
        self.subs = subs
        self.f = ufl.Coefficient(ufl.FunctionSpace(m, E.P(c, 2)))
        if style == "element":
            V = ufl.FunctionSpace(m, E.Mixed(subs))
            self.V = V
            self.U = ufl.TrialFunction(V)
            self.T = ufl.TestFunction(V)
            self.us = list(ufl.split(self.U))
            self.vs = list(ufl.split(self.T))
        else:
            spaces = [ufl.FunctionSpace(m, s) for s in subs]
            V = ufl.MixedFunctionSpace(*spaces)
            self.V = V
            self.us = list(ufl.TrialFunctions(V))
            self.vs = list(ufl.TestFunctions(V))
        self.n = len(subs)

    def ones(self, sh):
        cs = np.empty(sh, dtype=object)
        k = 1
        for idx in np.ndindex(sh):
            cs[idx] = ufl.as_ufl(k)
            k += 1
        return ufl.as_tensor(cs.tolist())


HOWS = ["first", "last", "sumsq", "deriv"]
MEASURES = {"dx": FS.CELL, "ds": FS.EXT, "dS": FS.INT}


def coupling(W, a, b, hu, hv, meas, weight_f):
    it = MEASURES[meas]
    Wd = {"ones": W.ones}
    R = (lambda e: e("+")) if it == FS.INT else (lambda e: e)
    e = scal(R(W.us[a]), hu, Wd) * scal(R(W.vs[b]), hv, Wd)
    if weight_f:
        e = R(W.f) * e
    return e


def linear_term(W, b, hv, meas):
    it = MEASURES[meas]
    Wd = {"ones": W.ones}
    R = (lambda e: e("+")) if it == FS.INT else (lambda e: e)
    return R(W.f) * scal(R(W.vs[b]), hv, Wd)


def measure(W, meas):
    return {"dx": ufl.dx, "ds": ufl.ds, "dS": ufl.dS}[meas](domain=W.mesh)


def form_value(form, ebt, comp_shift=None):
    out = {}
    for itg in form.integrals():
        it = itg.integral_type()
        vals = []
        for env in ebt[it]:
            e2 = copy.copy(env)
            e2.comp_shift = comp_shift or {}
            vals.append(M.const_of(M.sem(itg.integrand(), M.Ctx(e2), {})))
        k = (it, str(itg.subdomain_id()))
        out[k] = [x + y for x, y in zip(out[k], vals)] if k in out else vals
    return out


def add(d1, d2):
    out = dict(d1)
    for k, v in d2.items():
        out[k] = [x + y for x, y in zip(out[k], v)] if k in out else list(v)
    return out


def differs(d1, d2, tol=mpf("1e-10")):
    for k in set(d1) | set(d2):
        a, b = d1.get(k), d2.get(k)
        if a is None:
            a = [mpf(0)] * len(b)
        if b is None:
            b = [mpf(0)] * len(a)
        for x, y in zip(a, b):
            if not M.values_close(x, y, tol):
                return (k, x, y)
    return None


def ref_offsets(subs):
    offs = [0]
    for s in subs:
        offs.append(offs[-1] + s.reference_value_size)
    return offs


def check_item(item, part, ebt):
    """The same recipe is built and split twice in one process, with fresh mesh-independent objects (coefficients,
    arguments) the second time: what was computed for the first form must not be handed out for the second."""
    _check_item(item, part, ebt, "")
    _check_item(item, part, ebt, "#rebuilt")


def _check_item(item, part, ebt, tag):
    name, style, arity, spec = item
    key0 = f"{name}|{style}|arity{arity}|{spec}{tag}"
    try:
        W = World(name, style)
        F = None
        for t in spec:
            if arity == 2:
                a, b, hu, hv, meas, wf = t
                if a >= W.n or b >= W.n:
                    return
                term = coupling(W, a, b, hu, hv, meas, wf) * measure(W, meas)
            else:
                b, hv, meas = t
                if b >= W.n:
                    return
                term = linear_term(W, b, hv, meas) * measure(W, meas)
            F = term if F is None else F + term
    except BaseException as e:  # noqa: BLE001
        if isinstance(e, (KeyboardInterrupt, SystemExit, MemoryError)):
            raise
        part.error("build:" + type(e).__name__)
        return
    part.inc("states")
    wit = {"item": [name, style, arity, [list(t) for t in spec]]}
    for replace_argument in (True, False) if style == "element" else (True,):
        part.inc("transitions")
        try:
            blocks = ufl.extract_blocks(F, replace_argument=replace_argument) if not replace_argument else ufl.extract_blocks(F)
        except BaseException as e:  # noqa: BLE001
            if isinstance(e, (KeyboardInterrupt, SystemExit, MemoryError)):
                raise
            part.error("extract_blocks:" + type(e).__name__)
            continue
        try:
            total = form_value(F, ebt)
        except (Ambiguous, Undefined):
            part.count("model_undefined")
            continue
        offs = ref_offsets(W.subs)
        acc = {}
        ok = True
        rows = blocks if arity == 2 else [blocks]
        for i, row in enumerate(rows if arity == 2 else [None]):
            cols = row if arity == 2 else blocks
            for j, blk in enumerate(cols):
                bi, bj = (i, j) if arity == 2 else (j, None)
                if blk is None or (hasattr(blk, "empty") and blk.empty()):
                    continue
                if not isinstance(blk, ufl.Form):
                    part.count("non_form_block")
                    continue
                # arguments of the block live in sub-spaces (bi, bj) only
                shift = {}
                for arg in blk.arguments():
                    want = bi if arg.number() == 0 else bj
                    if style == "element" and replace_argument:
                        el = arg.ufl_function_space().ufl_element()
                        if want is None or el != W.subs[want]:
                            part.violation(
                                f"{PID}:block-arguments:{key0}",
                                f"block ({bi},{bj}) of {key0} has an argument number {arg.number()} in the wrong sub-space",
                                dict(wit, block=[bi, bj], argument=repr(arg)[:300]),
                            )
                            ok = False
                        shift[arg] = offs[want] if want is not None else 0
                    elif style == "space":
                        if arg.part() != want:
                            part.violation(
                                f"{PID}:block-arguments:{key0}",
                                f"block ({bi},{bj}) of {key0} contains argument number {arg.number()} part {arg.part()}",
                                dict(wit, block=[bi, bj], argument=repr(arg)[:300]),
                            )
                            ok = False
                try:
                    acc = add(acc, form_value(blk, ebt, comp_shift=shift))
                except (Ambiguous, Undefined):
                    part.count("model_undefined")
                    ok = None
                    break
            if ok is None:
                break
        if ok is None:
            continue
        part.inc("validated")
        bad = differs(acc, total)
        if bad:
            part.violation(
                f"{PID}:sum:{'replace' if replace_argument else 'keep'}:{key0}",
                f"blocks of {key0} do not sum to the form on {bad[0]} (replace_argument={replace_argument})",
                dict(wit, where=str(bad[0]), blocks_sum=M.show(bad[1]), form=M.show(bad[2])),
            )
        elif ok:
            part.count("ok")
    part.inc("nontrivial")
    part.outcome((name, style, arity))
    part.sample({"form": key0}, limit=2)


def main(argv):
    run = Run(PID, argv)
    quick = not run.thorough()
    set_order(2)
    if run.args.replay:
        return replay(run)
    items = []
    hows = HOWS if not quick else ["first", "sumsq", "deriv"]
    for name in MIXED:
        for style in ("element", "space"):
            n = 3 if name.startswith("Three") else 2
            singles = []
            for a, b in itertools.product(range(n), repeat=2):
                for hu, hv in itertools.product(hows, repeat=2) if not quick else [("first", "first"), ("sumsq", "deriv"), ("deriv", "sumsq"), ("last", "first")]:
                    for meas in MEASURES:
                        singles.append((a, b, hu, hv, meas, meas == "ds"))
            for s in singles:
                items.append((name, style, 2, (s,)))
            # pairs of couplings on dx (all unordered pairs of (a,b) blocks) and the full sum
            base = [(a, b, "first", "sumsq", "dx", False) for a, b in itertools.product(range(n), repeat=2)]
            for s1, s2 in itertools.combinations(base, 2):
                items.append((name, style, 2, (s1, s2)))
            items.append((name, style, 2, tuple(base)))
            items.append((name, style, 2, tuple((a, b, "deriv", "first", "dS", True) for a, b in itertools.product(range(n), repeat=2))))
            # linear forms
            for b in range(n):
                for hv in hows:
                    for meas in MEASURES:
                        items.append((name, style, 1, ((b, hv, meas),)))
            items.append((name, style, 1, tuple((b, "sumsq", "dx") for b in range(n))))
    if run.smoke:
        items = items[:: max(1, len(items) // 60)]
        run.exhaustive = False
    run.bounds.update(forms=len(items), mixed=list(MIXED), styles=["mixed element + split", "MixedFunctionSpace (parts)"], measures=list(MEASURES))

    def work(chunk):
        part = Part()
        set_order(2)
        ebt = {it: FS.envs_for(it, "triangle", 2, n=1) for it in (FS.CELL, FS.EXT, FS.INT)}
        for item in chunk:
            check_item(item, part, ebt)
        return part.dict()

    for d in pmap(work, items, seed=run.seed):
        run.merge(d)
    run.rule = "single couplings (a,b) x scalarisations x measures, all pairs of couplings, full sums, linear forms; per mixed space and style; non-trivial = form built and blocks compared"
    run.assumptions += [
        "a sub-space argument created by extract_blocks denotes the components of the mixed argument of the same number at the sub-element's reference offset",
    ]
    run.finish()


def replay(run):
    with open(run.args.replay) as f:
        w = json.load(f)["witness"]
    name, style, arity, spec = w["item"]
    part = Part()
    set_order(2)
    ebt = {it: FS.envs_for(it, "triangle", 2, n=1) for it in (FS.CELL, FS.EXT, FS.INT)}
    check_item((name, style, arity, tuple(tuple(t) for t in spec)), part, ebt)
    run.merge(part.dict())
    run.finish()
