"""C20 Type dispatch stays valid when new expression types are registered later.

Fork-tree history exploration.  Type registration (the ``@ufl_type`` decorator appends to the class
tables of ``Expr`` and hands out a typecode) cannot be undone in-process, so every history is executed
in its own forked process image: a tree node = one history, one ``os.fork()`` per node, the child
executes exactly the last event on the real code and reports its outcome through a pipe.

Events (per algorithm entry A):
  R1  register N1 = ``C20LateOp(Operator)``      (handler name ``c20_late_op`` that no UFL algorithm defines)
  R2  register N2 = ``C20LateSin(Sin)``          (inherited handlers ``sin``/``math_function``/... exist)
  R3  register N3 = ``C20LateTerminal(Terminal)``
  O   instantiate A (fresh instance) and run it on the fixed old-type expression
  U1/U2/U3  instantiate A and run it on the same expression with the ``sin(f)`` node replaced by an
            instance of N1/N2/N3 (enabled only after the corresponding R event)

Oracle (differential, no hand-written expectations):
  (a) the outcome (normalised result repr | exception type) of every use event equals the outcome of
      the same event in the canonical history of that history: all registrations first (relative order
      kept, hence identical typecodes), then the same use events in the same order;
  (b) no IndexError/AttributeError/KeyError may come out of a type-dispatch site (a table indexed by
      ``_ufl_typecode_`` / the dispatch modules) in any history, canonical ones included;
  (c) for pairs of independent algorithm classes: the outcome of a use of A in an interleaved history
      equals the outcome in the projection of the history onto A's events (factoring argument).
"""

import gc
import hashlib
import importlib
import json
import os
import pkgutil
import re
import sys
import traceback
import warnings

import ufl
import ufl.algorithms
import ufl.corealg
import ufl.formatting
from mc import elements as E
from mc import envs as EV
from mc.runner import Part, Run, pmap
from ufl.algorithms.transformer import ReuseTransformer, Transformer
from ufl.core.expr import Expr
from ufl.corealg.dag_traverser import DAGTraverser
from ufl.corealg.map_dag import map_expr_dag
from ufl.corealg.multifunction import MultiFunction

PID = "C20"

# "missing handler, falling back" warnings of some algorithms are expected for the late types
warnings.simplefilter("ignore", UserWarning)

REGS = ("R1", "R2", "R3")
USES = ("O", "U1", "U2", "U3")

# modules whose frames are type-dispatch machinery (an IndexError/AttributeError/KeyError whose innermost
# frame is here, or on a source line indexing by ``_ufl_typecode_``, "escaped dispatch")
DISPATCH_FILES = (
    "ufl/corealg/multifunction.py",
    "ufl/corealg/map_dag.py",
    "ufl/corealg/traversal.py",
    "ufl/corealg/dag_traverser.py",
    "ufl/algorithms/transformer.py",
    "functools.py",
)
DISPATCH_EXC = ("IndexError", "AttributeError", "KeyError")


# =================================================================================================
# late type registration (events R1, R2, R3)
# =================================================================================================

NEW = {}  # "1"/"2"/"3" -> class registered in this process image


def register(k):
    from ufl.core.operator import Operator
    from ufl.core.terminal import Terminal
    from ufl.core.ufl_type import ufl_type
    from ufl.mathfunctions import Sin

    assert k not in NEW
    before = Expr._ufl_num_typecodes_
    if k == "1":

        @ufl_type(num_ops=1, inherit_shape_from_operand=0, inherit_indices_from_operand=0)
        class C20LateOp(Operator):
            """A downstream operator type with a handler name unknown to UFL."""

            __slots__ = ()

            def __init__(self, a):
                Operator.__init__(self, (a,))

            def __str__(self):
                return f"c20_late_op({self.ufl_operands[0]})"

        cls = C20LateOp
    elif k == "2":

        @ufl_type()
        class C20LateSin(Sin):
            """A downstream subclass of an existing concrete operator type."""

            __slots__ = ()

        cls = C20LateSin
    else:

        @ufl_type()
        class C20LateTerminal(Terminal):
            """A downstream terminal type."""

            __slots__ = ()
            ufl_shape = ()
            ufl_free_indices = ()
            ufl_index_dimensions = ()

            def __init__(self):
                Terminal.__init__(self)

            def ufl_domains(self):
                return ()

            def _ufl_signature_data_(self, renumbering):
                return "C20LateTerminal"

            def __str__(self):
                return "c20lt"

            def __repr__(self):
                return "C20LateTerminal()"

            def __eq__(self, other):
                return isinstance(other, C20LateTerminal)

        cls = C20LateTerminal
    if cls._ufl_typecode_ != before or Expr._ufl_num_typecodes_ != before + 1:
        raise RuntimeError("harness: unexpected typecode assignment")
    if Expr._ufl_all_classes_[cls._ufl_typecode_] is not cls:
        raise RuntimeError("harness: registry does not hold the new class at its typecode")
    NEW[k] = cls
    return {"k": "reg", "typecode": cls._ufl_typecode_, "name": cls.__name__}


# =================================================================================================
# root fixtures (built once in the root image, before any algorithm object exists)
# =================================================================================================


class Fx:
    pass


_FX = None


def fx():
    global _FX
    if _FX is None:
        x = Fx()
        x.mesh = EV.mesh("triangle")
        x.S = ufl.FunctionSpace(x.mesh, E.P("triangle", 1))
        x.V = ufl.FunctionSpace(x.mesh, E.P("triangle", 1, (2,)))
        x.f = ufl.Coefficient(x.S)
        x.g = ufl.Coefficient(x.S)
        x.w = ufl.Coefficient(x.V)
        x.c = ufl.Constant(x.mesh)
        x.c2 = ufl.Constant(x.mesh)
        x.cw = ufl.VectorConstant(x.mesh)
        x.v = ufl.TestFunction(x.S)
        x.u = ufl.TrialFunction(x.S)
        x.i = ufl.Index()
        x.var = ufl.variable(x.f)
        x.rf, x.rg, x.rw = (ufl.classes.ReferenceValue(t) for t in (x.f, x.g, x.w))
        x.dx = ufl.dx(domain=x.mesh)
        x.dS = ufl.dS(domain=x.mesh)
        _FX = x
    return _FX


def core(kind, leaves=None, bare=False):
    """The expression used by a use event: old-type expression with one node of the requested type."""
    x = fx()
    f, g, w = leaves(x) if leaves else (x.f, x.g, x.w)
    if kind == "O":
        n = ufl.sin(f)
    elif kind == "U1":
        n = NEW["1"](f)
    elif kind == "U2":
        n = NEW["2"](f)
    elif kind == "U3":
        n = NEW["3"]()
    else:
        raise RuntimeError(kind)
    if bare:  # for algorithms whose generic handler cuts the traversal off at the root
        return n
    return n * g + abs(f) + w[x.i] * w[x.i]


# =================================================================================================
# algorithm entries
# =================================================================================================


def _subclasses(c):
    out = []
    for s in c.__subclasses__():
        out.append(s)
        out += _subclasses(s)
    return out


def discover():
    """All MultiFunction / Transformer / DAGTraverser subclasses reachable after importing ufl.*."""
    for pkg in (ufl.algorithms, ufl.corealg, ufl.formatting):
        for m in pkgutil.walk_packages(pkg.__path__, pkg.__name__ + "."):
            importlib.import_module(m.name)
    found = []
    for base, kind in ((MultiFunction, "MF"), (Transformer, "TR"), (DAGTraverser, "DT")):
        for s in sorted(set(_subclasses(base)), key=lambda c: (c.__module__, c.__name__)):
            if s.__module__.startswith("ufl."):
                found.append((kind, s))
    return found


def _ctor_table():
    """Constructor arguments and (optionally) input builders for the discovered classes."""
    from ufl.classes import ExprList, ExprMapping

    x = fx()
    gat = lambda: (ExprList(x.f), ExprList(x.v), ExprMapping())  # noqa: E731
    T = {
        # MultiFunction subclasses
        "GeometryLoweringApplier": dict(args=lambda: ((),)),
        "RestrictionPropagator": dict(args=lambda: (), inp=lambda e: e("+")),
        "ArityChecker": dict(args=lambda: ((x.v,),), inp=lambda e: e * x.v),
        "RestrictionChecker": dict(args=lambda: (False,), bare=True),
        "SumDegreeEstimator": dict(args=lambda: (1, {})),
        "IndexReplacer": dict(args=lambda: ({},)),
        "Replacer": dict(args=lambda: ({x.f: x.g},)),
        "DerivativeNodeReplacer": dict(args=lambda: ({x.f: x.g},)),
        "ChangeToReferenceGrad": dict(args=lambda: (), inp=lambda e: e * ufl.grad(x.f)[0]),
        "ComplexNodeRemoval": dict(args=lambda: (), inp=lambda e: ufl.conj(e)),
        "LowerCompoundAlgebra": dict(args=lambda: (), inp=lambda e: e + ufl.inner(x.w, x.w)),
        # Transformer subclasses
        "PartExtracter": dict(args=lambda: ([x.v],), inp=lambda e: e * x.v),
        # DAGTraverser subclasses
        "CoefficientSplitter": dict(args=lambda: ({},)),
        "BaseFormOperatorDerivativeRuleset": dict(args=lambda: gat() + (None,)),
        "CoordinateDerivativeRuleset": dict(args=gat, leaves=lambda x: (x.rf, x.rg, x.rw)),
        "GateauxDerivativeRuleset": dict(args=gat),
        "GenericDerivativeRuleset": dict(args=lambda: ((),), leaves=lambda x: (x.c, x.c2, x.cw)),
        "GradRuleset": dict(args=lambda: (2,)),
        "ReferenceGradRuleset": dict(args=lambda: (2,), leaves=lambda x: (x.rf, x.rg, x.rw)),
        "VariableRuleset": dict(args=lambda: (x.var,), inp=lambda e: e + x.var),
        "DerivativeRuleDispatcher": dict(args=lambda: (), inp=lambda e: ufl.grad(e)),
        "CoordinateDerivativeRuleDispatcher": dict(args=lambda: ()),
    }
    return T


class Entry:
    def __init__(self, name, kind, run, origin):
        self.name = name
        self.kind = kind  # MF | TR | DT | FN
        self.run = run  # run(core_expression) -> python object (repr = outcome)
        self.origin = origin
        self.ctor = None
        self.leaves = None
        self.bare = False


def _apply(kind, inst, e):
    if kind == "MF":
        return map_expr_dag(inst, e)
    if kind == "TR":
        return inst.visit(e)
    return inst(e)


def _class_entry(kind, cls, spec):
    args = spec.get("args", lambda: ())
    inp = spec.get("inp", lambda e: e)

    def run(e):
        inst = cls(*args())
        return _apply(kind, inst, inp(e))

    ent = Entry(cls.__name__, kind, run, cls.__module__ + "." + cls.__name__)
    ent.ctor = lambda: cls(*args())
    ent.leaves = spec.get("leaves")
    ent.bare = spec.get("bare", False)
    return ent


# ---- synthetic downstream algorithm classes -----------------------------------------------------
_LAZY = {}


def _marker(tag, *ops):
    return ufl.as_ufl(0.5) * sum(ops, ufl.as_ufl(tag))


class C20DownstreamMF(MultiFunction):
    """A downstream MultiFunction that defines handlers for the late types by handler name."""

    def __init__(self):
        MultiFunction.__init__(self)

    expr = MultiFunction.reuse_if_untouched

    def c20_late_op(self, o, a):
        return _marker(101, a)

    def c20_late_sin(self, o, a):
        return _marker(102, a)

    def c20_late_terminal(self, o):
        return _marker(103)


class C20DownstreamTR(ReuseTransformer):
    """A downstream Transformer that defines handlers for the late types by handler name."""

    def __init__(self):
        ReuseTransformer.__init__(self)

    def c20_late_op(self, o, a):
        return _marker(201, a)

    def c20_late_sin(self, o, a):
        return _marker(202, a)

    def c20_late_terminal(self, o):
        return _marker(203)


def _lazy(name):
    """Algorithm classes that are themselves defined only at their first use in a process image."""
    if name in _LAZY:
        return _LAZY[name]
    if name == "LazyMF":

        class C20LazyMF(MultiFunction):
            def __init__(self):
                MultiFunction.__init__(self)

            expr = MultiFunction.reuse_if_untouched

            def abs(self, o, a):
                return _marker(301, a)

        c = C20LazyMF
    elif name == "LazyTR":

        class C20LazyTR(Transformer):
            def __init__(self):
                Transformer.__init__(self)

            expr = Transformer.reuse_if_untouched

            def abs(self, o, a):
                return _marker(302, a)

        c = C20LazyTR
    elif name == "LazyDT":
        from functools import singledispatchmethod

        from ufl.classes import Abs

        class C20LazyDT(DAGTraverser):
            @singledispatchmethod
            def process(self, o, **kw):
                return super().process(o)

            @process.register(Expr)
            def _(self, o, **kw):
                return self.reuse_if_untouched(o)

            @process.register(Abs)
            @DAGTraverser.postorder
            def _(self, o, a, **kw):
                return _marker(303, a)

        c = C20LazyDT
    elif name == "Replacer#dup":
        # same __name__ as ufl.algorithms.replace.Replacer, different class object and handlers

        class Replacer(MultiFunction):
            def __init__(self):
                MultiFunction.__init__(self)

            expr = MultiFunction.reuse_if_untouched

            def abs(self, o, a):
                return _marker(401, a)

            def coefficient(self, o):
                return o

        c = Replacer
    elif name == "ReuseTransformer#dup":

        class ReuseTransformer(Transformer):  # noqa: F811
            def __init__(self):
                Transformer.__init__(self)

            expr = Transformer.always_reconstruct

            def abs(self, o, a):
                return _marker(402, a)

            def math_function(self, o, a):
                return _marker(403, a)

        c = ReuseTransformer
    elif name == "DerivedLazyMF":
        # two-level hierarchy: a subclass, defined at its first use, of an algorithm class that may already have been
        # instantiated; it adds a more specific rule for an old type and overrides the rule for a late type

        class C20DerivedLazyMF(C20DownstreamMF):
            def abs(self, o, a):
                return _marker(501, a)

            def c20_late_op(self, o, a):
                return _marker(502, a)

        c = C20DerivedLazyMF
    elif name == "DerivedLazyTR":

        class C20DerivedLazyTR(C20DownstreamTR):
            def abs(self, o, a):
                return _marker(503, a)

            def c20_late_op(self, o, a):
                return _marker(504, a)

        c = C20DerivedLazyTR
    else:
        raise RuntimeError(name)
    _LAZY[name] = c
    return c


def _fn_table():
    """Function-level entry points that build their algorithm objects internally."""
    import ufl.algorithms as A

    def M(n):
        return importlib.import_module("ufl.algorithms." + n)

    apply_algebra_lowering = M("apply_algebra_lowering")
    apply_coefficient_split = M("apply_coefficient_split")
    apply_derivatives = M("apply_derivatives")
    apply_function_pullbacks = M("apply_function_pullbacks")
    apply_geometry_lowering = M("apply_geometry_lowering")
    apply_restrictions = M("apply_restrictions")
    balancing = M("balancing")
    cancel_jacobian_products = M("cancel_jacobian_products")
    change_to_reference = M("change_to_reference")
    check_arities = M("check_arities")
    check_restrictions = M("check_restrictions")
    comparison_checker = M("comparison_checker")
    formsplitter = M("formsplitter")
    formtransformations = M("formtransformations")
    remove_complex_nodes = M("remove_complex_nodes")
    remove_component_tensors = M("remove_component_tensors")
    renumbering = M("renumbering")
    replace_derivative_nodes = M("replace_derivative_nodes")
    strip_terminal_data = M("strip_terminal_data")
    transformer = M("transformer")
    from ufl.formatting import ufl2unicode as U

    x = fx()

    def cfd(e, **kw):
        fd = A.compute_form_data(e * x.v * x.dx + e("+") * x.v("+") * x.dS, **kw)
        return [(d.integral_type, [repr(i.integrand()) for i in d.integrals]) for d in fd.integral_data]

    F = {
        "renumber_indices": lambda e: renumbering.renumber_indices(e),
        "apply_algebra_lowering": lambda e: apply_algebra_lowering.apply_algebra_lowering(e + ufl.inner(x.w, x.w)),
        "remove_complex_nodes": lambda e: remove_complex_nodes.remove_complex_nodes(ufl.conj(e)),
        "replace": lambda e: A.replace(e, {x.f: x.g}),
        "expand_indices": lambda e: A.expand_indices(e),
        "estimate_total_polynomial_degree": lambda e: A.estimate_total_polynomial_degree(e),
        "apply_restrictions": lambda e: apply_restrictions.apply_restrictions(e("+") * x.v("+") * x.dS),
        "expand_derivatives": lambda e: A.expand_derivatives(ufl.derivative(e * x.dx, x.f, x.v)),
        "apply_derivatives(grad)": lambda e: apply_derivatives.apply_derivatives(ufl.grad(e)),
        "apply_derivatives(diff)": lambda e: apply_derivatives.apply_derivatives(ufl.diff(e + x.var, x.var)),
        "compute_form_data": lambda e: cfd(e),
        "compute_form_data(full)": lambda e: cfd(
            e,
            do_apply_function_pullbacks=True,
            do_apply_integral_scaling=True,
            do_apply_geometry_lowering=True,
            preserve_geometry_types=(ufl.classes.Jacobian,),
            do_apply_restrictions=True,
            do_estimate_degrees=True,
            complex_mode=False,
        ),
        "apply_function_pullbacks": lambda e: apply_function_pullbacks.apply_function_pullbacks(e),
        "apply_geometry_lowering": lambda e: apply_geometry_lowering.apply_geometry_lowering(
            e * ufl.CellVolume(x.mesh)
        ),
        "strip_variables": lambda e: transformer.strip_variables(e + x.var),
        "strip_terminal_data": lambda e: strip_terminal_data.strip_terminal_data(e * x.dx)[0],
        "check_form_arity": lambda e: check_arities.check_form_arity(e * x.v * x.dx, (x.v,)),
        "check_restrictions": lambda e: check_restrictions.check_restrictions(e, False),
        "remove_component_tensors": lambda e: remove_component_tensors.remove_component_tensors(e),
        "change_to_reference_grad": lambda e: change_to_reference.change_to_reference_grad(
            e * ufl.grad(x.f)[0]
        ),
        "extract_blocks": lambda e: formsplitter.extract_blocks(e * x.v * x.dx),
        "compute_form_lhs": lambda e: formtransformations.compute_form_lhs(
            e * x.u * x.v * x.dx + e * x.v * x.dx
        ),
        "compute_form_action": lambda e: formtransformations.compute_form_action(e * x.u * x.v * x.dx, x.g),
        "compute_form_adjoint": lambda e: formtransformations.compute_form_adjoint(e * x.u * x.v * x.dx),
        "ufl2unicode": lambda e: U.ufl2unicode(e),
        "balance_modifiers": lambda e: balancing.balance_modifiers(e),
        "do_comparison_check": lambda e: comparison_checker.do_comparison_check(
            ufl.conditional(ufl.lt(ufl.real(e), 1.0), x.g, x.f) * x.dx
        ),
        "cancel_jacobian_products": lambda e: cancel_jacobian_products.cancel_jacobian_products(e),
        "apply_coefficient_split": lambda e: apply_coefficient_split.apply_coefficient_split(e, {}),
        "replace_derivative_nodes": lambda e: replace_derivative_nodes.replace_derivative_nodes(
            e, {x.f: x.g}
        ),
        "form_signature": lambda e: (e * x.dx).signature(),
    }
    return F


_ENTRIES = None
_SKIPPED = []
_DISCOVERED = []


def entries():
    """name -> Entry (deterministic order)."""
    global _ENTRIES
    if _ENTRIES is not None:
        return _ENTRIES
    fx()
    out = {}
    table = _ctor_table()
    for kind, cls in discover():
        _DISCOVERED.append(f"{kind}:{cls.__module__}.{cls.__name__}")
        name = cls.__name__
        if name in out:
            name = cls.__module__ + "." + name
        spec = table.get(cls.__name__, {})
        ent = _class_entry(kind, cls, spec)
        ent.name = name
        out[name] = ent
    for nm, cls, kind in (("syn.DownstreamMF", C20DownstreamMF, "MF"), ("syn.DownstreamTR", C20DownstreamTR, "TR")):
        e = _class_entry(kind, cls, {})
        e.name = nm
        e.origin = "driver-defined at import time; defines handlers c20_late_op/c20_late_sin/c20_late_terminal"
        out[nm] = e
    for nm, kind in (
        ("LazyMF", "MF"),
        ("LazyTR", "TR"),
        ("LazyDT", "DT"),
        ("Replacer#dup", "MF"),
        ("ReuseTransformer#dup", "TR"),
        ("DerivedLazyMF", "MF"),
        ("DerivedLazyTR", "TR"),
    ):

        def run(e, nm=nm, kind=kind):
            return _apply(kind, _lazy(nm)(), e)

        out["syn." + nm] = Entry("syn." + nm, kind, run, "driver-defined at its first use in the process image")
    for nm, f in _fn_table().items():
        out["fn." + nm] = Entry("fn." + nm, "FN", f, "function entry point")
    out["fn.check_restrictions"].bare = True
    # the root image must be pristine: no algorithm class may have been instantiated yet
    if MultiFunction._handlers_cache or Transformer._handlers_cache:
        raise RuntimeError("harness: handler caches are not empty in the root process image")
    if Expr._ufl_num_typecodes_ != len(Expr._ufl_all_classes_):
        raise RuntimeError("harness: inconsistent registry in the root image")
    _ENTRIES = out
    return out


# =================================================================================================
# executing one event, observing its outcome
# =================================================================================================

_IDX = re.compile(r"\b(Index|Label)\((\d+)\)")
_ADDR = re.compile(r"0x[0-9a-fA-F]+")


def normalise(s):
    """Rename Index/Label counts in order of first appearance; drop memory addresses."""
    seen = {}

    def sub(m):
        k = (m.group(1), m.group(2))
        if k not in seen:
            seen[k] = len(seen)
        return f"{m.group(1)}(#{seen[k]})"

    return _ADDR.sub("0x?", _IDX.sub(sub, s))


def _rel(fn):
    fn = fn.replace("\\", "/")
    k = fn.rfind("/ufl/")
    return fn[k + 1 :] if k >= 0 else os.path.basename(fn)


def observe(thunk):
    try:
        r = thunk()
    except (KeyboardInterrupt, SystemExit, MemoryError):
        raise
    except BaseException as e:  # noqa: BLE001  (ArityMismatch etc. derive from BaseException)
        tb = traceback.extract_tb(e.__traceback__)
        # frames of the driver itself (lambdas of the tables) are not UFL sites
        last = tb[-1]
        rel = _rel(last.filename)
        line = last.line or ""
        disp = type(e).__name__ in DISPATCH_EXC and (
            "_ufl_typecode_" in line or any(rel.endswith(d) or last.filename.endswith(d) for d in DISPATCH_FILES)
        )
        return {
            "k": "exc",
            "t": type(e).__name__,
            "site": f"{rel}:{last.lineno}:{last.name}",
            "line": line.strip()[:120],
            "disp": bool(disp),
            "msg": str(e)[:200],
        }
    s = normalise(repr(r))
    return {"k": "ok", "repr": s}


def compact(o):
    if o["k"] == "reg":
        return f"reg:{o['typecode']}"
    if o["k"] == "ok":
        return "ok:" + hashlib.sha1(o["repr"].encode()).hexdigest()[:16]
    return "exc:" + o["t"] + ("!D" if o["disp"] else "")


def split_event(ev):
    """'R1' -> (None, 'R1');  'O' -> (0, 'O');  'bU2' -> (1, 'U2')."""
    if ev in REGS:
        return None, ev
    if ev[0] in "ab":
        return "ab".index(ev[0]), ev[1:]
    return 0, ev


def do_event(names, ev):
    who, what = split_event(ev)
    if who is None:
        return register(what[1])
    ent = entries()[names[who]]
    # the input expression is built outside the observed region: constructing the new-type node is
    # not the algorithm under test (a failure there is a harness problem)
    e = core(what, ent.leaves, ent.bare)
    return observe(lambda: ent.run(e))


def enabled(hist, nalg):
    ev = []
    for r in REGS:
        if r not in hist:
            ev.append(r)
    for a in range(nalg):
        p = "" if nalg == 1 else "ab"[a]
        ev.append(p + "O")
        for k in "123":
            if "R" + k in hist:
                ev.append(p + "U" + k)
    return ev


def canonical(hist):
    """All registrations first (relative order kept), then the use events in their order."""
    return tuple(e for e in hist if e in REGS) + tuple(e for e in hist if e not in REGS)


def project(hist, who):
    """Projection of a two-class history onto class `who`: registrations + its own uses, unprefixed."""
    out = []
    for e in hist:
        w, what = split_event(e)
        if w is None:
            out.append(e)
        elif w == who:
            out.append(what)
    return tuple(out)


# =================================================================================================
# fork tree
# =================================================================================================


def _read_all(fd):
    chunks = []
    while True:
        b = os.read(fd, 1 << 16)
        if not b:
            break
        chunks.append(b)
    return b"".join(chunks)


def _write_all(fd, data):
    mv = memoryview(data)
    while mv:
        n = os.write(fd, mv)
        mv = mv[n:]


def _spawn(fn):
    """Start fn() in a forked child; returns (pid, read end of its result pipe)."""
    r, w = os.pipe()
    sys.stdout.flush()
    sys.stderr.flush()
    pid = os.fork()
    if pid == 0:
        code = 0
        try:
            os.close(r)
            try:
                payload = json.dumps({"ok": fn()})
            except BaseException:  # noqa: BLE001
                payload = json.dumps({"harness": traceback.format_exc()})
                code = 3
            _write_all(w, payload.encode())
            os.close(w)
        finally:
            os._exit(code)
    os.close(w)
    return pid, r


def _collect(pid, r):
    """Result of a child started by _spawn (harness errors propagate)."""
    data = _read_all(r)
    os.close(r)
    _, status = os.waitpid(pid, 0)
    try:
        d = json.loads(data)
    except ValueError:
        raise RuntimeError(f"harness: child died (status {status}) with output {data[:200]!r}")
    if "harness" in d:
        raise RuntimeError("harness error in forked child:\n" + d["harness"])
    if status != 0:
        raise RuntimeError(f"harness: child exit status {status}")
    return d["ok"]


def _in_child(fn):
    """Run fn() in a forked child, return its JSON-able result."""
    return _collect(*_spawn(fn))


FAN = 2  # sibling subtrees of the first FAN levels run concurrently (hides fork latency); deeper ones sequentially


def explore(names, hist, depth, only=None, fan=0):
    """Executed in an image that has run `hist`: fork one child per enabled event; returns
    {history string: compact outcome of its last event} for the whole subtree."""
    out = {}
    running = []
    for ev in enabled(hist, len(names)):
        if only is not None and ev != only:
            continue

        def child(ev=ev):
            h2 = hist + (ev,)
            sub = {".".join(h2): compact(do_event(names, ev))}
            if depth > 1:
                sub.update(explore(names, h2, depth - 1, fan=fan - 1))
            return sub

        if fan > 0:
            running.append(_spawn(child))
        else:
            out.update(_in_child(child))
    for pid, r in running:
        out.update(_collect(pid, r))
    return out


def trace(names, hist):
    """Full (uncompacted) outcomes of every event of one history, executed in one fresh child."""

    def child():
        return [do_event(names, ev) for ev in hist]

    return _in_child(child)


def _worker(items):
    """items: (job id, names tuple, first event, depth).  The pool worker itself never executes an
    event (it stays a pristine root image); only forked children do."""
    entries()
    gc.freeze()  # fewer copy-on-write faults in the forked images
    part = Part()
    tables = {}
    for jid, names, first, depth in items:
        t = explore(tuple(names), (), depth, only=first, fan=FAN)
        tables.setdefault(jid, {}).update(t)
        part.inc("transitions", len(t))
    d = part.dict()
    d["tables"] = tables
    return d


# =================================================================================================
# oracle
# =================================================================================================


def is_use(ev):
    return ev not in REGS


def judge_single(name, table):
    """-> list of (family, last event, history tuple, check) for every violating node."""
    bad = []
    stats = dict(nodes=len(table), validated=0, nontrivial=0, outcomes=set())
    for hs, o in table.items():
        h = tuple(hs.split("."))
        if not is_use(h[-1]):
            continue
        can = canonical(h)
        oc = table[".".join(can)]
        stats["validated"] += 1
        stats["nontrivial"] += h != can
        stats["outcomes"].add(o)
        if o.endswith("!D"):
            fam = "import-time-class-table" if oc.endswith("!D") else "stale-handler-cache"
            bad.append((fam, h[-1], h, "dispatch"))
        elif o != oc:
            bad.append(("order-dependent-result", h[-1], h, "canonical"))
    return bad, stats


def judge_pair(names, independent, table, singles):
    bad = []
    stats = dict(nodes=len(table), validated=0, nontrivial=0, implied=0, projections=0)
    for hs, o in table.items():
        h = tuple(hs.split("."))
        who, what = split_event(h[-1])
        if who is None:
            continue
        can = canonical(h)
        oc = table[".".join(can)]
        stats["validated"] += 1
        stats["nontrivial"] += h != can
        fam = None
        if o.endswith("!D"):
            fam = "import-time-class-table" if oc.endswith("!D") else "stale-handler-cache"
            chk = "dispatch"
        elif o != oc:
            fam, chk = "order-dependent-result", "canonical"
        if independent:
            p = project(h, who)
            st = singles[names[who]]
            op = st[".".join(p)]
            stats["projections"] += 1
            if op != o:
                bad.append(("cross-class-interference", h[-1], h, "projection"))
                continue
            if fam is not None:
                # same outcome as the single-class projection, whose own verdict is reported there
                pc = st[".".join(canonical(p))]
                if op.endswith("!D") or op != pc:
                    stats["implied"] += 1
                    continue
        if fam is not None:
            bad.append((fam, h[-1], h, chk))
    return bad, stats


def minimal(bad):
    """One witness per root-cause family: shortest history, then lexicographic."""
    best = {}
    for fam, last, h, chk in bad:
        k = (fam, "")
        if k not in best or (len(h), h) < (len(best[k][0]), best[k][0]):
            best[k] = (h, chk)
    return [(fam, last, h, chk) for (fam, last), (h, chk) in sorted(best.items())]


WHAT = {
    "stale-handler-cache": "use after a late type registration fails inside type dispatch although the same use "
    "succeeds/behaves consistently when the registration happens before the algorithm class is first instantiated",
    "import-time-class-table": "use on a late-registered type fails inside type dispatch even in the canonical history "
    "(all registrations before the first instantiation): handler table built from an import-time class list",
    "order-dependent-result": "outcome of a use event differs from the canonical history (registrations first)",
    "cross-class-interference": "outcome of a use of one algorithm class depends on interleaved uses of an independent class",
}


def report(run, names, independent, fam, h, chk, singles_names=None):
    """Re-execute the history and its reference history for a full witness, then report."""
    names = tuple(names)
    tr = trace(names, h)
    if chk == "projection":
        who, _ = split_event(h[-1])
        ref_names, ref_h = (names[who],), project(h, who)
    else:
        ref_names, ref_h = names, canonical(h)
    tr_ref = trace(ref_names, ref_h)
    key = f"{fam}:{'+'.join(names)}:{'.'.join(h)}"
    witness = {
        "entries": list(names),
        "independent": bool(independent),
        "history": list(h),
        "family": fam,
        "check": chk,
        "reference_entries": list(ref_names),
        "reference_history": list(ref_h),
        "outcome": tr[-1],
        "reference_outcome": tr_ref[-1],
        "origin": [entries()[n].origin for n in names],
    }
    o, r = tr[-1], tr_ref[-1]
    desc = (
        f"{WHAT[fam]}; {'+'.join(names)} history {'.'.join(h)}: "
        f"{o['k']} {o.get('t', '')} {o.get('site', '')} vs reference {'.'.join(ref_h)}: {r['k']} {r.get('t', '')}"
    )
    run.violation(key, desc, witness)


# =================================================================================================
# main
# =================================================================================================

DEPTH = {"quick": (3, 3), "thorough": (4, 4)}  # (single-entry histories, two-class interleavings)

PAIRS = [
    # (A, B, independent?)  independent pairs share no handler-cache key
    ("Replacer", "syn.Replacer#dup", True),
    ("ReuseTransformer", "syn.ReuseTransformer#dup", True),
    ("ComplexNodeRemoval", "CopyTransformer", True),
    # base class and a subclass defined later: using the base first must not change what the subclass does
    ("syn.DownstreamMF", "syn.DerivedLazyMF", True),
    ("syn.DownstreamTR", "syn.DerivedLazyTR", True),
    ("LowerCompoundAlgebra", "fn.apply_algebra_lowering", False),
]


def main(argv):
    try:
        _main(argv)
    except (SystemExit, KeyboardInterrupt):
        raise
    except BaseException:  # noqa: BLE001  harness/internal errors are not verdicts
        traceback.print_exc()
        sys.exit(2)


def _main(argv):
    run = Run(PID, argv)
    ents = entries()
    if run.args.replay:
        return replay(run)
    quick = not run.thorough()
    depth, pdepth = DEPTH["quick" if quick else "thorough"]

    # classes whose constructor cannot be satisfied by the table are skipped (and listed)
    for name in list(ents):
        ent = ents[name]
        if ent.ctor is not None:
            r = _in_child(lambda ent=ent: observe(lambda: ent.ctor() and None))
            if r["k"] == "exc":
                _SKIPPED.append(f"{name}: constructor raised {r['t']}: {r['msg']}")
                del ents[name]

    jobs = []
    for name in ents:
        for first in enabled((), 1):
            jobs.append((name, (name,), first, depth))
    for a, b, ind in PAIRS:
        for first in enabled((), 2):
            jobs.append((a + "+" + b, (a, b), first, pdepth))

    tables = {}
    for d in pmap(_worker, jobs, seed=run.seed, chunks_per_proc=8):
        for jid, t in d.pop("tables").items():
            tables.setdefault(jid, {}).update(t)
        run.merge(d)

    per_entry = {}
    fam_nodes = {}
    kinds_failing = {}
    reported = 0
    for name in ents:  # deterministic order
        t = tables[name]
        bad, st = judge_single(name, t)
        run.states += st["nodes"]
        run.validated += st["validated"]
        run.nontrivial += st["nontrivial"]
        for o in st["outcomes"]:
            run.outcomes.add(name + "|" + o)
        for h, o in t.items():
            if o.startswith("exc:") and not o.endswith("!D"):
                run.error(o[4:])
            elif o.endswith("!D"):
                run.error(o[4:-2] + "(dispatch)")
        fams = {}
        for fam, last, h, chk in bad:
            fams[fam] = fams.get(fam, 0) + 1
            fam_nodes[fam] = fam_nodes.get(fam, 0) + 1
        if fams:
            kinds_failing.setdefault(ents[name].kind, []).append(name)
        per_entry[name] = {
            "kind": ents[name].kind,
            "nodes": st["nodes"],
            "uses_validated": st["validated"],
            "distinct_outcomes": len(st["outcomes"]),
            "violating_nodes": fams,
        }
        for fam, last, h, chk in minimal(bad):
            report(run, (name,), True, fam, h, chk)
            reported += 1

    pair_stats = {}
    for a, b, ind in PAIRS:
        jid = a + "+" + b
        t = tables[jid]
        bad, st = judge_pair((a, b), ind, t, tables)
        run.states += st["nodes"]
        run.validated += st["validated"]
        run.nontrivial += st["nontrivial"]
        fams = {}
        for fam, last, h, chk in bad:
            fams[fam] = fams.get(fam, 0) + 1
            fam_nodes["pair:" + fam] = fam_nodes.get("pair:" + fam, 0) + 1
        pair_stats[jid] = dict(st, independent=ind, violating_nodes=fams)
        for fam, last, h, chk in minimal(bad):
            report(run, (a, b), ind, fam, h, chk)
            reported += 1

    # samples: a few concrete traces
    for name, h in (
        ("Replacer", ("O", "R1", "U1")),
        ("Replacer", ("R1", "O", "U1")),
        ("ReuseTransformer", ("R2", "U2")),
        ("GradRuleset", ("O", "R1", "U1")),
        ("syn.DownstreamMF", ("R1", "U1")),
        ("fn.compute_form_data", ("O", "R3", "U3")),
    ):
        if name not in ents:
            continue
        tr = trace((name,), h)
        last = dict(tr[-1])
        if "repr" in last:
            last["repr"] = last["repr"][:160]
        run.sample({"entry": name, "history": ".".join(h), "last_outcome": last}, limit=6)

    nuse = sum(1 for name in ents for o in tables[name].values() if not o.startswith("reg:"))
    nok = sum(1 for name in ents for o in tables[name].values() if o.startswith("ok:"))
    run.count("use_events_total", nuse)
    run.count("use_events_ok_result", nok)
    for fam, n in sorted(fam_nodes.items()):
        run.count("violating_nodes:" + fam, n)
    run.count("violations_reported_minimal_witnesses", reported)
    run.extra["per_entry"] = per_entry
    run.extra["pairs"] = pair_stats
    run.extra["entries_failing_by_kind"] = kinds_failing
    run.extra["discovered_classes"] = _DISCOVERED
    run.extra["skipped_classes"] = _SKIPPED
    run.rule = (
        "every history (sequence of enabled events R1,R2,R3,O,U1,U2,U3; Rk once, Uk only after Rk) up to the depth "
        "bound is one fork-tree node executed on the real code in its own process image, separately for every "
        "algorithm entry, plus all interleavings for the listed pairs; states = distinct histories; validated = use "
        "events compared with the canonical history (registrations first); non-trivial = use events whose history "
        "differs from its canonical history (the comparison is between two different process images)"
    )
    run.bounds = {
        "events": list(REGS + USES),
        "depth_single": depth,
        "depth_pairs": pdepth,
        "histories_per_entry": sum(4**k for k in range(1, depth + 1)),
        "entries": len(ents),
        "entries_by_kind": {k: sum(1 for e in ents.values() if e.kind == k) for k in ("MF", "TR", "DT", "FN")},
        "pairs": [list(p) for p in PAIRS],
        "late_types": ["C20LateOp(Operator)", "C20LateSin(Sin)", "C20LateTerminal(Terminal)"],
        "expression": "N*g + abs(f) + w[i]*w[i] with N in {sin(f), C20LateOp(f), C20LateSin(f), C20LateTerminal()}",
    }
    run.exhaustive = True
    run.assumptions += [
        "factoring: handler caches are dictionaries keyed by the algorithm class object, type registration only "
        "appends to the registry, and a use of class A reads/writes only the cache entries of the classes A "
        "instantiates; hence the reachable behaviours of the full product of all algorithm classes are covered by "
        "exploring each entry separately (function entry points are composite entries that fill the caches of all "
        "classes they use at once). The argument itself is tested on the listed two-class interleavings "
        "(projection oracle), including two pairs of distinct classes with equal __name__",
        "every use event constructs a fresh algorithm instance (as all UFL entry points do); instances retained "
        "across a registration are outside the alphabet",
        "late types are the three synthetic downstream types of the alphabet (new operator with unknown handler "
        "name, subclass of Sin, new terminal), each registered at most once per history",
        "outcomes are compared as result repr with Index/Label counts renamed by first appearance and memory "
        "addresses removed, or as exception type; an IndexError/AttributeError/KeyError counts as escaping dispatch "
        "only if its innermost frame is in a dispatch module or on a line indexing a table by _ufl_typecode_",
        "violations are reported as one minimal witness per (root-cause family, entry); the number of "
        "violating histories per family is in coverage.counters",
    ]
    run.finish()


def replay(run):
    with open(run.args.replay) as f:
        w = json.load(f)["witness"]
    names = tuple(w["entries"])
    h = tuple(w["history"])
    run.transitions += len(h)
    run.states += 1
    tr = trace(names, h)
    can = canonical(h)
    trc = trace(names, can)
    o, oc = compact(tr[-1]), compact(trc[-1])
    run.validated += 1
    fam = None
    chk = None
    if o.endswith("!D"):
        fam = "import-time-class-table" if oc.endswith("!D") else "stale-handler-cache"
        chk = "dispatch"
    elif o != oc:
        fam, chk = "order-dependent-result", "canonical"
    if len(names) == 2 and w.get("independent"):
        who, _ = split_event(h[-1])
        p = project(h, who)
        op = compact(trace((names[who],), p)[-1])
        if op != o:
            fam, chk = "cross-class-interference", "projection"
    print(f"replay {'+'.join(names)} {'.'.join(h)}: outcome {str(tr[-1])[:300]}")
    print(f"canonical {'.'.join(can)}: outcome {str(trc[-1])[:300]}")
    if fam is not None:
        report(run, names, w.get("independent", True), fam, h, chk)
    run.finish()
