"""C15 Integral grouping preserves what is integrated on each subdomain.

Bounded exhaustive enumeration of small forms.  Every integral of a form is a *letter*
(domain, integral type, subdomain id, metadata, coordinate-derivative wrapper) and integrates one
Constant ``c_s`` whose model value is ``10**s``.  The real ``group_form_integrals`` (both values of
``do_append_everywhere_integrals``) and ``build_integral_data`` are run on every form; the integrand
of every output integral is *decoded* with a tiny evaluator (Sum/Product/literals/Constant only) to
the integer that tells which original integrals it contains, and the totals per
(domain, integral type, subdomain id, metadata class, wrapper) are compared with a reference written
in plain Python that never calls UFL's canonicalisation.

Metadata classes of the oracle: the *documented* canonicalisation (dict key order irrelevant,
list == tuple, None == {} at top level, recursively) with EXACT leaves (arrays by dtype/shape/bytes,
numbers by value, strings by value).  The oracle only ever reports a difference in the totals, so it is
insensitive to UFL *not* merging two integrals (that does not change any total).
"""

import itertools
import json
from fractions import Fraction

import numpy as np

import ufl
from mc import elements as E
from mc.runner import Part, Run, pmap
from ufl.algorithms.domain_analysis import build_integral_data, group_form_integrals
from ufl.classes import (
    Constant,
    CoordinateDerivative,
    FloatValue,
    Form,
    Integral,
    IntValue,
    Product,
    Sum,
    Zero,
)

PID = "C15"

# ---------------------------------------------------------------------------------------------------
# alphabet
# ---------------------------------------------------------------------------------------------------
TYPES = ["cell", "exterior_facet"]
SIDS = ["everywhere", 1, 2, (1, 2)]


def _metadata_alphabet():
    L1 = np.linspace(0.0, 1.0, 1200)
    L2 = L1.copy()
    L2[600] += 0.25  # inside the "..." elision of str(ndarray)
    P1 = np.array([1.0 / 3.0, 2.0 / 3.0])
    P2 = P1.copy()
    P2[0] += 1e-12  # 12th significant digit
    return [
        ("none", None),
        ("empty", {}),
        ("q2", {"quadrature_degree": 2}),
        ("q3", {"quadrature_degree": 3}),
        ("q2ra", {"quadrature_degree": 2, "rule": "a"}),
        ("raq2", {"rule": "a", "quadrature_degree": 2}),  # same content, other insertion order
        # two keys, values permuted together with the insertion order: different content
        ("q2p4", {"quadrature_degree": 2, "precision": 4}),
        ("p2q4", {"precision": 2, "quadrature_degree": 4}),
        ("nest1", {"opts": {"a": 1, "b": (1, 2)}}),
        ("nest2", {"opts": {"a": 1, "b": (1, 3)}}),
        ("tup12", {"pts": (1, 2)}),
        ("lst12", {"pts": [1, 2]}),  # list == tuple under the documented canonicalisation
        ("arrA", {"w": np.array([0.5, 0.5])}),
        ("arrB", {"w": np.array([0.25, 0.75])}),
        ("L1", {"w": L1}),
        ("L2", {"w": L2}),
        ("P1", {"w": P1}),
        ("P2", {"w": P2}),
    ]


MD = _metadata_alphabet()
MDNAMES = [n for n, _ in MD]
MDVAL = dict(MD)
ARRAY_MD = {"arrA", "arrB", "L1", "L2", "P1", "P2"}
WRAPS = ["-", "A", "B"]
NSLOT = 3


def mdkey(v, top=True):
    """Exact canonical key of a metadata value (the oracle's notion of 'same metadata')."""
    if v is None:
        return ("d", ()) if top else ("none",)
    if isinstance(v, dict):
        return ("d", tuple(sorted((k, mdkey(x, False)) for k, x in v.items())))
    if isinstance(v, (list, tuple)):
        return ("s", tuple(mdkey(x, False) for x in v))
    if isinstance(v, np.ndarray):
        return ("a", v.dtype.str, v.shape, v.tobytes())
    if isinstance(v, (bool, int, float)):
        return ("n", v)
    if isinstance(v, str):
        return ("str", v)
    raise RuntimeError(f"mdkey: unsupported metadata leaf {type(v).__name__}")


class World:
    """The UFL objects of the alphabet, built once (before forking)."""

    def __init__(self):
        ce = E.P("triangle", 1, (2,))
        self.meshes = [ufl.Mesh(ce), ufl.Mesh(ce)]
        self.consts = [[Constant(m) for _ in range(NSLOT)] for m in self.meshes]
        self.value = {}
        for row in self.consts:
            for s, c in enumerate(row):
                self.value[c] = 10**s
        # integrands: [dom][slot][wrap]
        self.dirs = []
        self.integrand = []
        for d, m in enumerate(self.meshes):
            V = ufl.FunctionSpace(m, ce)
            x = ufl.SpatialCoordinate(m)
            dA, dB = ufl.Coefficient(V), ufl.Coefficient(V)
            self.dirs.append({"A": dA, "B": dB})
            rows = []
            for s in range(NSLOT):
                c = self.consts[d][s]
                ws = {"-": c}
                for w, direction in (("A", dA), ("B", dB)):
                    F = ufl.derivative(c * ufl.dx(m), x, direction)
                    (itg,) = F.integrals()
                    if not isinstance(itg.integrand(), CoordinateDerivative):
                        raise RuntimeError("expected a CoordinateDerivative wrapper")
                    ws[w] = itg.integrand()
                rows.append(ws)
            self.integrand.append(rows)
        self.mdkey_cache = {}
        for n, v in MD:
            self.mdkey_cache[id(v)] = (v, mdkey(v))
        self.mdclass = {n: mdkey(v) for n, v in MD}

    def key_of(self, md):
        hit = self.mdkey_cache.get(id(md))
        if hit is not None and hit[0] is md:
            return hit[1]
        return mdkey(md)

    def wrapper_label(self, d, direction_list):
        (v,) = direction_list.ufl_operands
        for w, c in self.dirs[d].items():
            if v is c or v == c:
                return w
        raise RuntimeError("decode: unknown coordinate-derivative direction")

    def decode(self, d, e):
        """-> (integer value, tuple of wrapper labels outermost first)."""
        wraps = []
        while isinstance(e, CoordinateDerivative):
            o, w, v, cd = e.ufl_operands
            wraps.append(self.wrapper_label(d, v))
            e = o
        return self._val(e), tuple(wraps)

    def _val(self, e):
        if isinstance(e, Constant):
            return self.value[e]
        if isinstance(e, Sum):
            a, b = e.ufl_operands
            return self._val(a) + self._val(b)
        if isinstance(e, Product):
            a, b = e.ufl_operands
            return self._val(a) * self._val(b)
        if isinstance(e, IntValue):
            return int(e)
        if isinstance(e, FloatValue):
            return Fraction(float(e))
        if isinstance(e, Zero):
            return 0
        raise RuntimeError(f"decode: unexpected node {type(e).__name__} in grouped integrand")


W = None


def world():
    global W
    if W is None:
        W = World()
    return W


# letter = (dom, type index, sid index, md name, wrap)
def build_form(case):
    w = world()
    itgs = []
    for (d, t, s, mdn, wr), slot in case:
        itgs.append(Integral(w.integrand[d][slot][wr], TYPES[t], w.meshes[d], SIDS[s], MDVAL[mdn], None))
    return Form(itgs)


def ids_of(sid):
    if sid == "everywhere":
        return None
    return sid if isinstance(sid, tuple) else (sid,)


def expected_totals(case, append):
    """Reference: {(dom, type, region): {(mdclass, wraps): integer}}."""
    w = world()
    exp = {}
    by_dt = {}
    for letter, slot in case:
        by_dt.setdefault((letter[0], letter[1]), []).append((letter, slot))
    shared = False
    for (d, t), lst in by_dt.items():
        numbered = set()
        for (_, _, s, _, _), _slot in lst:
            ids = ids_of(SIDS[s])
            if ids is not None:
                numbered.update(ids)
        for (_, _, s, mdn, wr), slot in lst:
            ids = ids_of(SIDS[s])
            if ids is None:
                regions = ["otherwise"] + (sorted(numbered) if append else [])
            else:
                regions = list(ids)
            cls = (w.mdclass[mdn], () if wr == "-" else (wr,))
            for r in regions:
                tot = exp.setdefault((d, TYPES[t], r), {})
                if tot:
                    shared = True
                tot[cls] = tot.get(cls, 0) + 10**slot
    return exp, shared


def observed_totals(integrals, dup=None):
    w = world()
    obs = {}
    for itg in integrals:
        m = itg.ufl_domain()
        d = 0 if m is w.meshes[0] else 1
        if m is not w.meshes[d]:
            raise RuntimeError("unknown domain in output")
        val, wraps = w.decode(d, itg.integrand())
        cls = (w.key_of(itg.metadata()), wraps)
        sids = itg.subdomain_id()
        if not isinstance(sids, tuple):
            sids = (sids,)
        for r in sids:
            tot = obs.setdefault((d, itg.integral_type(), r), {})
            if dup is not None and cls in tot:
                dup.append(r)
            tot[cls] = tot.get(cls, 0) + val
    return obs


def case_str(case, append, stage):
    s = " + ".join(
        f"c{slot}*{TYPES[t]}(m{d},{SIDS[sx]!r},md={mdn},cd={wr})".replace(" ", "")
        for (d, t, sx, mdn, wr), slot in case
    )
    return f"{stage}:append={append}: {s}"


def md_names_of_classes(case, classes):
    w = world()
    names = set()
    for (_, _, _, mdn, wr), _slot in case:
        if (w.mdclass[mdn], () if wr == "-" else (wr,)) in classes:
            names.add(mdn)
    return names


def relabelling(exp, obs):
    """If, in every region, obs is exp with the metadata classes relabelled by a map phi (same wrapper;
    several classes may map to one = pooled, or a class is replaced by another class of the form), return
    the list of (class, phi(class)) with phi(class) != class over all regions; else None."""
    if set(exp) != set(obs):
        return None
    classes = sorted({c for tot in exp.values() for c in tot})
    allmoved = []
    for r, e in exp.items():
        if e == obs[r]:
            continue
        if sum(e.values()) != sum(obs[r].values()):
            return None
        here = sorted(e)
        best = None
        for images in itertools.product(range(len(classes)), repeat=len(here)):
            moved = [(here[k], classes[j]) for k, j in enumerate(images) if here[k] != classes[j]]
            if not moved or any(a[1] != b[1] for a, b in moved):
                continue
            if best is not None and len(moved) >= len(best):
                continue
            tot = {}
            for k, j in enumerate(images):
                tot[classes[j]] = tot.get(classes[j], 0) + e[here[k]]
            if tot == obs[r]:
                best = moved
        if best is None:
            return None
        allmoved += best
    return allmoved


def diagnose(case, append, stage, exp, obs):
    """Return (key, what) if the totals differ, else None."""
    if exp == obs:
        return None
    full = case_str(case, append, stage)
    moved = relabelling(exp, obs)
    if moved:
        # the only thing wrong: integrals of different metadata classes (same wrapper) were treated as one
        groups = sorted(sorted(md_names_of_classes(case, {a}) | md_names_of_classes(case, {b})) for a, b in moved)
        names = groups[0]
        fam = "metadata-array-collision" if set(names) <= ARRAY_MD else "metadata-merge"
        key = f"{fam}:{stage}:" + "|".join(names)
        what = (
            f"integrals with different metadata ({'|'.join(names)}) were treated as having the same metadata "
            f"and merged (witness: {full})"
        )
        return key, what
    return (
        f"total-mismatch:{full}",
        f"integrand totals per (domain,type,subdomain,metadata) differ from the reference: {full}",
    )


def check_case(case, part):
    """Run the real code on one form (both append options, both stages)."""
    form = build_form(case)
    domains = form.ufl_domains()
    part.inc("transitions")  # Form constructor
    for append in (True, False):
        exp, shared = expected_totals(case, append)
        part.inc("transitions")
        grouped = group_form_integrals(form, domains, do_append_everywhere_integrals=append)
        dup = []
        obs = observed_totals(grouped.integrals(), dup)
        if dup:
            # informational only: same metadata class left in two output integrals (totals unaffected)
            part.count("info_same_metadata_not_merged")
        part.inc("states")
        part.inc("validated")
        if shared:
            part.inc("nontrivial")
        part.outcome(
            str(sorted((i.integral_type()[0], str(i.subdomain_id()), len(str(w_val(i)))) for i in grouped.integrals()))
        )
        bad = diagnose(case, append, "group", exp, obs)
        if bad:
            part.count("bad_inputs_group")
            part.violation(bad[0], bad[1], {"case": case, "append": append, "stage": "group"})
        # second stage
        part.inc("transitions")
        idatas = build_integral_data(grouped.integrals())
        flat = []
        seen = set()
        for ida in idatas:
            k = (id(ida.domain), ida.integral_type, ida.subdomain_id)
            if k in seen:
                part.violation(
                    "integral-data-duplicate:" + case_str(case, append, "build"),
                    "two IntegralData objects for the same (domain, type, subdomain)",
                    {"case": case, "append": append, "stage": "build"},
                )
            seen.add(k)
            for itg in ida.integrals:
                if (
                    itg.integral_type() != ida.integral_type
                    or itg.subdomain_id() != ida.subdomain_id
                    or itg.ufl_domain() is not ida.domain
                ):
                    part.violation(
                        "integral-data-misfiled:" + case_str(case, append, "build"),
                        "IntegralData holds an integral of another domain/type/subdomain",
                        {"case": case, "append": append, "stage": "build"},
                    )
                flat.append(itg)
        obs2 = observed_totals(flat)
        part.inc("validated")
        bad2 = None if bad else diagnose(case, append, "build", exp, obs2)
        bad = bad2
        if bad:
            part.count("bad_inputs_build")
            part.violation(bad[0], bad[1], {"case": case, "append": append, "stage": "build"})


def w_val(itg):
    w = world()
    d = 0 if itg.ufl_domain() is w.meshes[0] else 1
    return w.decode(d, itg.integrand())[0]


# ---------------------------------------------------------------------------------------------------
# enumeration
# ---------------------------------------------------------------------------------------------------
def letters(doms, types, sids, mds, wraps):
    return [
        (d, t, s, m, w)
        for d in doms
        for t in types
        for s in sids
        for m in mds
        for w in wraps
    ]


def slot_patterns(n):
    """Restricted-growth strings: which integrals share the same integrand constant."""
    out = []

    def rec(p):
        if len(p) == n:
            out.append(tuple(p))
            return
        for s in range(max(p, default=-1) + 2):
            rec(p + [s])

    rec([])
    return out


ALL_T = list(range(len(TYPES)))
ALL_S = list(range(len(SIDS)))
MD_SMALL = ["none", "q2", "q2ra", "q2p4", "p2q4", "tup12", "lst12", "L1", "L2"]
MD_TINY = ["empty", "q2", "lst12", "tup12", "L1", "L2"]


def spaces(quick):
    """List of (name, n, letter list, slot patterns)."""
    full2 = letters([0, 1], ALL_T, ALL_S, MDNAMES, WRAPS)
    sp = [("n1", 1, full2, slot_patterns(1))]
    if quick:
        sp.append(("n2-one-domain", 2, letters([0], ALL_T, ALL_S, MDNAMES, ["-", "A"]), slot_patterns(2)))
        sp.append(("n2-wrappers", 2, letters([0], [0], ALL_S, ["q2", "L1", "L2"], WRAPS), slot_patterns(2)))
        sp.append(("n2-two-domains", 2, letters([0, 1], ALL_T, ALL_S, ["empty", "q2", "L1", "L2"], ["-"]), slot_patterns(2)))
        sp.append(("n3-selected", 3, letters([0], [0], ALL_S, MD_TINY, ["-"]), [(0, 1, 2), (0, 0, 1)]))
        sp.append(("n3-selected-types-cd", 3, letters([0], ALL_T, [0, 1, 3], ["q2", "L1"], ["-", "A"]), [(0, 1, 2)]))
    else:
        sp.append(("n2-two-domains", 2, full2, slot_patterns(2)))
        sp.append(("n3-one-domain", 3, letters([0], ALL_T, ALL_S, MD_SMALL, ["-", "A"]), [(0, 1, 2)]))
        sp.append(("n3-sharing-patterns", 3, letters([0], ALL_T, ALL_S, MD_TINY, ["-"]), slot_patterns(3)))
    return sp


def work(chunk):
    part = Part()
    sp = {name: (n, L, pats) for name, n, L, pats in spaces(chunk[0][2])}
    for name, first, quick in chunk:
        n, L, pats = sp[name]
        for rest in itertools.product(L, repeat=n - 1):
            lets = (L[first],) + rest
            for pat in pats:
                case = tuple(zip(lets, pat))
                check_case(case, part)
                if part.d["states"] % 5000 == 1:
                    part.sample({"case": case_str(case, True, "group")}, limit=2)
    return part.dict()


def norm_case(case):
    return tuple(((int(l[0]), int(l[1]), int(l[2]), str(l[3]), str(l[4])), int(s)) for l, s in case)


def replay(run):
    with open(run.args.replay) as f:
        wit = json.load(f)["witness"]
    case = norm_case(wit["case"])
    part = Part()
    check_case(case, part)
    run.merge(part.dict())
    run.rule = "replay of one form"
    run.finish()


def main(argv):
    run = Run(PID, argv)
    world()
    if run.args.replay:
        return replay(run)
    quick = not run.thorough()
    sp = spaces(quick)
    items = []
    sizes = {}
    for name, n, L, pats in sp:
        sizes[name] = {"n": n, "letters": len(L), "slot_patterns": len(pats), "forms": len(L) ** n * len(pats)}
        items += [(name, k, quick) for k in range(len(L))]
    parts = pmap(work, items, seed=run.seed, chunks_per_proc=8)
    # canonical (seed independent) choice of the witness kept per violation key: the smallest one
    viols = sorted(
        (v for d in parts for v in d["violations"]),
        key=lambda v: (v["key"], len(v["witness"]["case"]), json.dumps(v["witness"], sort_keys=True)),
    )
    for d in parts:
        d["violations"] = []
        run.merge(d)
    for v in viols:
        run.count("violating_inputs:" + v["key"].split(":")[0])
        run.violation(v["key"], v["what"], v["witness"])
    run.rule = (
        "every ordered n-tuple of letters (domain, integral type, subdomain id, metadata, coordinate-derivative "
        "wrapper) x every sharing pattern of integrand constants x both do_append_everywhere_integrals; a state is "
        "one (form, option) on which group_form_integrals' output totals were compared with the reference; "
        "non-trivial = at least two original integrals apply to a common (domain, type, subdomain) so a merge "
        "decision is exercised"
    )
    run.bounds = {
        "types": TYPES,
        "subdomain_ids": [str(s) for s in SIDS],
        "metadata": MDNAMES,
        "wrappers": WRAPS,
        "spaces": sizes,
        "not_covered": "extra_domain_integral_type_map (intersect measures), nested coordinate derivatives, n > 3",
    }
    run.exhaustive = True
    run.assumptions += [
        "metadata equality is the documented canonicalisation (key order irrelevant, list == tuple, None == {}) with exact leaves; values that differ only in Python type but print identically are not in the alphabet",
        "the integrand decoder knows Sum/Product/IntValue/FloatValue/Zero/Constant/CoordinateDerivative only; any other node in a grouped integrand is a harness error (exit 2), not a verdict",
    ]
    run.finish()
