"""C25 Sobolev space comparisons form a consistent partial order.

Complete enumeration of a finite universe U of Sobolev space objects (every predefined space of
ufl.sobolevspace plus DirectionalSobolevSpace(o) for all order tuples o of the stated alphabet), all
ordered pairs, all triples and all (synthetic element, space) membership questions.  Every comparison is
executed on the real operators (<, >, <=, >=, ==, !=, in); the results are checked

  (a) against the order laws of the statement, evaluated on the implementation's own relation, and
  (b) against a reference inclusion relation that is computed here from plain descriptors:
      predefined spaces by the transitive closure of the parents *declared in the source text*
      (extracted with ast, not from the run-time `.parents` attribute), directional spaces by the
      componentwise order of their order tuples, and the bridge Dir(k,...,k) == H^k that the code
      itself states in `DirectionalSobolevSpace.__getitem__/__eq__`.

Violation keys: "<law>/<kinds>:<a>|<b>[|<c>]" where kinds is one letter per operand (P = predefined,
D = directional), e.g. "gt-converse/PP:HDiv|HCurl".
"""

import ast
import itertools
import json
import operator
from math import inf

import ufl
import ufl.sobolevspace as S
from mc import elements as E
from mc.runner import Run
from ufl.pullback import identity_pullback

PID = "C25"

OPS = {
    "lt": operator.lt,
    "gt": operator.gt,
    "le": operator.le,
    "ge": operator.ge,
    "eq": operator.eq,
    "ne": operator.ne,
}
SYM = {"lt": "<", "gt": ">", "le": "<=", "ge": ">=", "eq": "==", "ne": "!="}

# Inclusions that hold mathematically beyond doubt (de Rham chain and the declared tensor spaces in L2).
# Used only one-directionally: these must be reported by `<`, and their converses must not.
CERTAIN = [
    ("HInf", "H3"),
    ("H3", "H2"),
    ("H2", "H1"),
    ("H1", "HDiv"),
    ("H1", "HCurl"),
    ("HDiv", "L2"),
    ("HCurl", "L2"),
    ("H1", "L2"),
    ("H2", "L2"),
    ("HInf", "L2"),
    ("H2", "HDiv"),
    ("H2", "HCurl"),
    ("H1Div", "H1"),
    ("H1Curl", "H1"),
    ("H2", "H1Div"),
    ("H2", "H1Curl"),
    ("HEin", "L2"),
    ("HDivDiv", "L2"),
    ("HCurlDiv", "L2"),
]
# the isotropic scale: Dir(k,...,k) is H^k (DirectionalSobolevSpace.__getitem__ table)
SCALE = {0: "L2", 1: "H1", 2: "H2", 3: "H3", inf: "HInf"}
PER_FAMILY_CAP = 6  # reporting cap per key family (the exact totals are in counters["fail:<family>"])
# witnesses that are always reported when they fail (the shortest statement of each known root cause)
PINNED = {
    "gt-converse/PP:HDiv|HCurl",
    "ge-converse/PP:HDiv|HCurl",
    "asym/DD:Dir(0,2)|Dir(2,0)",
    "ref-lt/DP:Dir(2,0)|H1",
    "nonbool-lt/DP:Dir(1,1)|HEin",
    "member-ref/PD:H1|Dir(0,1)",
    "member-ref/DP:Dir(2,2)|H1",
}


# -------------------------------------------------------------------------------------------------
# descriptors and universe
# -------------------------------------------------------------------------------------------------
def ordstr(o):
    return "inf" if o == inf else str(int(o))


def dname(desc):
    if desc[0] == "P":
        return desc[1]
    return "Dir(" + ",".join(ordstr(o) for o in desc[1]) + ")"


def kind(desc):
    return desc[0]


def ddim(desc):
    return len(desc[1]) if desc[0] == "D" else None


def build(desc):
    """Real UFL object of a descriptor."""
    if desc[0] == "P":
        return BYNAME[desc[1]]
    return S.DirectionalSobolevSpace(tuple(desc[1]))


def desc_json(desc):
    if desc[0] == "P":
        return ["P", desc[1]]
    return ["D", [ordstr(o) for o in desc[1]]]


def desc_from_json(j):
    if j[0] == "P":
        return ("P", j[1])
    return ("D", tuple(inf if o == "inf" else int(o) for o in j[1]))


def predefined_spaces():
    """All module-level SobolevSpace instances of ufl.sobolevspace (by variable name)."""
    out = {}
    for var, obj in sorted(vars(S).items()):
        if type(obj) is S.SobolevSpace:
            out[var] = obj
    return out


PREDEF = predefined_spaces()  # variable name -> object
BYNAME = {obj.name: obj for obj in PREDEF.values()}  # space name -> object


def declared_parents():
    """Direct parents as written in the source text: var = SobolevSpace("name", [p1, p2, ...])."""
    with open(S.__file__) as f:
        tree = ast.parse(f.read())
    decl = {}
    for node in tree.body:
        if not (isinstance(node, ast.Assign) and len(node.targets) == 1 and isinstance(node.targets[0], ast.Name)):
            continue
        v = node.value
        if not (isinstance(v, ast.Call) and isinstance(v.func, ast.Name) and v.func.id == "SobolevSpace"):
            continue
        if not v.args or not isinstance(v.args[0], ast.Constant):
            continue
        parents = []
        pnode = v.args[1] if len(v.args) > 1 else None
        for kw in v.keywords:
            if kw.arg == "parents":
                pnode = kw.value
        if pnode is not None:
            if not isinstance(pnode, (ast.List, ast.Tuple, ast.Set)):
                return None
            for p in pnode.elts:
                if not isinstance(p, ast.Name):
                    return None
                parents.append(p.id)
        decl[node.targets[0].id] = (v.args[0].value, parents)
    return decl


class Ref:
    """Reference inclusion relation on descriptors."""

    def __init__(self):
        decl = declared_parents()
        self.source = "ast"
        names = {var: obj.name for var, obj in PREDEF.items()}
        if decl is None or set(decl) != set(PREDEF) or any(decl[v][0] != names[v] for v in decl):
            # the module is not written as a plain list of declarations any more: fall back to run-time parents
            self.source = "runtime-parents"
            direct = {obj.name: {p.name for p in obj.parents} for obj in PREDEF.values()}
        else:
            direct = {decl[v][0]: {decl[p][0] for p in decl[v][1]} for v in decl}
        self.direct = direct
        # transitive closure (own code)
        up = {n: set(ps) for n, ps in direct.items()}
        changed = True
        while changed:
            changed = False
            for n in up:
                new = set()
                for p in up[n]:
                    new |= up.get(p, set())
                if not new <= up[n]:
                    up[n] |= new
                    changed = True
        self.up = up  # name -> set of names of proper superspaces

    # predefined by name
    def p_lt(self, a, b):
        return b in self.up.get(a, ())

    def p_le(self, a, b):
        return a == b or self.p_lt(a, b)

    def uniform(self, d):
        o = d[1]
        return all(x == o[0] for x in o)

    def eq(self, a, b):
        if a[0] == "P" and b[0] == "P":
            return a[1] == b[1]
        if a[0] == "D" and b[0] == "D":
            return a[1] == b[1]
        if a[0] == "P":
            a, b = b, a
        return self.uniform(a) and SCALE.get(a[1][0]) == b[1]

    def le(self, a, b):
        """a is a subspace of b (True/False); None if the dimensions of two directional spaces differ."""
        if a[0] == "P" and b[0] == "P":
            return self.p_le(a[1], b[1])
        if a[0] == "D" and b[0] == "D":
            if len(a[1]) != len(b[1]):
                return None
            return all(x >= y for x, y in zip(a[1], b[1]))
        if a[0] == "D":  # Dir(o) <= H^min(o) <= b
            return self.p_le(SCALE[min(a[1])], b[1])
        # a <= H^max(o) <= Dir(o)
        return self.p_le(a[1], SCALE[max(b[1])])

    def lt(self, a, b):
        le = self.le(a, b)
        if le is None:
            return None
        return le and not self.eq(a, b)


def universe(quick):
    descs = [("P", obj.name) for _, obj in sorted(PREDEF.items())]
    if quick:
        alph = {1: [0, 1, 2, inf], 2: [0, 1, 2, inf]}
    else:
        alph = {1: [0, 1, 2, 3, inf], 2: [0, 1, 2, 3, inf], 3: [0, 1, 2]}
    for d in sorted(alph):
        for o in itertools.product(alph[d], repeat=d):
            descs.append(("D", tuple(o)))
    return descs, {str(d): [ordstr(x) for x in a] for d, a in alph.items()}


# -------------------------------------------------------------------------------------------------
# executing the real operators
# -------------------------------------------------------------------------------------------------
def ev(op, a, b):
    """Outcome of `a op b` on the real objects: ("bool", v) | ("unknown", how) | ("nonbool", repr) | ("raise", type)."""
    try:
        r = OPS[op](a, b)
    except NotImplementedError:
        return ("unknown", "raises NotImplementedError")
    except Exception as e:  # noqa: BLE001
        return ("raise", type(e).__name__)
    if r is True or r is False:
        return ("bool", r)
    if isinstance(r, NotImplementedError) or r is NotImplemented:
        return ("nonbool", f"returns {r!r}")
    return ("nonbool", f"returns {r!r} of type {type(r).__name__}")


def ev_in(e, s):
    try:
        r = e in s
    except NotImplementedError:
        return ("unknown", "raises NotImplementedError")
    except Exception as e_:  # noqa: BLE001
        return ("raise", type(e_).__name__)
    return ("bool", r)  # `in` always coerces to bool


def bval(o):
    return o[1] if o[0] == "bool" else None


class Checker:
    def __init__(self, run, descs):
        self.run = run
        self.descs = descs
        self.objs = [build(d) for d in descs]
        self.names = [dname(d) for d in descs]
        self.ref = Ref()
        self.n = len(descs)
        self.T = {}  # (op, i, j) -> outcome
        self.fail = {}  # family -> list of (key, what, witness)

    # ---------------------------------------------------------------------------------------
    def vio(self, law, idx, what, extra=None):
        fam = law + "/" + "".join(kind(self.descs[i]) for i in idx)
        key = fam + ":" + "|".join(self.names[i] for i in idx)
        wit = {"law": law, "spaces": [desc_json(self.descs[i]) for i in idx]}
        if extra:
            wit.update(extra)
        self.fail.setdefault(fam, []).append((key, what, wit))

    def flush(self):
        run = self.run
        for fam in sorted(self.fail):
            uniq = {}
            for key, what, wit in self.fail[fam]:
                uniq.setdefault(key, (key, what, wit))
            items = [uniq[k] for k in sorted(uniq)]
            run.count("fail:" + fam, len(items))
            print(f"  failing family {fam}: {len(items)} distinct inputs, e.g. {items[0][1]}")
            for n, (key, what, wit) in enumerate(items):
                if n < PER_FAMILY_CAP or key in PINNED:
                    run.violation(key, what, wit)
        self.fail = {}

    # ---------------------------------------------------------------------------------------
    def tables(self, order):
        run = self.run
        for i in order:
            for j in order:
                for op in OPS:
                    o = ev(op, self.objs[i], self.objs[j])
                    self.T[(op, i, j)] = o
                    run.transitions += 1
                    run.outcomes.add((op, o[0], str(o[1])[:40]))
                    if o[0] in ("raise", "unknown"):
                        run.error(o[1] if o[0] == "raise" else "NotImplementedError")
        # determinism of the relation itself (second evaluation on fresh objects)
        fresh = [build(d) for d in self.descs]
        for i in order:
            for j in order:
                for op in ("lt", "eq"):
                    o = ev(op, fresh[i], self.objs[j])
                    run.transitions += 1
                    if o != self.T[(op, i, j)]:
                        self.vio(
                            "clone-" + op,
                            (i, j),
                            f"{self.names[i]} {SYM[op]} {self.names[j]} gives {self.T[(op, i, j)]} on one instance and {o} "
                            "on an equal, separately constructed instance",
                        )

    def unknown_pair(self, i, j):
        """The code declares the comparison of i and j unknown (some operator raises/returns NotImplementedError)."""
        for a, b in ((i, j), (j, i)):
            for op in ("lt", "gt", "le", "ge"):
                o = self.T[(op, a, b)]
                if o[0] == "unknown" or (o[0] == "nonbool" and "NotImplemented" in o[1]):
                    return True
        return False

    def mixed_dim(self, idx):
        dims = {ddim(self.descs[i]) for i in idx if kind(self.descs[i]) == "D"}
        return len(dims) > 1

    # ---------------------------------------------------------------------------------------
    def pair_laws(self):
        run, T, N = self.run, self.T, self.names
        ref = self.ref
        for i in range(self.n):
            for j in range(self.n):
                run.states += 1
                a, b = N[i], N[j]
                da, db = self.descs[i], self.descs[j]
                if da != db:
                    run.nontrivial += 1
                # no comparison returns a non-bool / raises something else than the declared "unknown"
                for op in OPS:
                    o = T[(op, i, j)]
                    run.evaluations += 1
                    if o[0] == "nonbool":
                        self.vio("nonbool-" + op, (i, j), f"{a} {SYM[op]} {b} {o[1]} instead of a bool (truthy: {o[1]})")
                    elif o[0] == "raise":
                        self.vio("raises-" + op, (i, j), f"{a} {SYM[op]} {b} raises {o[1]}")
                lt, gt, le, ge, eq, ne = (bval(T[(op, i, j)]) for op in ("lt", "gt", "le", "ge", "eq", "ne"))
                ltc, lec, eqc = bval(T[("lt", j, i)]), bval(T[("le", j, i)]), bval(T[("eq", j, i)])
                # irreflexivity / reflexivity on the diagonal
                if i == j:
                    run.evaluations += 3
                    if lt:
                        self.vio("irreflexive", (i,), f"{a} < {a} is True")
                    if eq is False:
                        self.vio("eq-reflexive", (i,), f"{a} == {a} is False")
                    if le is False or ge is False:
                        self.vio("le-reflexive", (i,), f"{a} <= {a} is {le}, {a} >= {a} is {ge}")
                # asymmetry (reported once per unordered pair)
                if i < j and lt and ltc:
                    self.vio("asym", (i, j), f"{a} < {b} and {b} < {a} are both True")
                run.evaluations += 6
                # a > b <=> b < a
                if gt is not None and ltc is not None and gt != ltc:
                    self.vio("gt-converse", (i, j), f"({a} > {b}) is {gt} but ({b} < {a}) is {ltc}")
                # a <= b <=> a < b or a == b
                if le is not None and lt is not None and eq is not None and le != (lt or eq):
                    self.vio("le-def", (i, j), f"({a} <= {b}) is {le} but ({a} < {b}) is {lt} and ({a} == {b}) is {eq}")
                # a >= b <=> b <= a
                if ge is not None and lec is not None and ge != lec:
                    self.vio("ge-converse", (i, j), f"({a} >= {b}) is {ge} but ({b} <= {a}) is {lec}")
                # == symmetric, != is its negation, a == b excludes a < b
                if eq is not None and eqc is not None and eq != eqc:
                    self.vio("eq-symmetric", (i, j), f"({a} == {b}) is {eq} but ({b} == {a}) is {eqc}")
                if eq is not None and ne is not None and eq == ne:
                    self.vio("ne-def", (i, j), f"({a} == {b}) is {eq} and ({a} != {b}) is {ne}")
                if eq and lt:
                    self.vio("eq-excludes-lt", (i, j), f"{a} == {b} and {a} < {b} are both True")
                # reference
                if self.unknown_pair(i, j):
                    run.count("pairs_declared_unknown_by_code")
                    continue
                rlt, req = ref.lt(da, db), ref.eq(da, db)
                if rlt is None:  # directional spaces of different dimension: the code answers False, so do we
                    rlt = False
                    run.count("pairs_mixed_dimension")
                run.validated += 2
                if lt is not None and lt != rlt:
                    self.vio(
                        "ref-lt",
                        (i, j),
                        f"({a} < {b}) is {lt}; reference (declared parents closed transitively / componentwise orders): {rlt}",
                    )
                if eq is not None and eq != req:
                    self.vio("ref-eq", (i, j), f"({a} == {b}) is {eq}; reference: {req}")
        # mathematically certain inclusions
        byname = {d[1]: k for k, d in enumerate(self.descs) if d[0] == "P"}
        for x, y in CERTAIN:
            if x in byname and y in byname:
                i, j = byname[x], byname[y]
                run.validated += 1
                if bval(T[("lt", i, j)]) is not True or bval(T[("lt", j, i)]) is not False:
                    self.vio(
                        "certain-inclusion",
                        (i, j),
                        f"{x} is a proper subspace of {y}, but ({x} < {y}) is {T[('lt', i, j)]} and ({y} < {x}) is {T[('lt', j, i)]}",
                    )
            else:
                run.count("certain_inclusions_not_in_module")

    # ---------------------------------------------------------------------------------------
    def triple_laws(self):
        run, T, N = self.run, self.T, self.names
        n = self.n
        LT = [[bval(T[("lt", i, j)]) for j in range(n)] for i in range(n)]
        EQ = [[bval(T[("eq", i, j)]) for j in range(n)] for i in range(n)]
        for i in range(n):
            for j in range(n):
                lij, eij = LT[i][j], EQ[i][j]
                for k in range(n):
                    run.states += 1
                    active = False
                    mixed = self.mixed_dim((i, j, k))
                    bad = []
                    if lij and LT[j][k]:
                        active = True
                        if LT[i][k] is False:
                            bad.append(("trans", f"{N[i]} < {N[j]} and {N[j]} < {N[k]} but ({N[i]} < {N[k]}) is False"))
                    if eij and EQ[j][k]:
                        if len({i, j, k}) == 3:
                            active = True
                        if EQ[i][k] is False:
                            bad.append(("eq-trans", f"{N[i]} == {N[j]} and {N[j]} == {N[k]} but ({N[i]} == {N[k]}) is False"))
                    if eij and i != j:
                        active = True
                        if LT[i][k] is not None and LT[j][k] is not None and LT[i][k] != LT[j][k]:
                            bad.append(
                                ("eq-congruence-left", f"{N[i]} == {N[j]} but ({N[i]} < {N[k]}) is {LT[i][k]} and ({N[j]} < {N[k]}) is {LT[j][k]}")
                            )
                        if LT[k][i] is not None and LT[k][j] is not None and LT[k][i] != LT[k][j]:
                            bad.append(
                                ("eq-congruence-right", f"{N[i]} == {N[j]} but ({N[k]} < {N[i]}) is {LT[k][i]} and ({N[k]} < {N[j]}) is {LT[k][j]}")
                            )
                    run.evaluations += 4
                    if active:
                        run.nontrivial += 1
                        run.validated += 1
                    for law, what in bad:
                        if mixed:
                            # directional spaces of two different dimensions meet only through the dimension-agnostic
                            # predefined spaces; no reference meaning is claimed for such triples
                            run.count("mixed_dimension_triples_failing_" + law)
                        else:
                            self.vio(law, (i, j, k), what)

    # ---------------------------------------------------------------------------------------
    def membership(self):
        run, N = self.run, self.names
        ref = self.ref
        tri = ufl.triangle
        elems = []  # (label, space index, element)
        for k, obj in enumerate(self.objs):
            elems.append(("Synth", k, E.Elem("Synth", tri, 1, (), identity_pullback, obj)))
        byname = {d[1]: k for k, d in enumerate(self.descs) if d[0] == "P"}
        for label, el in (
            ("P", E.P("triangle", 1)),
            ("P-vector", E.P("triangle", 2, (2,))),
            ("DG", E.DG("triangle", 0)),
            ("RT", E.RT("triangle", 1)),
            ("N1curl", E.N1curl("triangle", 1)),
            ("DGpiola", E.DGpiola("triangle", 0)),
            ("Regge", E.Regge("triangle", 1)),
            ("HHJ", E.HHJ("triangle", 1)),
            ("CovContra", E.CovContra("triangle", 1)),
        ):
            nm = el.sobolev_space.name
            if nm in byname:
                elems.append((label, byname[nm], el))
        run.bounds["elements"] = len(elems)
        for label, k, el in elems:
            for j in range(self.n):
                o = ev_in(el, self.objs[j])
                run.transitions += 1
                run.states += 1
                run.nontrivial += 1
                run.outcomes.add(("in", o[0], str(o[1])))
                if o[0] == "unknown":
                    run.error("NotImplementedError")
                    run.count("membership_declared_unknown_by_code")
                    continue
                if o[0] == "raise":
                    run.error(o[1])
                    self.vio("member-raises", (k, j), f"(element with sobolev_space {N[k]}) in {N[j]} raises {o[1]}", {"element": label})
                    continue
                got = o[1]
                if self.mixed_dim((k, j)):
                    run.count("membership_mixed_dimension_skipped")
                    continue
                run.evaluations += 2
                # consistency with the implementation's own <=
                le = bval(self.T[("le", k, j)])
                if le is not None:
                    run.validated += 1
                    if got != le:
                        self.vio(
                            "member-le",
                            (k, j),
                            f"(element with sobolev_space {N[k]}) in {N[j]} is {got} but ({N[k]} <= {N[j]}) is {le}",
                            {"element": label},
                        )
                # consistency with the reference inclusion
                if not self.unknown_pair(k, j):
                    rle = ref.le(self.descs[k], self.descs[j])
                    run.validated += 1
                    if got != rle:
                        self.vio(
                            "member-ref",
                            (k, j),
                            f"(element with sobolev_space {N[k]}) in {N[j]} is {got}; reference inclusion {N[k]} <= {N[j]}: {rle}",
                            {"element": label},
                        )
        # `space in space` must refuse (documented TypeError), never answer
        for i in range(self.n):
            for j in range(self.n):
                run.transitions += 1
                try:
                    r = self.objs[i] in self.objs[j]
                    run.outcomes.add(("space-in-space", "answers", str(r)))
                    run.count("space_in_space_answered")
                except TypeError:
                    run.error("TypeError")
                    run.outcomes.add(("space-in-space", "TypeError", ""))


def main(argv):
    try:
        _main(argv)
    except Exception:  # harness/internal error: exit 2, never a VIOLATION line
        import sys
        import traceback

        traceback.print_exc()
        sys.exit(2)


def _main(argv):
    run = Run(PID, argv)
    if run.args.replay:
        return replay(run)
    quick = not run.thorough()
    descs, alph = universe(quick)
    ck = Checker(run, descs)
    order = list(range(len(descs)))
    if run.seed:
        import random

        random.Random(run.seed).shuffle(order)  # only the execution order depends on the seed
    ck.tables(order)
    ck.pair_laws()
    ck.triple_laws()
    ck.membership()
    ck.flush()
    n = len(descs)
    npre = sum(1 for d in descs if d[0] == "P")
    for d in descs[:npre][:3] + descs[npre + 5 : npre + 8]:
        i = descs.index(d)
        j = (i * 7 + 3) % n
        run.sample(
            {
                "a": dname(d),
                "b": ck.names[j],
                **{SYM[op]: list(ck.T[(op, i, j)]) for op in OPS},
                "reference a<b": ck.ref.lt(d, descs[j]),
            }
        )
    run.bounds.update(
        predefined=[d[1] for d in descs if d[0] == "P"],
        directional_orders_by_dimension=alph,
        spaces=n,
        ordered_pairs=n * n,
        triples=n**3,
        operators=sorted(OPS),
        reference_source=ck.ref.source,
        reference_direct_parents={k: sorted(v) for k, v in ck.ref.direct.items()},
        reporting_cap_per_key_family=PER_FAMILY_CAP,
    )
    run.rule = (
        "every ordered pair and every triple of the universe (all predefined spaces + all directional spaces over the "
        "stated order alphabet) and every (synthetic element, space) pair; a pair is non-trivial if the two descriptors "
        "differ, a triple if the premise of transitivity / ==-transitivity / ==-congruence holds in the implementation, "
        "every membership question is non-trivial"
    )
    run.assumptions += [
        "reference inclusion: transitive closure of the parents declared in the source text of ufl/sobolevspace.py; "
        "directional spaces of equal dimension are ordered componentwise (more derivatives = smaller space); "
        "Dir(k,...,k) is H^k as stated by DirectionalSobolevSpace.__getitem__/__eq__, hence Dir(o) <= X iff H^min(o) <= X "
        "and X <= Dir(o) iff X <= H^max(o)",
        "pairs for which the code itself declares the answer unknown (NotImplementedError raised or returned, in either "
        "direction) are excluded from the reference comparison only",
        "directional spaces of different dimension are only checked pairwise (the code answers 'unrelated'); triples and "
        "membership questions mixing two dimensions are executed and counted but carry no verdict",
        "violations are reported up to %d per key family; exact totals are in counters 'fail:<family>'" % PER_FAMILY_CAP,
    ]
    run.exhaustive = True
    run.finish()


def replay(run):
    with open(run.args.replay) as f:
        rp = json.load(f)
    wit = rp["witness"]
    descs = [desc_from_json(j) for j in wit["spaces"]]
    # re-run all laws on the small universe made of the witness spaces (plus L2 so that the closure has a root)
    uni = []
    for d in descs + [("P", "L2")]:
        if d not in uni:
            uni.append(d)
    ck = Checker(run, uni)
    ck.tables(list(range(len(uni))))
    ck.pair_laws()
    ck.triple_laws()
    ck.membership()
    fam_key = rp["key"]
    hit = False
    for fam, items in ck.fail.items():
        for key, what, w in items:
            if key == fam_key:
                hit = True
                print("reproduced:", what)
                run.violation(key, what, w)
    ck.fail = {}
    if not hit:
        print("not reproduced:", fam_key)
    run.finish()
