"""C28 Base-form algebra has the semantics of the linear maps it denotes.

Explicit-state BFS over recipes (compositions of Matrix / Cofunction / Coargument / Form / ZeroBaseForm
atoms with +, -, scalar*, FormSum, Action/action, Adjoint/adjoint, derivative). Every type-correct recipe
is executed on the real constructors; the resulting object is (i) asked for arguments()/coefficients()
and (ii) assembled structurally on a finite-dimensional model (mc.props.c28_model.Interp); both are
compared with the meaning of the recipe under argument contraction (c28_model.meval).

Violation keys: "<kind>:<recipe>[ #tag]" with kind in {arguments, coefficients, tensor, exception-on-valid}.
"""

import hashlib
import json

import numpy as np

from mc import elements as E
from mc import envs as EV
from mc.props import c28_model as MD
from mc.runner import Part, Run, pmap

PID = "C28"

FORM_ATOMS = ["M", "M2", "N", "B", "K", "c", "c2", "d", "a", "aM", "aN", "L", "J", "Z2", "Z1", "Z0", "ZVV", "ZB", "cV", "cW"]
OPERAND_ATOMS = ["u", "u2", "w", "upu2", "v0", "v1", "w0", "w1", "uz", "zero"]
SCALARS = ["2", "-1", "0.5", "0", "1", "k", "1j"]
VARS = ["f", "u", "c"]
L3_ATOMS = ["M", "B", "K", "c", "a", "L", "Z2", "u", "w", "upu2", "v1", "cV"]
WPAIRS = [("1", "1"), ("2", "-1"), ("0", "2"), ("0.5", "k"), ("0", "0"), ("1j", "1")]


# =====================================================================================================
# universe (real UFL objects)
# =====================================================================================================
def universe():
    import ufl
    from ufl.form import ZeroBaseForm

    m = EV.mesh("interval")
    V = ufl.FunctionSpace(m, E.P("interval", 1))
    W = ufl.FunctionSpace(m, E.P("interval", 2))
    t = {}
    t["M"] = ufl.Matrix(V, W)
    t["M2"] = ufl.Matrix(V, W)
    t["N"] = ufl.Matrix(W, V)
    t["B"] = ufl.Matrix(V, W.dual())
    t["K"] = ufl.Matrix(W, V.dual())
    t["c"] = ufl.Cofunction(V.dual())
    t["c2"] = ufl.Cofunction(V.dual())
    t["d"] = ufl.Cofunction(W.dual())
    t["u"] = ufl.Coefficient(V)
    t["u2"] = ufl.Coefficient(V)
    t["w"] = ufl.Coefficient(W)
    t["f"] = ufl.Coefficient(V)
    t["k"] = ufl.Constant(m)
    v0, v1 = ufl.TestFunction(V), ufl.TrialFunction(V)
    w0, w1 = ufl.TestFunction(W), ufl.TrialFunction(W)
    t.update(v0=v0, v1=v1, w0=w0, w1=w1)
    f, k, u = t["f"], t["k"], t["u"]
    t["a"] = f * v1 * v0 * ufl.dx
    t["aM"] = (f + k) * w1 * v0 * ufl.dx
    t["aN"] = v1 * w0 * ufl.dx
    t["L"] = f * v0 * ufl.dx
    t["J"] = f * f * u * ufl.dx
    t["Z2"] = ZeroBaseForm((v0, w1))
    t["Z1"] = ZeroBaseForm((v0,))
    t["Z0"] = ZeroBaseForm(())
    t["ZVV"] = ZeroBaseForm((v0, v1))
    t["ZB"] = ZeroBaseForm((v0, ufl.Coargument(W.dual(), 1)))
    t["cV"] = ufl.Coargument(V.dual(), 1)
    t["cW"] = ufl.Coargument(W.dual(), 1)
    t["upu2"] = t["u"] + t["u2"]
    t["uz"] = ufl.constantvalue.Zero()
    t["zero"] = 0
    s = {"2": 2, "-1": -1, "0.5": 0.5, "0": 0, "1": 1, "1j": 1j, "k": k}
    return {"t": t, "s": s, "spaces": {"V": V, "W": W}}


class OutsideFilter(Exception):
    """The composition is outside the type filter for a reason only visible on the real objects."""


def has_unevaluated_derivative(o, depth=0):
    from ufl.action import Action
    from ufl.adjoint import Adjoint
    from ufl.differentiation import BaseFormDerivative
    from ufl.form import FormSum

    if isinstance(o, BaseFormDerivative):
        return True
    if isinstance(o, FormSum):
        return any(has_unevaluated_derivative(c) for c in o.components())
    if isinstance(o, Action | Adjoint):
        return any(has_unevaluated_derivative(c) for c in o.ufl_operands)
    return False


def action_operands(r, U):
    x, y = build(r[1], U), build(r[2], U)
    if has_unevaluated_derivative(x) or has_unevaluated_derivative(y):
        # Action strips an unevaluated derivative before matching spaces (ufl/action.py
        # _check_function_spaces) but not when contracting arguments: which slot is contracted is
        # not defined by the documentation
        raise OutsideFilter("unevaluated_derivative_as_Action_operand")
    return x, y


def _no_raw_derivative(x):
    from ufl.differentiation import BaseFormDerivative

    if isinstance(x, BaseFormDerivative):
        # the hybrid Expr/BaseForm class inherits the Expr operators: +,-,* on it are not base-form algebra
        raise OutsideFilter("python_operator_on_unevaluated_derivative")
    return x


def contains_form(o):
    from ufl.form import Form

    if isinstance(o, Form):
        return True
    ops = getattr(o, "ufl_operands", ())
    if isinstance(ops, tuple | list) and not isinstance(o, ufl_expr()):
        return any(contains_form(c) for c in ops)
    return False


def ufl_expr():
    from ufl.core.expr import Expr

    return Expr


def build(r, U):
    """Execute a recipe on the real API."""
    import ufl

    op = r[0]
    if op == "t":
        return U["t"][r[1]]
    if op == "neg":
        return -_no_raw_derivative(build(r[1], U))
    if op == "add":
        return _no_raw_derivative(build(r[1], U)) + _no_raw_derivative(build(r[2], U))
    if op == "sub":
        return _no_raw_derivative(build(r[1], U)) - _no_raw_derivative(build(r[2], U))
    if op == "smul":
        return U["s"][r[1]] * _no_raw_derivative(build(r[2], U))
    if op == "fs1":
        return ufl.FormSum((build(r[1], U), U["s"][r[2]]))
    if op == "fs2":
        return ufl.FormSum((build(r[1], U), U["s"][r[2]]), (build(r[3], U), U["s"][r[4]]))
    if op == "Act":
        return ufl.Action(*action_operands(r, U))
    if op == "act":
        return ufl.action(*action_operands(r, U))
    if op == "Adj":
        return ufl.Adjoint(build(r[1], U))
    if op == "adj":
        return ufl.adjoint(build(r[1], U))
    if op == "der":
        return ufl.derivative(build(r[1], U), U["t"][r[2]])
    if op == "dex":
        from ufl.algorithms import expand_derivatives

        return expand_derivatives(ufl.derivative(build(r[1], U), U["t"][r[2]]))
    raise KeyError(op)


def show(r):
    op = r[0]
    if op == "t":
        return {"zero": "0", "uz": "Zero()", "upu2": "(u+u2)"}.get(r[1], r[1])
    if op == "neg":
        return f"-({show(r[1])})"
    if op == "add":
        return f"({show(r[1])} + {show(r[2])})"
    if op == "sub":
        return f"({show(r[1])} - {show(r[2])})"
    if op == "smul":
        return f"{r[1]}*{show(r[2])}"
    if op == "fs1":
        return f"FormSum(({show(r[1])}, {r[2]}))"
    if op == "fs2":
        return f"FormSum(({show(r[1])}, {r[2]}), ({show(r[3])}, {r[4]}))"
    if op == "Act":
        return f"Action({show(r[1])}, {show(r[2])})"
    if op == "act":
        return f"action({show(r[1])}, {show(r[2])})"
    if op == "Adj":
        return f"Adjoint({show(r[1])})"
    if op == "adj":
        return f"adjoint({show(r[1])})"
    if op == "der":
        return f"derivative({show(r[1])}, {r[2]})"
    if op == "dex":
        return f"expand_derivatives(derivative({show(r[1])}, {r[2]}))"
    raise KeyError(op)


def atoms_of(r, acc=None):
    acc = set() if acc is None else acc
    if r[0] == "t":
        acc.add(r[1])
    else:
        for x in r[1:]:
            if isinstance(x, tuple):
                atoms_of(x, acc)
            else:
                acc.add(x)
    return acc


def uses_complex(r):
    return "1j" in atoms_of(r)


# =====================================================================================================
# typing of candidates (parent side): kinds and slots only
# =====================================================================================================
# =====================================================================================================
# the check of one recipe
# =====================================================================================================
FATAL = (KeyboardInterrupt, SystemExit, MemoryError)


def exc_sig(e):
    """Exception type and sanitised message: the observable symptom used to tag violation keys."""
    import re

    msg = re.sub(r"[^A-Za-z_ ']", "", str(e))[:60].strip()
    return type(e).__name__ + (":" + msg if msg else "")


class Checker:
    def __init__(self, U):
        self.U = U
        self.I = MD.Interp(U)
        self.envs = [MD.make_env(False), MD.make_env(True)]

    # ---------------------------------------------------------------------------------------------
    def violation(self, part, kind, r, tag, what, extra):
        key = f"{kind}:{show(r)}" + (f" #{tag}" if tag else "")
        wit = {"recipe": r, "show": show(r), "kind": kind, "tag": tag}
        wit.update(extra)
        part.violation(key, f"[{kind}{' ' + tag if tag else ''}] {what}: {show(r)}", wit)

    def describe_args(self, args):
        out = []
        for a in args:
            try:
                s = self.I.space_name.get(a.ufl_function_space(), "?")
            except BaseException as e:  # noqa: BLE001
                if isinstance(e, FATAL):
                    raise
                s = "?"
            num = a.number() if hasattr(a, "number") else None
            prt = a.part() if hasattr(a, "part") else None
            out.append((type(a).__name__, s, num, prt))
        return out

    # ---------------------------------------------------------------------------------------------
    def run_invalid(self, r, part):
        """Type-incorrect composition: any outcome is accepted; record what UFL does."""
        part.inc("transitions")
        try:
            obj = build(r, self.U)
        except BaseException as e:  # noqa: BLE001
            if isinstance(e, FATAL):
                raise
            part.error(type(e).__name__)
            part.count("illtyped_rejected")
            return
        part.count("illtyped_accepted_silently")
        part.outcome(("illtyped", type(obj).__name__))

    def check(self, r, part):
        """Returns a state tuple or None."""
        typ = MD.mtype(r)
        if typ is None:
            self.run_invalid(r, part)
            return None
        part.inc("transitions")
        # model values first (harness errors propagate)
        mvs = [MD.meval(r, env) for env in self.envs]
        kind = typ[0]
        try:
            obj = build(r, self.U)
        except OutsideFilter as e:
            part.count("outside_filter_" + str(e))
            return None
        except BaseException as e:  # noqa: BLE001
            if isinstance(e, FATAL):
                raise
            en = type(e).__name__
            part.error(en)
            if isinstance(e, NotImplementedError):
                part.count("unsupported_NotImplementedError")
                return None
            if isinstance(e, RecursionError):
                part.inc("validated")
                self.violation(part, "tensor", r, "cyclic", "constructing the composition hits a self-referential object", {})
                return None
            if self.zero_form_operand(r):
                # legacy: a Form that is identically zero carries no arguments; what follows is not defined
                part.count("exception_with_zero_Form_operand")
                return None
            self.violation(
                part, "exception-on-valid", r, exc_sig(e), f"type-correct composition raises {en}: {str(e)[:200]}",
                {"exception": en, "message": str(e)[:500], "model_slots": list(typ[1])},
            )
            return None
        if kind in ("arg", "coef"):
            exp = self.U["t"][typ[2]]
            part.inc("validated")
            ok = obj is exp
            if not ok:
                try:
                    ok = bool(obj == exp) and type(obj) is type(exp)
                except BaseException as e:  # noqa: BLE001
                    if isinstance(e, FATAL):
                        raise
                    ok = False
            if not ok:
                self.violation(part, "tensor", r, None, f"identity composition should return {typ[2]}", {"got": repr(obj)[:500]})
            part.outcome(("identity", kind, typ[2]))
            return None
        if kind != "form":
            return None
        from ufl.form import BaseForm, Form

        mT = [np.asarray(mv.T) for mv in mvs]
        model_zero = all(not np.any(T) for T in mT)
        slots = typ[1]
        if not isinstance(obj, BaseForm):
            import ufl

            part.inc("validated")
            if model_zero and (isinstance(obj, ufl.constantvalue.Zero) or (isinstance(obj, int | float) and obj == 0)):
                part.count("zero_result_not_a_base_form")
                return None
            if isinstance(obj, ufl.Argument) and len(slots) == 2 and slots[0] == MD.dual(slots[1]):
                # documented: a Coargument/Argument is the identity; Adjoint(Coargument) is its primal Argument
                if all(T.shape[0] == T.shape[1] and np.allclose(T, np.eye(T.shape[0])) for T in mT):
                    part.count("identity_result_as_Argument")
                    return None
            if isinstance(obj, ufl.core.expr.Expr) and not isinstance(obj, ufl.Argument) and len(slots) == 1:
                # documented in map_integrands: simplification may turn a base form into an Expr (element of
                # the primal space seen as a functional on the dual space)
                try:
                    vecs = [self.I.expr_vector(obj, env) for env in self.envs]
                except MD.ModelGap:
                    vecs = None
                if vecs and all(s_ == slots and np.allclose(np.asarray(T_), mt_) for (s_, T_), mt_ in zip(vecs, mT)):
                    part.count("primal_result_as_Expr")
                    return None
            self.violation(part, "tensor", r, "not-a-base-form", f"result is a {type(obj).__name__}, not a BaseForm", {"got": repr(obj)[:500]})
            return None
        # ---- structural assembly of the result
        lost_args = False
        res = []
        try:
            for env in self.envs:
                res.append(self.I.interp(obj, env))
        except MD.Malformed as e:
            part.inc("validated")
            self.violation(part, "tensor", r, "malformed", f"result is not a well-formed multilinear map ({e})", {"result": repr(obj)[:800]})
            return None
        except RecursionError:
            part.inc("validated")
            self.violation(part, "tensor", r, "cyclic", f"result is a self-referential (cyclic) {type(obj).__name__}", {})
            return None
        from ufl.form import FormSum

        only_forms = type(obj) is Form or (type(obj) is FormSum and all(type(c) is Form for c in obj.components()))
        zero_form = only_forms and model_zero and all(MD._is_zero(T) for _, T in res)
        if type(obj) is FormSum:
            for c in obj.components():
                if type(c) is Form and len(self.I.form_axes(c)[0]) < len(slots):
                    lost_args = True
                    part.count("FormSum_with_zero_Form_component")
        bad = False
        # ---- arguments()
        exp_args = [("Coargument" if MD.is_dual_space(s) else "Argument", s, i, None) for i, s in enumerate(slots)]
        try:
            got_args = self.describe_args(obj.arguments())
        except BaseException as e:  # noqa: BLE001
            if isinstance(e, FATAL):
                raise
            got_args = None
            bad = True
            self.violation(part, "arguments", r, "raises " + exc_sig(e), f"arguments() raises {type(e).__name__}: {str(e)[:200]}", {"expected": exp_args})
        if got_args is not None:
            if zero_form and len(got_args) < len(exp_args):
                part.count("zero_Form_lost_arguments")
                lost_args = True
            else:
                structural = [(c, s) for c, s, _, _ in got_args] != [(c, s) for c, s, _, _ in exp_args]
                if structural:
                    bad = True
                    self.violation(part, "arguments", r, None, f"arguments() = {got_args}, argument contraction gives {exp_args}",
                                   {"expected": exp_args, "got": got_args, "result": repr(obj)[:600]})
                elif got_args != exp_args and atoms_of(r) & {"v0", "v1", "w0", "w1"}:
                    # which number the slot left open by an identity Argument carries is not determined
                    part.count("numbering_undetermined_identity_argument")
                    lost_args = True  # checked, but not used as an operand of deeper compositions
                elif got_args != exp_args:
                    bad = True
                    self.violation(part, "arguments", r, "numbering", f"arguments() = {got_args}, canonical numbering gives {exp_args}",
                                   {"expected": exp_args, "got": got_args, "result": repr(obj)[:600]})
        # ---- ufl_function_spaces() of Action (documented as the contracted spaces)
        from ufl.action import Action

        if type(obj) is Action and got_args is not None and not bad:
            try:
                fs = obj.ufl_function_spaces()
            except BaseException as e:  # noqa: BLE001
                if isinstance(e, FATAL):
                    raise
                fs = None
                part.count("Action.ufl_function_spaces_raises_" + type(e).__name__)
            if fs is None:
                part.count("Action.ufl_function_spaces_unavailable")
            else:
                names = [self.I.space_name.get(S, "?") for S in fs]
                if names != list(slots):
                    bad = True
                    self.violation(part, "arguments", r, "ufl_function_spaces", f"Action.ufl_function_spaces() = {names}, arguments live in {list(slots)}",
                                   {"expected": list(slots), "got": names})
        # ---- coefficients()
        try:
            got = obj.coefficients()
            names = [self.I.coef_name(c) for c in got]
        except MD.ModelGap:
            raise
        except BaseException as e:  # noqa: BLE001
            if isinstance(e, FATAL):
                raise
            names = None
            bad = True
            self.violation(part, "coefficients", r, "raises " + exc_sig(e), f"coefficients() raises {type(e).__name__}: {str(e)[:200]}", {})
        if names is not None:
            dep = self.dependence(r, mT[0])
            missing = sorted(dep - set(names))
            if missing:
                bad = True
                self.violation(part, "coefficients", r, None, f"the map depends on {missing} but coefficients() = {names}",
                               {"missing": missing, "got": names, "result": repr(obj)[:600]})
            else:
                leaves, upper = set(), set()
                self.I.coefficient_leaves(obj, leaves, set())
                self.I.coefficient_leaves(obj, upper, set(), bound=True)
                extra = sorted(set(names) - upper)
                lost = sorted(leaves - set(names))
                if lost:
                    bad = True
                    self.violation(part, "coefficients", r, "structural", f"result contains {lost} but coefficients() = {names}",
                                   {"missing": lost, "got": names, "result": repr(obj)[:600]})
                elif extra:
                    bad = True
                    self.violation(part, "coefficients", r, "extra", f"coefficients() = {names} but the result only contains {sorted(leaves)}",
                                   {"extra": extra, "got": names, "result": repr(obj)[:600]})
                elif len(set(names)) != len(names):
                    part.count("coefficients_with_duplicates")
        # ---- tensor
        part.inc("validated")
        for ei, (env, (islots, T), mt) in enumerate(zip(self.envs, res, mT)):
            part.inc("evaluations")
            T = np.asarray(T)
            if zero_form and T.shape != mt.shape:
                continue
            if T.shape != mt.shape:
                if not bad:
                    bad = True
                    self.violation(part, "tensor", r, "shape", f"assembled result has shape {T.shape} (slots {list(islots)}), recipe denotes {mt.shape} (slots {list(slots)})",
                                   {"result": repr(obj)[:600]})
                break
            scale = max(1.0, float(np.max(np.abs(mt))) if mt.size else 1.0)
            if not np.allclose(T, mt, rtol=0, atol=1e-9 * scale):
                tag = "complex" if (ei == 1 or uses_complex(r)) else None
                bad = True
                self.violation(part, "tensor", r, tag, "assembled result differs from the map denoted by the recipe",
                               {"env": "complex" if ei else "real", "expected": _tolist(mt), "got": _tolist(T), "result": repr(obj)[:800]})
                break
        if bad or lost_args:
            return None
        key = hashlib.sha1(repr(obj).encode()).hexdigest()
        nontrivial = not model_zero
        try:
            h = hash(obj)
        except BaseException as e:  # noqa: BLE001
            if isinstance(e, FATAL):
                raise
            h = None
        digest = hashlib.sha1((np.round(mT[1], 6) + (0.0 + 0.0j)).tobytes()).hexdigest()[:12]  # (+0: no -0.0)
        part.outcome((type(obj).__name__, slots, nontrivial))
        return (r, typ, key, nontrivial, type(obj).__name__, h, digest)

    def zero_form_operand(self, r):
        for x in r[1:]:
            if not isinstance(x, tuple):
                continue
            try:
                mv = MD.meval(x, self.envs[1])
                if mv.kind != "form" or np.any(np.asarray(mv.T)):
                    continue
                if contains_form(build(x, self.U)):
                    return True
            except BaseException as e:  # noqa: BLE001
                if isinstance(e, FATAL):
                    raise
        return False

    def dependence(self, r, base):
        """Names of coefficients the map denoted by the recipe depends on (observed by perturbation)."""
        at = atoms_of(r)
        cands = set()
        for n in MD.BUMP:
            if n in at:
                cands.add(n)
        if at & {"a", "aM", "L", "J"}:
            cands.add("f")
        if "J" in at:
            cands.add("u")
        if "upu2" in at:
            cands |= {"u", "u2"}
        out = set()
        for n in sorted(cands):
            T2 = np.asarray(MD.meval(r, MD.make_env(False, bump=n)).T)
            if T2.shape != base.shape or not np.allclose(T2, base, rtol=0, atol=1e-9):
                out.add(n)
        return out


def _tolist(T):
    T = np.asarray(T)
    if np.all(np.imag(T) == 0):
        return np.real(T).tolist()
    return [str(z) for z in T.reshape(-1)]


# =====================================================================================================
# candidate generation
# =====================================================================================================
def unary_candidates(r, typ, scalars, variables):
    out = [("neg", r)]
    for s in scalars:
        out.append(("smul", s, r))
        out.append(("fs1", r, s))
    out += [("Adj", r), ("adj", r)]
    for v in variables:
        out.append(("der", r, v))
        out.append(("dex", r, v))
    return out


def binary_candidates(rx, ry, wpairs, ops=("add", "sub", "Act", "act", "fs2")):
    out = []
    for op in ops:
        if op == "fs2":
            for s, t in wpairs:
                out.append(("fs2", rx, s, ry, t))
        else:
            out.append((op, rx, ry))
    return out


def well_typed(r):
    """Full (model based) type check of a recipe."""
    if r[0] in ("act", "adj"):
        # the functions document a form as first operand and a coefficient-like second operand
        tx = MD.mtype(r[1])
        if tx is None or tx[0] != "form":
            return False
        if r[0] == "act":
            ty = MD.mtype(r[2])
            if ty is None or ty[0] not in ("form", "coef") or r[2] == ("t", "upu2"):
                return False
    return MD.mtype(r) is not None


class Typer:
    """Type-level validity of a composition from the operand types only (cached on representative recipes)."""

    def __init__(self):
        self.rep = {}
        self.cache = {}

    def register(self, r, typ):
        self.rep.setdefault(typ, r)

    def valid(self, op, tx, ty):
        k = (op, tx, ty)
        v = self.cache.get(k)
        if v is None:
            rx, ry = self.rep[tx], self.rep[ty]
            probe = ("fs2", rx, "1", ry, "1") if op == "fs2" else (op, rx, ry)
            v = self.cache[k] = well_typed(probe)
        return v

    def unary(self, r, typ, scalars, variables):
        if typ[0] != "form":
            return []
        out = [c for c in unary_candidates(r, typ, scalars, variables) if c[0] not in ("Adj", "adj") or len(typ[1]) == 2]
        return out

    def binary(self, rx, tx, ry, ty, wpairs, ops=("add", "sub", "Act", "act", "fs2")):
        out = []
        if tx[0] == "coef" and ry[0] not in ("t", "Act", "Adj", "add"):
            # comb: a Coefficient as LEFT operand of Action only against atoms and Action/Adjoint/+ results
            return out
        for op in ops:
            if self.valid(op, tx, ty):
                out += binary_candidates(rx, ry, wpairs, ops=(op,))
        return out


def run_level(cands, U, run, sample_every=0):
    def work(chunk):
        part = Part()
        ck = Checker(U)
        out = []
        for r in chunk:
            if r[0] in ("act", "adj") and MD.mtype(r) is not None and not well_typed(r):
                # action()/adjoint() document a form as first operand: other operands are ill-typed for them
                ck.run_invalid(r, part)
                continue
            try:
                res = ck.check(r, part)
            except MD.ModelGap as e:
                raise MD.ModelGap(f"{e} [recipe {show(r)}]") from e
            if res is not None:
                out.append(res)
                if sample_every and len(out) % sample_every == 1:
                    part.sample({"recipe": show(r), "result_type": res[4], "slots": list(res[1][1])})
        d = part.dict()
        d["new"] = out
        return d

    new = []
    for d in pmap(work, cands, seed=run.seed):
        new.extend(d.pop("new"))
        run.merge(d)
    return new


def dedup(new, seen, run):
    out = []
    new = sorted(new, key=lambda t: (len(repr(t[0])), repr(t[0])))
    for st in new:
        key = st[2]
        if key in seen:
            continue
        seen.add(key)
        out.append(st)
        run.states += 1
        if st[3]:
            run.nontrivial += 1
    return out


def eq_check(states, U, run):
    """Equal (==) results must denote equal maps: only pairs with equal hash and type can be equal."""
    groups = {}
    for st in states:
        if st[5] is None:
            continue
        groups.setdefault((st[4], st[5]), []).append(st)
    pairs = 0
    for g in groups.values():
        if len({st[6] for st in g}) < 2:
            continue
        objs = [(st, build(st[0], U)) for st in g[:20]]
        for i in range(len(objs)):
            for j in range(i + 1, len(objs)):
                (sa, a), (sb, b) = objs[i], objs[j]
                if sa[6] == sb[6]:
                    continue
                pairs += 1
                try:
                    eq = bool(a == b)
                except BaseException as e:  # noqa: BLE001
                    if isinstance(e, FATAL):
                        raise
                    eq = False
                if eq:
                    ta, tb = (np.asarray(MD.meval(st_[0], MD.make_env(True)).T) for st_ in (sa, sb))
                    if ta.shape == tb.shape and np.allclose(ta, tb, rtol=0, atol=1e-9):
                        continue
                    run.violation(
                        f"tensor:{show(sa[0])} == {show(sb[0])} #eq",
                        "two results compare equal (==) but denote different maps",
                        {"recipe": sa[0], "other": sb[0], "kind": "eq"},
                    )
    run.count("eq_pairs_same_hash_different_map", pairs)


# =====================================================================================================
# main
# =====================================================================================================
def main(argv):
    run = Run(PID, argv)
    U = universe()
    if run.args.replay:
        return replay(run, U)
    quick = not run.thorough()
    scalars = SCALARS
    variables = VARS
    wpairs = WPAIRS[:3] + WPAIRS[5:] if quick else WPAIRS
    seen = set()
    # ---- level 0: atoms
    cands = [("t", n) for n in FORM_ATOMS]
    lvl0 = dedup(run_level(cands, U, run), seen, run)
    operands = [("t", n) for n in OPERAND_ATOMS]
    # ---- level 1: every unary op on every form atom, every binary op on every ordered pair of atoms
    #      (type-incorrect compositions are executed too and their outcome recorded)
    cands = []
    atoms_all = [st[0] for st in lvl0] + operands
    for st in lvl0:
        cands += unary_candidates(st[0], st[1], scalars, variables)
    for x in atoms_all:
        for y in atoms_all:
            cands += binary_candidates(x, y, WPAIRS)
    cands = sorted(set(cands), key=repr)
    run.bounds["level1_candidates"] = len(cands)
    lvl1 = dedup(run_level(cands, U, run, sample_every=60), seen, run)
    # ---- level 2: type-correct compositions only
    ty = Typer()
    op_types = {r: MD.mtype(r) for r in operands}
    for st in lvl0 + lvl1:
        ty.register(st[0], st[1])
    for r, t in op_types.items():
        ty.register(r, t)
    atoms0 = [(st[0], st[1]) for st in lvl0] + list(op_types.items())
    cands = []
    for st in lvl1:
        cands += ty.unary(st[0], st[1], scalars, variables)
    for st in lvl1:
        for y, tyy in atoms0:
            cands += ty.binary(st[0], st[1], y, tyy, wpairs)
            cands += ty.binary(y, tyy, st[0], st[1], wpairs)
    core2 = set(cands)  # level-2 candidates built from a level-1 state and an atom (or unary)
    if not quick:
        for st in lvl1:
            for st2 in lvl1:
                cands += ty.binary(st[0], st[1], st2[0], st2[1], WPAIRS[1:4])
    cands = sorted(set(cands), key=repr)
    run.bounds["level2_candidates_well_typed"] = len(cands)
    lvl2 = dedup(run_level(cands, U, run, sample_every=2000), seen, run)
    levels = [len(lvl0), len(lvl1), len(lvl2)]
    all_states = lvl0 + lvl1 + lvl2
    comb = (
        "level 2: unary ops on level-1 states; binary ops on (level-1 state, atom) in both orders; a Coefficient as LEFT "
        "operand of Action only against atoms and results of Action/Adjoint/+"
    )
    if not quick:
        comb = (
            "level 2: unary ops on level-1 states; binary ops on (level-1 state, atom) in both orders with all weight pairs, "
            "on (level-1 state, level-1 state) with weight pairs (2,-1),(0,2),(0.5,k)"
        )
        comb += "; a Coefficient as LEFT operand of Action only against atoms and results of Action/Adjoint/+"
        # ---- level 3 (comb): unary ops on level-2 states, Action/action/+ of level-2 states with atoms
        for st in lvl2:
            ty.register(st[0], st[1])
        cands = []
        l3_atoms = [(r, t) for r, t in atoms0 if r[1] in L3_ATOMS]
        lvl2_core = [st for st in lvl2 if st[0] in core2]
        run.bounds["level3_base_states"] = len(lvl2_core)
        for st in lvl2_core:
            cands += ty.unary(st[0], st[1], ["2", "0", "k"], ["f", "u"])
            for y, tyy in l3_atoms:
                cands += ty.binary(st[0], st[1], y, tyy, WPAIRS[1:2], ops=("add", "Act", "act", "fs2"))
                if tyy[0] != "coef":
                    cands += ty.binary(y, tyy, st[0], st[1], WPAIRS[1:2], ops=("sub", "Act", "act"))
        cands = sorted(set(cands), key=repr)
        run.bounds["level3_candidates_well_typed"] = len(cands)
        lvl3 = dedup(run_level(cands, U, run, sample_every=20000), seen, run)
        levels.append(len(lvl3))
        all_states += lvl3
        comb += (
            "; level 3 (comb) over the level-2 states built from a level-1 state and an atom or by a unary op: "
            "unary ops (scalars 2,0,k; derivative variables f,u); state+atom, atom-state, FormSum((state,2),(atom,-1)), "
            "Action/action(state, atom) and (base-form atom, state) for atoms " + ",".join(L3_ATOMS)
        )
    eq_check(all_states, U, run)
    run.bounds.update(
        depth=2 if quick else 3,
        atoms=FORM_ATOMS + OPERAND_ATOMS,
        scalars=scalars,
        derivative_variables=variables,
        formsum_weight_pairs=wpairs,
        levels=levels,
        comb=comb,
        spaces={"V": 2, "W": 3},
        quadrature_points=3,
        environments=["real tables", "complex tables (matrices, cofunctions, Constant k complex)"],
    )
    run.rule = (
        "all recipes of the stated grammar up to the stated depth (level 1: all ordered pairs of atoms including "
        "type-incorrect ones; deeper levels: type-correct ones); a state is a distinct repr of the constructed "
        "result; non-trivial = the map denoted by the recipe is not identically zero"
    )
    run.exhaustive = True
    run.violations = interleave(run.violations)
    import os

    if os.environ.get("C28_DUMP_KEYS"):  # used by the detection self-test to diff violation keys
        with open(os.environ["C28_DUMP_KEYS"], "w") as f:
            f.write("\n".join(sorted(v["key"] for v in run.violations)) + "\n")
    run.assumptions += [
        "Action contracts the last argument of the left operand with the first of the right (docstrings of ufl/action.py)",
        "Adjoint is the conjugate transpose (docstring of ufl.formoperators.adjoint); coefficient dof vectors are real in "
        "both environments so that sesquilinearity of Form integrands is not exercised",
        "a Form that is identically zero may report fewer arguments (empty/zero Form carries no arguments): tolerated, counted",
        "type-incorrect compositions (spaces/arity do not match, python 0 as Action operand, Coefficient as operand of "
        "the functions action()/adjoint()) may do anything; NotImplementedError is an accepted outcome",
        "canonical numbering: arguments are numbered by position 0..n-1 (as Matrix, Cofunction, Adjoint and derivative do)",
    ]
    run.finish()


def family(key):
    """Coarse family of a violation key: kind, tag and outermost operation."""
    kind, rest = key.split(":", 1)
    tag = rest.rsplit(" #", 1)[1] if " #" in rest else ""
    return (kind, tag, rest.split("(", 1)[0])


def interleave(violations):
    """Deterministic order in which every family appears early (only the first 200 get a replay file)."""
    fams = {}
    for v in sorted(violations, key=lambda v: (len(v["key"]), v["key"])):
        fams.setdefault(family(v["key"]), []).append(v)
    out = []
    names = sorted(fams)
    i = 0
    while len(out) < len(violations):
        for n in names:
            if i < len(fams[n]):
                out.append(fams[n][i])
        i += 1
    return out


def _tup(x):
    return tuple(_tup(y) for y in x) if isinstance(x, list) else x


def replay(run, U):
    with open(run.args.replay) as f:
        rp = json.load(f)
    wit = rp["witness"]
    part = Part()
    ck = Checker(U)
    if wit.get("kind") == "eq":
        ra, rb = _tup(wit["recipe"]), _tup(wit["other"])
        a, b = build(ra, U), build(rb, U)
        ta, tb = (np.asarray(MD.meval(r, ck.envs[1]).T) for r in (ra, rb))
        print("a:", show(ra), "\nb:", show(rb), "\na == b:", bool(a == b))
        if bool(a == b) and (ta.shape != tb.shape or not np.allclose(ta, tb)):
            run.violation(rp["key"], rp["what"], wit)
        run.states = 1
        run.finish()
    r = _tup(wit["recipe"])
    print("recipe:", show(r))
    try:
        obj = build(r, U)
        print("result:", repr(obj)[:1500])
        if hasattr(obj, "arguments"):
            print("arguments():", ck.describe_args(obj.arguments()))
    except BaseException as e:  # noqa: BLE001
        if isinstance(e, FATAL):
            raise
        print("raised", type(e).__name__, e)
    ck.check(r, part)
    run.merge(part.dict())
    run.states = 1
    run.finish()
