"""C11 Forms with different compiled meaning never share a signature.

Bounded exhaustive: a catalogue of base forms (builder functions with named parameters) x the COMPLETE
list of one-step mutations of every parameter (thorough: additionally full parameter products for the
measure/metadata and base-form-operator bases).  Every two *recipes* of the universe have a different
compiled meaning by construction, except where the generator marks two parameter values as the same
meaning class (e.g. literal ``2`` and ``2.0``, metadata ``[1, 2]`` and ``(1, 2)``): those pairs are
never asserted to differ.

Oracles
 (i)/(iii-b) collision: equal ``Form.signature()`` => same meaning class.  All pairs of the universe.
 (ii) rebuild: the same recipe built again in a second context (fresh Index objects, all
      Coefficient/Constant/Mesh counters shifted by a constant so the relative order is unchanged, and
      no decimal digit boundary is crossed -- that is C12's subject) has the same signature.
 (iii-a) ``a.equals(b)`` => equal signatures, all pairs of (universe + second build in the same
      context, which gives equal-but-distinct Form objects).
"""

import itertools
import json
import math
import random

import numpy as np

import ufl
from mc import elements as E
from mc.runner import Run
from ufl.classes import Integral, Measure
from ufl.core.external_operator import ExternalOperator
from ufl.core.interpolate import Interpolate
from ufl.pullback import covariant_piola, identity_pullback, l2_piola
from ufl.sobolevspace import H1, L2, HDiv

PID = "C11"

# ---------------------------------------------------------------------------------------------------
# building context: explicit counts so that the relative order of counted objects is fixed by NAME
# ---------------------------------------------------------------------------------------------------
SLOTS = {n: k for k, n in enumerate("f g h k v w z A B c d e f1 f2 g2 uh".split())}
MESH_SLOTS = {"m": 0, "m1": 1, "m2": 2}


class Ctx:
    def __init__(self, offset):
        self.offset = offset
        self.cache = {}

    def _get(self, key, make):
        if key not in self.cache:
            self.cache[key] = make()
        return self.cache[key]

    def mesh(self, name="m", cell="triangle", deg=1, gdim=None):
        tdim = {"interval": 1, "triangle": 2, "quadrilateral": 2, "tetrahedron": 3, "hexahedron": 3}[cell]
        gdim = gdim or tdim
        key = ("mesh", name, cell, deg, gdim)
        return self._get(
            key, lambda: ufl.Mesh(E.P(cell, deg, (gdim,)), ufl_id=self.offset + MESH_SLOTS[name])
        )

    def space(self, mesh, elem):
        return self._get(("space", id(mesh), repr(elem)), lambda: ufl.FunctionSpace(mesh, elem))

    def coef(self, name, space):
        return self._get(
            ("coef", name, id(space)), lambda: ufl.Coefficient(space, count=self.offset + SLOTS[name])
        )

    def const(self, name, mesh, shape=()):
        return self._get(
            ("const", name, id(mesh), shape),
            lambda: ufl.Constant(mesh, shape=shape, count=self.offset + SLOTS[name]),
        )

    def arg(self, space, number, part=None):
        return self._get(("arg", id(space), number, part), lambda: ufl.Argument(space, number, part))

    def idx(self, name):
        return self._get(("idx", name), lambda: ufl.Index())


# ---------------------------------------------------------------------------------------------------
# parameter values
# ---------------------------------------------------------------------------------------------------
class Val:
    __slots__ = ("cls", "label", "value")

    def __init__(self, label, value=None, cls=None):
        self.label = label
        self.value = label if value is None else value
        self.cls = cls or label


def vals(*labels):
    return [Val(x) if not isinstance(x, Val) else x for x in labels]


class Base:
    def __init__(self, name, build, params, product=False):
        """params: {pname: (family, [Val default, Val alt, ...])}."""
        self.name = name
        self.build = build
        self.params = params
        self.product = product  # thorough tier: full product of the parameter values


BASES = []


def base(name, product=False, **params):
    def deco(fn):
        BASES.append(Base(name, fn, params, product))
        return fn

    return deco


TRI = "triangle"


def scalar_space(c, m=None, deg=1):
    m = m or c.mesh()
    return c.space(m, E.P(m.ufl_cell().cellname, deg))


def vector_space(c, m=None, deg=1):
    m = m or c.mesh()
    return c.space(m, E.P(m.ufl_cell().cellname, deg, (m.geometric_dimension,)))


def tensor_space(c, m=None, deg=1):
    m = m or c.mesh()
    g = m.geometric_dimension
    return c.space(m, E.P(m.ufl_cell().cellname, deg, (g, g)))


# ----- literals -------------------------------------------------------------------------------------
EPS = 2.0**-52
LITERALS = [
    Val("2", 2),
    Val("3", 3),
    Val("-2", -2),
    Val("0.5", 0.5),
    Val("0.25", 0.25),
    Val("2.0", 2.0, cls="2"),  # same number: a compiler may or may not distinguish -> never asserted
    Val("0.1", 0.1),
    Val("0.1+ulp", math.nextafter(0.1, 1.0)),
    Val("1e-17", 1e-17),
    Val("2e-17", 2e-17),
    Val("1+eps", 1.0 + EPS),
    Val("1+2eps", 1.0 + 2 * EPS),
    Val("1e16", 1e16),
    Val("1e16+2", 1e16 + 2.0),
    Val("1/3", 1.0 / 3.0),
    Val("1/3+1e-12", 1.0 / 3.0 + 1e-12),
    Val("99", 99),
    Val("100", 100),
    Val("101", 101),
    Val("10**20", 10**20),
    Val("10**20+1", 10**20 + 1),
    Val("2+1j", complex(2, 1)),
    Val("2-1j", complex(2, -1)),
]


@base("lit_mul", c=("literal", LITERALS))
def b_lit_mul(c, P):
    f = c.coef("f", scalar_space(c))
    return P["c"] * f * ufl.dx(c.mesh())


@base("lit_pow", p=("literal", [Val("2", 2), Val("3", 3), Val("0.5", 0.5), Val("-1", -1), Val("2.0", 2.0, cls="2")]))
def b_lit_pow(c, P):
    f = c.coef("f", scalar_space(c))
    return f ** P["p"] * ufl.dx(c.mesh())


@base("lit_add", c=("literal", [Val("2", 2), Val("3", 3), Val("0.5", 0.5), Val("-2", -2)]))
def b_lit_add(c, P):
    f = c.coef("f", scalar_space(c))
    return (f + P["c"]) * ufl.dx(c.mesh())


@base(
    "lit_vec",
    ab=("literal", [Val("1,2", (1, 2)), Val("2,1", (2, 1)), Val("1,3", (1, 3)), Val("1.0,2.0", (1.0, 2.0), cls="1,2")]),
)
def b_lit_vec(c, P):
    v = c.coef("v", vector_space(c))
    a, b = P["ab"]
    return ufl.dot(ufl.as_vector([a, b]), v) * ufl.dx(c.mesh())


# ----- indices --------------------------------------------------------------------------------------
@base("vec_comp", k=("fixed-index", vals(Val("0", 0), Val("1", 1))))
def b_vec_comp(c, P):
    v = c.coef("v", vector_space(c))
    return v[P["k"]] * ufl.dx(c.mesh())


@base(
    "ten_comp",
    kl=("fixed-index", [Val("01", (0, 1)), Val("10", (1, 0)), Val("00", (0, 0)), Val("11", (1, 1))]),
)
def b_ten_comp(c, P):
    A = c.coef("A", tensor_space(c))
    return A[P["kl"]] * ufl.dx(c.mesh())


@base(
    "contract3",
    pat=(
        "index-pattern",
        [
            Val("ij,j,i"),
            Val("ji,j,i"),
            Val("ii,j,j"),
            Val("ij,i,j", cls="ji,j,i"),  # the same contraction with the dummy indices renamed
        ],
    ),
)
def b_contract3(c, P):
    A = c.coef("A", tensor_space(c))
    v = c.coef("v", vector_space(c))
    w = c.coef("w", vector_space(c))
    a, b, d = P["pat"].split(",")
    ix = {n: c.idx(n) for n in "ij"}
    return A[ix[a[0]], ix[a[1]]] * v[ix[b]] * w[ix[d]] * ufl.dx(c.mesh())


@base(
    "slice_contract",
    pat=("index-pattern", vals("col0", "row0", "col1", "row1", "diag")),
)
def b_slice_contract(c, P):
    # a slice leaves a free (renumbered) index next to a fixed index inside ONE multi-index:
    # inner(A[:, 0], v) vs inner(A[0, :], v) differ only in which position is fixed
    A = c.coef("A", tensor_space(c))
    v = c.coef("v", vector_space(c))
    pat = P["pat"]
    if pat == "diag":
        i = c.idx("i")
        s = ufl.as_vector(A[i, i] * v[0] + 0 * v[i], i) if False else ufl.as_vector([A[0, 0], A[1, 1]])
    else:
        k = int(pat[-1])
        s = A[:, k] if pat.startswith("col") else A[k, :]
    return ufl.inner(s, v) * ufl.dx(c.mesh())


@base(
    "free_vs_fixed",
    pat=("index-pattern", vals("i0", "0i", "i1", "1i", "ij_ji")),
)
def b_free_vs_fixed(c, P):
    # component tensors whose inner multi-index mixes the first free index with fixed indices
    A = c.coef("A", tensor_space(c))
    B = c.coef("B", tensor_space(c))
    v = c.coef("v", vector_space(c))
    i, j = c.idx("i"), c.idx("j")
    pat = P["pat"]
    if pat in ("i0", "0i", "i1", "1i"):
        k = int(pat.replace("i", ""))
        e = A[i, k] if pat[0] == "i" else A[k, i]
        return ufl.dot(ufl.as_vector(e, i), v) * ufl.dx(c.mesh())
    e = A[i, j] if pat == "ij_ij" else A[j, i]
    return ufl.inner(ufl.as_tensor(e, (i, j)), B) * ufl.dx(c.mesh())


@base("as_tensor_order", order=("index-pattern", vals("ij", "ji")))
def b_as_tensor(c, P):
    A = c.coef("A", tensor_space(c))
    B = c.coef("B", tensor_space(c))
    f = c.coef("f", scalar_space(c))
    i, j = c.idx("i"), c.idx("j")
    o = {"i": i, "j": j}
    T = ufl.as_tensor(f * A[i, j], (o[P["order"][0]], o[P["order"][1]]))
    return ufl.inner(T, B) * ufl.dx(c.mesh())


@base("deriv_dir", k=("fixed-index", vals(Val("0", 0), Val("1", 1))))
def b_deriv_dir(c, P):
    f = c.coef("f", scalar_space(c, deg=2))
    return f.dx(P["k"]) * ufl.dx(c.mesh())


@base(
    "deriv_comp_dir",
    ab=("fixed-index", [Val("0,1", (0, 1)), Val("1,0", (1, 0)), Val("0,0", (0, 0)), Val("1,1", (1, 1))]),
)
def b_deriv_comp_dir(c, P):
    v = c.coef("v", vector_space(c, deg=2))
    a, b = P["ab"]
    return v[a].dx(b) * ufl.dx(c.mesh())


# ----- operators ------------------------------------------------------------------------------------
UNARY = {
    "none": lambda f: f,
    "neg": lambda f: -f,
    "sin": ufl.sin,
    "cos": ufl.cos,
    "tan": ufl.tan,
    "exp": ufl.exp,
    "ln": ufl.ln,
    "sqrt": ufl.sqrt,
    "abs": abs,
    "sinh": ufl.sinh,
    "cosh": ufl.cosh,
    "tanh": ufl.tanh,
    "asin": ufl.asin,
    "acos": ufl.acos,
    "atan": ufl.atan,
    "erf": ufl.erf,
    "sign": ufl.sign,
    "conj": ufl.conj,
    "real": ufl.real,
    "imag": ufl.imag,
    "bessel_J1": lambda f: ufl.bessel_J(1, f),
    "bessel_J2": lambda f: ufl.bessel_J(2, f),
    "bessel_Y1": lambda f: ufl.bessel_Y(1, f),
    "bessel_I1": lambda f: ufl.bessel_I(1, f),
    "bessel_K1": lambda f: ufl.bessel_K(1, f),
}


@base("unary_op", op=("operator", vals(*UNARY)))
def b_unary(c, P):
    f = c.coef("f", scalar_space(c))
    g = c.coef("g", scalar_space(c))
    return UNARY[P["op"]](f) * g * ufl.dx(c.mesh())


BINARY = {
    "add": lambda f, g: f + g,
    "sub": lambda f, g: f - g,
    "rsub": lambda f, g: g - f,
    "mul": lambda f, g: f * g,
    "div": lambda f, g: f / g,
    "rdiv": lambda f, g: g / f,
    "pow": lambda f, g: f**g,
    "rpow": lambda f, g: g**f,
    "max": ufl.max_value,
    "min": ufl.min_value,
    "atan2": ufl.atan2,
    "ratan2": lambda f, g: ufl.atan2(g, f),
}


@base("binary_op", op=("operator", vals(*BINARY)))
def b_binary(c, P):
    S = scalar_space(c)
    f, g, h = c.coef("f", S), c.coef("g", S), c.coef("h", S)
    return BINARY[P["op"]](f, g) * h * ufl.dx(c.mesh())


COND = {
    "lt": ufl.lt,
    "le": ufl.le,
    "gt": ufl.gt,
    "ge": ufl.ge,
    "eq": ufl.eq,
    "ne": ufl.ne,
    "not_lt": lambda f, g: ufl.Not(ufl.lt(f, g)),
}


@base(
    "conditional",
    cmp=("operator", [Val(k, cls="ge" if k == "not_lt" else None) for k in COND]),
)
def b_cond(c, P):
    S = scalar_space(c)
    f, g, h, k = (c.coef(n, S) for n in "fghk")
    return ufl.conditional(COND[P["cmp"]](f, g), h, k) * ufl.dx(c.mesh())


@base("logic", op=("operator", vals("and", "or")))
def b_logic(c, P):
    S = scalar_space(c)
    f, g, h, k = (c.coef(n, S) for n in "fghk")
    op = ufl.And if P["op"] == "and" else ufl.Or
    return ufl.conditional(op(ufl.lt(f, g), ufl.lt(h, k)), f, k) * ufl.dx(c.mesh())


@base("matmul_order", order=("operand-order", vals("AB", "BA")))
def b_matmul(c, P):
    T = tensor_space(c)
    V = vector_space(c)
    A, B, v, w = c.coef("A", T), c.coef("B", T), c.coef("v", V), c.coef("w", V)
    M = ufl.dot(A, B) if P["order"] == "AB" else ufl.dot(B, A)
    return ufl.dot(w, ufl.dot(M, v)) * ufl.dx(c.mesh())


@base("outer_order", order=("operand-order", vals("vw", "wv")))
def b_outer(c, P):
    A = c.coef("A", tensor_space(c))
    V = vector_space(c)
    v, w = c.coef("v", V), c.coef("w", V)
    M = ufl.outer(v, w) if P["order"] == "vw" else ufl.outer(w, v)
    return ufl.inner(M, A) * ufl.dx(c.mesh())


@base("cross_order", order=("operand-order", vals("vw", "wv")))
def b_cross(c, P):
    m = c.mesh("m", "tetrahedron")
    V = vector_space(c, m)
    v, w, z = c.coef("v", V), c.coef("w", V), c.coef("z", V)
    M = ufl.cross(v, w) if P["order"] == "vw" else ufl.cross(w, v)
    return ufl.dot(M, z) * ufl.dx(m)


TENSOR_UNARY = {
    "none": lambda A: A,
    "transpose": ufl.transpose,
    "sym": ufl.sym,
    "skew": ufl.skew,
    "dev": ufl.dev,
    "inv": ufl.inv,
    "cofac": ufl.cofac,
}


@base("intersect_domains", hmesh=("domain", vals("m1", "m2")), deg=("element", vals(Val("1", 1), Val("2", 2))))
def b_intersect_domains(c, P):
    """Integration over mesh m with an intersect measure on m1; one coefficient on m1, another on m1 or on a THIRD
    mesh m2 that occurs only in the integrand (all three meshes have equal coordinate elements)."""
    A, B = c.mesh("m"), c.mesh("m1")
    X = c.mesh(P["hmesh"])
    dxi = ufl.Measure("dx", A, intersect_measures=(ufl.Measure("dx", B),))
    g = c.coef("g", c.space(B, E.P(TRI, 1)))
    h = c.coef("h", c.space(X, E.P(TRI, P["deg"])))
    v = c.arg(c.space(A, E.P(TRI, 1)), 0)
    return g * h * v * dxi


class UserFunction(ufl.Coefficient):
    """What every downstream library does: a subclass of Coefficient (no new UFL type)."""


class UserConstant(ufl.Constant):
    """A downstream subclass of Constant."""


@base(
    "subclassed_terminals",
    pat=(
        "coefficient-classes",
        [
            Val("f*g"),
            Val("f*G", cls="f*g"),  # G an instance of a user subclass of Coefficient: same compiled meaning as a plain one
            Val("F*G", cls="f*g"),
            Val("f*f"),
            Val("G*G", cls="f*f"),
            Val("f*g*c*d"),
            Val("f*G*c*D", cls="f*g*c*d"),  # D an instance of a user subclass of Constant
            Val("f*f*c*c"),
            Val("f*g*c*c"),
            Val("f*G*D*D", cls="f*g*c*c"),
        ],
    ),
)
def b_subclassed_terminals(c, P):
    S = scalar_space(c)
    m = c.mesh()
    f, g = c.coef("f", S), c.coef("g", S)
    F = c._get(("ucoef", "f2"), lambda: UserFunction(S, count=c.offset + SLOTS["f2"]))
    G = c._get(("ucoef", "g2"), lambda: UserFunction(S, count=c.offset + SLOTS["g2"]))
    cc, dd = c.const("c", m), c.const("d", m)
    D = c._get(("uconst", "e"), lambda: UserConstant(m, count=c.offset + SLOTS["e"]))
    env = {"f": f, "g": g, "F": F, "G": G, "c": cc, "d": dd, "D": D}
    e = 1
    for n in P["pat"].split("*"):
        e = e * env[n]
    return ufl.cosh(e + 7) * ufl.dx(m)  # wrapped so that no other base of the catalogue builds the same form


@base("tensor_unary", op=("operator", vals(*TENSOR_UNARY)))
def b_tensor_unary(c, P):
    T = tensor_space(c)
    A, B = c.coef("A", T), c.coef("B", T)
    return ufl.inner(TENSOR_UNARY[P["op"]](A), B) * ufl.dx(c.mesh())


@base("tensor_scalar", op=("operator", vals("tr", "det")))
def b_tensor_scalar(c, P):
    A = c.coef("A", tensor_space(c))
    f = c.coef("f", scalar_space(c))
    return {"tr": ufl.tr, "det": ufl.det}[P["op"]](A) * f * ufl.dx(c.mesh())


@base("diff_scalar", op=("operator", vals("div", "curl")))
def b_diff_scalar(c, P):
    v = c.coef("v", vector_space(c, deg=2))
    return {"div": ufl.div, "curl": ufl.curl}[P["op"]](v) * ufl.dx(c.mesh())


@base("diff_tensor", op=("operator", vals("grad", "nabla_grad")))
def b_diff_tensor(c, P):
    v = c.coef("v", vector_space(c, deg=2))
    A = c.coef("A", tensor_space(c))
    return ufl.inner({"grad": ufl.grad, "nabla_grad": ufl.nabla_grad}[P["op"]](v), A) * ufl.dx(c.mesh())


@base("restriction", side=("restriction", vals("+", "-")))
def b_restriction(c, P):
    f = c.coef("f", c.space(c.mesh(), E.DG(TRI, 1)))
    return f(P["side"]) * ufl.dS(c.mesh())


@base("restriction2", sides=("restriction", vals("+-", "-+", "++", "--")))
def b_restriction2(c, P):
    S = c.space(c.mesh(), E.DG(TRI, 1))
    u, v = c.arg(S, 1), c.arg(S, 0)
    return u(P["sides"][0]) * v(P["sides"][1]) * ufl.dS(c.mesh())


GEOM = {
    "x0": lambda m: ufl.SpatialCoordinate(m)[0],
    "x1": lambda m: ufl.SpatialCoordinate(m)[1],
    "n0": lambda m: ufl.FacetNormal(m)[0],
    "n1": lambda m: ufl.FacetNormal(m)[1],
    "CellVolume": ufl.CellVolume,
    "Circumradius": ufl.Circumradius,
    "FacetArea": ufl.FacetArea,
    "CellDiameter": ufl.CellDiameter,
    "MinCellEdgeLength": ufl.MinCellEdgeLength,
    "MaxCellEdgeLength": ufl.MaxCellEdgeLength,
    "MinFacetEdgeLength": ufl.MinFacetEdgeLength,
    "MaxFacetEdgeLength": ufl.MaxFacetEdgeLength,
    "detJ": ufl.JacobianDeterminant,
    "J00": lambda m: ufl.Jacobian(m)[0, 0],
    "K00": lambda m: ufl.JacobianInverse(m)[0, 0],
}


@base("geometry", q=("geometric-quantity", vals(*GEOM)))
def b_geometry(c, P):
    m = c.mesh()
    f = c.coef("f", scalar_space(c))
    return GEOM[P["q"]](m) * f * ufl.ds(m)


# ----- elements, cells, meshes ------------------------------------------------------------------------
def _space_scalar(c, label):
    if label == "P1":
        return scalar_space(c)
    if label == "P2":
        return scalar_space(c, deg=2)
    m = c.mesh()
    if label == "DG1":
        return c.space(m, E.DG(TRI, 1))
    if label == "P1-sobolevL2":
        return c.space(m, E.Elem("P", ufl.Cell(TRI), 1, (), identity_pullback, L2))
    if label == "Q-family":
        return c.space(m, E.Elem("Q", ufl.Cell(TRI), 1, (), identity_pullback, H1))
    if label == "P1-l2piola":
        return c.space(m, E.Elem("P", ufl.Cell(TRI), 1, (), l2_piola, H1))
    if label == "P1-quadrilateral":
        return scalar_space(c, c.mesh("m", "quadrilateral"))
    if label == "P1-tetrahedron":
        return scalar_space(c, c.mesh("m", "tetrahedron"))
    if label == "P1-coord2":
        return scalar_space(c, c.mesh("m", TRI, 2))
    if label == "P1-gdim3":
        return scalar_space(c, c.mesh("m", TRI, 1, 3))
    raise KeyError(label)


SCALAR_SPACES = [
    "P1",
    "P2",
    "DG1",
    "P1-sobolevL2",
    "Q-family",
    "P1-l2piola",
    "P1-quadrilateral",
    "P1-tetrahedron",
    "P1-coord2",
    "P1-gdim3",
]


@base("coef_space", space=("element", vals(*SCALAR_SPACES)))
def b_coef_space(c, P):
    S = _space_scalar(c, P["space"])
    return c.coef("f", S) * ufl.dx(S.ufl_domain())


@base("arg_space", space=("element", vals(*SCALAR_SPACES)))
def b_arg_space(c, P):
    S = _space_scalar(c, P["space"])
    return c.arg(S, 0) * ufl.dx(S.ufl_domain())


@base("geometry_mesh", space=("mesh", vals("P1", "P1-quadrilateral", "P1-tetrahedron", "P1-coord2", "P1-gdim3")))
def b_geometry_mesh(c, P):
    m = _space_scalar(c, P["space"]).ufl_domain()
    return ufl.SpatialCoordinate(m)[0] * ufl.dx(m)


def _space_vector(c, label):
    m = c.mesh()
    cell = ufl.Cell(TRI)
    return c.space(
        m,
        {
            "P1v": lambda: E.P(TRI, 1, (2,)),
            "P2v": lambda: E.P(TRI, 2, (2,)),
            "DG1v": lambda: E.DG(TRI, 1, (2,)),
            "P1v3": lambda: E.P(TRI, 1, (3,)),
            "RT1": lambda: E.RT(TRI, 1),
            "RT2": lambda: E.RT(TRI, 2),
            "N1curl1": lambda: E.N1curl(TRI, 1),
            "RT1-covariant": lambda: E.Elem("RT", cell, 1, (2,), covariant_piola, HDiv),
        }[label](),
    )


@base("vector_space", space=("element", vals("P1v", "P2v", "DG1v", "P1v3", "RT1", "RT2", "N1curl1", "RT1-covariant")))
def b_vector_space(c, P):
    v = c.coef("v", _space_vector(c, P["space"]))
    return v[0] * v[1] * ufl.dx(c.mesh())


def _sym(n01, n10, n11):
    return {(0, 0): 0, (0, 1): n01, (1, 0): n10, (1, 1): n11}


def _space_tensor(c, label):
    m = c.mesh()
    p1 = E.P(TRI, 1)
    return c.space(
        m,
        {
            "P1t": lambda: E.P(TRI, 1, (2, 2)),
            "P1t23": lambda: E.P(TRI, 1, (2, 3)),
            "SymP": lambda: E.SymP(TRI, 1),
            "Sym-other": lambda: E.Symmetric(_sym(1, 2, 0), [p1, p1, p1]),
            "Regge": lambda: E.Regge(TRI, 1),
            "HHJ": lambda: E.HHJ(TRI, 1),
            "CovContra": lambda: E.CovContra(TRI, 1),
        }[label](),
    )


@base("tensor_space", space=("element", vals("P1t", "P1t23", "SymP", "Sym-other", "Regge", "HHJ", "CovContra")))
def b_tensor_space(c, P):
    A = c.coef("A", _space_tensor(c, P["space"]))
    return A[0, 1] * A[0, 0] * ufl.dx(c.mesh())


def _space_mixed(c, label):
    m = c.mesh()
    P1, P2, P1v, P2v, DG1, DG0, RT1 = (
        E.P(TRI, 1),
        E.P(TRI, 2),
        E.P(TRI, 1, (2,)),
        E.P(TRI, 2, (2,)),
        E.DG(TRI, 1),
        E.DG(TRI, 0),
        E.RT(TRI, 1),
    )
    return c.space(
        m,
        E.Mixed(
            {
                "P2v*P1": [P2v, P1],
                "P1v*P1": [P1v, P1],
                "P1*P2v": [P1, P2v],
                "P2v*DG1": [P2v, DG1],
                "P2v*P1*P1": [P2v, P1, P1],
                "RT1*DG0": [RT1, DG0],
                "P2v*P2": [P2v, P2],
            }[label]
        ),
    )


@base("mixed_space", space=("element", vals("P2v*P1", "P1v*P1", "P1*P2v", "P2v*DG1", "P2v*P1*P1", "RT1*DG0", "P2v*P2")))
def b_mixed_space(c, P):
    return c.coef("w", _space_mixed(c, P["space"]))[0] * ufl.dx(c.mesh())


@base("terminal_kind", kind=("terminal-kind", vals("Coefficient", "Constant", "Argument")))
def b_terminal_kind(c, P):
    S = scalar_space(c)
    f = c.coef("f", S)
    X = {
        "Coefficient": lambda: c.coef("g", S),
        "Constant": lambda: c.const("g", c.mesh()),
        "Argument": lambda: c.arg(S, 0),
    }[P["kind"]]()
    return f**2 * X * ufl.dx(c.mesh())


@base(
    "argument",
    np_=("argument", [Val("0", (0, None)), Val("1", (1, None)), Val("0.p0", (0, 0)), Val("0.p1", (0, 1)), Val("1.p0", (1, 0))]),
)
def b_argument(c, P):
    S = scalar_space(c)
    f = c.coef("f", S)
    n, p = P["np_"]
    return f * c.arg(S, n, p) * ufl.dx(c.mesh())


@base(
    "bilinear",
    numbers=("argument", [Val("u1v0", (1, 0)), Val("u0v1", (0, 1))]),
    degrees=("element", [Val("11", (1, 1)), Val("21", (2, 1)), Val("12", (1, 2))]),
)
def b_bilinear(c, P):
    du, dv = P["degrees"]
    nu, nv = P["numbers"]
    u = c.arg(scalar_space(c, deg=du), nu)
    v = c.arg(scalar_space(c, deg=dv), nv)
    return u.dx(0) * v * ufl.dx(c.mesh())


@base("const_shape", comp=("element", vals("scalar", "vec0", "vec1", "ten01")))
def b_const_shape(c, P):
    m = c.mesh()
    f = c.coef("f", scalar_space(c))
    x = {
        "scalar": lambda: c.const("c", m),
        "vec0": lambda: c.const("c", m, (2,))[0],
        "vec1": lambda: c.const("c", m, (2,))[1],
        "ten01": lambda: c.const("c", m, (2, 2))[0, 1],
    }[P["comp"]]()
    return x * f * ufl.dx(m)


@base("multi_mesh", layout=("domain", vals("11/1", "12/1", "12/2")))
def b_multi_mesh(c, P):
    m1, m2 = c.mesh("m1"), c.mesh("m2")
    lay = P["layout"]
    f1 = c.coef("f1", scalar_space(c, m1))
    f2 = c.coef("f2", scalar_space(c, m1 if lay[1] == "1" else m2))
    return f1 / f2 * ufl.dx(m1 if lay[-1] == "1" else m2)


@base("intersect_measure", other=("integral-type", vals("none", "ds", "dS", "dx")))
def b_intersect(c, P):
    m1, m2 = c.mesh("m1"), c.mesh("m2")
    f1 = c.coef("f1", scalar_space(c, m1))
    f2 = c.coef("f2", scalar_space(c, m2))
    im = None if P["other"] == "none" else (Measure(P["other"], m2),)
    return f1**f2 * Measure("dx", m1, intersect_measures=im)


# ----- measures / metadata ----------------------------------------------------------------------------
def _md_alphabet():
    L1 = np.linspace(0.0, 1.0, 2000)
    L2 = L1.copy()
    L2[1000] += 0.25  # inside the "..." elision of str(ndarray)
    L3 = L1.copy()
    L3[1] += 0.25  # visible in str(ndarray)
    L4 = np.insert(L1, 1000, 0.5)  # another length, same printed head and tail
    P1 = np.array([1.0 / 3.0, 2.0 / 3.0])
    P2 = P1.copy()
    P2[0] += 1e-12  # 12th significant digit
    P3 = P1.copy()
    P3[0] += 1e-6
    I1 = np.array([[0.25, 0.25], [0.5, 0.25]])
    return [
        Val("empty", {}),
        Val("q2", {"quadrature_degree": 2}),
        Val("q3", {"quadrature_degree": 3}),
        Val("q2ra", {"quadrature_degree": 2, "rule": "a"}),
        Val("raq2", {"rule": "a", "quadrature_degree": 2}, cls="q2ra"),
        Val("q2rb", {"quadrature_degree": 2, "rule": "b"}),
        Val("r2", {"rule": 2}),  # another key, same value as q2
        Val("nest1", {"opts": {"a": 1, "b": (1, 2)}}),
        Val("nest2", {"opts": {"a": 1, "b": (1, 3)}}),
        Val("nest3", {"opts": {"a": 2, "b": (1, 2)}}),
        Val("tup12", {"pts": (1, 2)}),
        Val("tup13", {"pts": (1, 3)}),
        Val("tup21", {"pts": (2, 1)}),
        Val("lst12", {"pts": [1, 2]}, cls="tup12"),
        Val("tol", {"tol": 0.1}),
        Val("tol+ulp", {"tol": math.nextafter(0.1, 1.0)}),
        Val("arrA", {"w": np.array([0.5, 0.5])}),
        Val("arrB", {"w": np.array([0.25, 0.75])}),
        Val("arrA-col", {"w": np.array([[0.5], [0.5]])}),  # shape (2,1)
        Val("arrA-row", {"w": np.array([[0.5, 0.5]])}),  # shape (1,2)
        Val("arr2d", {"w": I1}),
        Val("arr2dT", {"w": I1.T.copy()}),
        Val("L1", {"w": L1}),
        Val("L2", {"w": L2}),
        Val("L3", {"w": L3}),
        Val("L4", {"w": L4}),
        Val("P1", {"w": P1}),
        Val("P2", {"w": P2}),
        Val("P3", {"w": P3}),
    ]


MD = _md_alphabet()
ARRAY_MD = {v.label for v in MD if any(isinstance(x, np.ndarray) for x in v.value.values())}
ITYPES = vals("dx", "ds", "dS", "dP")
SIDS = [
    Val("everywhere", "everywhere"),
    Val("0", 0),
    Val("1", 1),
    Val("2", 2),
    Val("(1,2)", (1, 2)),
    Val("(1,3)", (1, 3)),
    Val("tuple(1,2)", "direct-tuple", cls="(1,2)"),  # one Integral with a tuple id: same region
]


@base(
    "integral",
    product=True,
    itype=("integral-type", ITYPES),
    sid=("subdomain-id", SIDS),
    md=("metadata", MD),
)
def b_integral(c, P):
    m = c.mesh()
    f = c.coef("f", scalar_space(c))
    if P["sid"] == "direct-tuple":
        it = ufl.measure.as_integral_type(P["itype"])
        return ufl.Form([Integral(ufl.exp(f), it, m, (1, 2), P["md"], None)])
    return ufl.exp(f) * Measure(P["itype"], m, subdomain_id=P["sid"], metadata=P["md"])


MD_SMALL = {v.label: v for v in MD}


def _pairvals(labels, table):
    return [Val(f"{a}/{b}", (table[a].value, table[b].value)) for a, b in labels]


_SIDT = {v.label: v for v in SIDS}
_ITT = {v.label: v for v in ITYPES}


@base(
    "two_integrals",
    sids=("subdomain-id", _pairvals([("1", "2"), ("2", "1"), ("1", "1"), ("everywhere", "1"), ("1", "everywhere")], _SIDT)),
    types=("integral-type", _pairvals([("dx", "dx"), ("dx", "ds"), ("ds", "dx"), ("ds", "ds")], _ITT)),
    mds=(
        "metadata",
        _pairvals(
            [("q2", "q3"), ("q3", "q2"), ("q2", "q2"), ("empty", "q3"), ("L1", "q3"), ("L2", "q3"), ("P1", "q3"), ("P2", "q3")],
            MD_SMALL,
        ),
    ),
)
def b_two_integrals(c, P):
    m = c.mesh()
    S = scalar_space(c)
    f, g = c.coef("f", S), c.coef("g", S)
    (s1, s2), (t1, t2), (m1, m2) = P["sids"], P["types"], P["mds"]
    return ufl.sin(f) * Measure(t1, m, subdomain_id=s1, metadata=m1) + ufl.cos(g) * Measure(
        t2, m, subdomain_id=s2, metadata=m2
    )


# ----- base form operators / unexpanded derivatives --------------------------------------------------------
def _fs(c, label):
    return {"P1": lambda: scalar_space(c), "P2": lambda: scalar_space(c, deg=2), "DG1": lambda: c.space(c.mesh(), E.DG(TRI, 1))}[
        label
    ]()


@base(
    "external_operator",
    product=True,
    derivatives=("external-operator-data", [Val("0", (0,)), Val("1", (1,)), Val("2", (2,))]),
    function_space=("external-operator-data", vals("P1", "P2", "DG1")),
    operand=("external-operator-operand", vals("f", "sin(f)", "g2")),
    slots=("external-operator-data", vals("v*", "v*,uhat")),
)
def b_extop(c, P):
    S = scalar_space(c)
    f = c.coef("f", S)
    op = {"f": lambda: f, "sin(f)": lambda: ufl.sin(f), "g2": lambda: c.coef("f", scalar_space(c, deg=2))}[P["operand"]]()
    V = _fs(c, P["function_space"])
    kw = {}
    if P["slots"] == "v*,uhat":
        kw["argument_slots"] = (ufl.Coargument(V.dual(), 0), c.arg(S, 1))
    N = ExternalOperator(op, function_space=V, derivatives=P["derivatives"], **kw)
    return N * c.arg(S, 0) * ufl.dx(c.mesh())


@base(
    "external_operator2",
    derivatives=("external-operator-data", [Val("00", (0, 0)), Val("10", (1, 0)), Val("01", (0, 1)), Val("11", (1, 1))]),
    operands=("external-operator-operand", vals("f,g", "g,f", "f,f")),
)
def b_extop2(c, P):
    S = scalar_space(c)
    f, g = c.coef("f", S), c.coef("g", S)
    ops = {"f,g": (f, g), "g,f": (g, f), "f,f": (f, f)}[P["operands"]]
    N = ExternalOperator(*ops, function_space=S, derivatives=P["derivatives"])
    # g appears outside too, so that both coefficients are always in the form
    return N * ufl.cos(g) * ufl.exp(f) * c.arg(S, 0) * ufl.dx(c.mesh())


@base(
    "interpolate",
    product=True,
    target=("interpolate-data", vals("P1", "P2", "DG1")),
    operand=("interpolate-operand", vals("f", "sin(f)", "g2")),
)
def b_interpolate(c, P):
    S = scalar_space(c)
    f = c.coef("f", S)
    op = {"f": lambda: f, "sin(f)": lambda: ufl.sin(f), "g2": lambda: c.coef("f", scalar_space(c, deg=2))}[P["operand"]]()
    In = Interpolate(op, _fs(c, P["target"]))
    return In * c.arg(S, 0) * ufl.dx(c.mesh())


@base(
    "derivative_unexpanded",
    wrt=("derivative-data", vals("f", "g")),
    direction=("derivative-data", vals("test", "arg1", "coef")),
)
def b_derivative(c, P):
    S = scalar_space(c)
    f, g = c.coef("f", S), c.coef("g", S)
    d = {"test": lambda: c.arg(S, 0), "arg1": lambda: c.arg(S, 1), "coef": lambda: c.coef("h", S)}[P["direction"]]()
    return ufl.derivative(ufl.sin(f) * g**2 * ufl.dx(c.mesh()), {"f": f, "g": g}[P["wrt"]], d)


# ---------------------------------------------------------------------------------------------------
# universe
# ---------------------------------------------------------------------------------------------------
BASE_BY_NAME = {b.name: b for b in BASES}


def recipes(thorough):
    """List of (base name, {param: label}); defaults first, then one-step mutants, then products."""
    out = []
    seen = set()

    def add(b, labels):
        key = (b.name, tuple(sorted(labels.items())))
        if key not in seen:
            seen.add(key)
            out.append((b.name, dict(labels)))

    for b in BASES:
        default = {p: vs[0].label for p, (_, vs) in b.params.items()}
        add(b, default)
        for p, (_, vs) in b.params.items():
            for v in vs[1:]:
                add(b, {**default, p: v.label})
        if b.product and thorough:
            names = list(b.params)
            for combo in itertools.product(*[[v.label for v in b.params[p][1]] for p in names]):
                add(b, dict(zip(names, combo)))
    return out


def lookup(bname, labels):
    b = BASE_BY_NAME[bname]
    P, cls = {}, []
    for p, (_, vs) in b.params.items():
        (v,) = [x for x in vs if x.label == labels[p]]
        P[p] = v.value
        cls.append((p, v.cls))
    return b, P, (bname, tuple(cls))


def build(ctx, rec):
    b, P, _ = lookup(*rec)
    return b.build(ctx, P)


def rec_str(rec):
    bname, labels = rec
    return bname + "(" + ",".join(f"{p}={labels[p]}" for p in BASE_BY_NAME[bname].params) + ")"


def pair_family(ra, rb):
    """(family, short key part) for a pair of recipes that must not collide."""
    (ba, la), (bb, lb) = ra, rb
    if ba == bb:
        params = BASE_BY_NAME[ba].params
        diff = [p for p in params if la[p] != lb[p]]
        fams = {params[p][0] for p in diff}
        if len(diff) == 1:
            (p,) = diff
            (fam,) = fams
            a, b = sorted([la[p], lb[p]])
            if fam == "metadata":
                labs = set(a.split("/")) ^ set(b.split("/"))
                if labs and labs <= ARRAY_MD:
                    fam = "metadata-array-collision"
            return fam, f"{ba}:{p}={a}|{b}"
        if len(fams) == 1:
            # sibling mutants of different parameters of one family (e.g. derivatives vs function_space)
            (fam,) = fams
            a, b = sorted([rec_str(ra), rec_str(rb)])
            return fam, f"{a}|{b}"
    a, b = sorted([rec_str(ra), rec_str(rb)])
    return "signature-collision", f"{a}|{b}"


def bump_counters():
    """Move every global counter into the 4-digit range (digit boundaries are C12's subject)."""
    for _ in range(1000):
        ufl.Index()
    S = ufl.FunctionSpace(ufl.Mesh(E.P(TRI, 1, (2,)), ufl_id=5000), E.P(TRI, 1))
    ufl.Coefficient(S, count=5000)
    ufl.Constant(S.ufl_domain(), count=5000)


def check_pair_collision(run, ra, rb, sa, sb, ma, mb):
    if sa == sb and ma != mb:
        fam, part = pair_family(ra, rb)
        run.violation(
            f"{fam}:{part}",
            f"different compiled meaning, equal signature: {rec_str(ra)} vs {rec_str(rb)}",
            {"check": "collision", "a": ra, "b": rb},
        )
        return True
    return False


def replay(run):
    with open(run.args.replay) as f:
        wit = json.load(f)["witness"]
    ra = (wit["a"][0], wit["a"][1])
    rb = (wit["b"][0], wit["b"][1])
    bump_counters()
    c1, c2 = Ctx(1000), Ctx(2000)
    if wit["check"] == "collision":
        fa, fb = build(c1, ra), build(c1, rb)
        run.transitions += 2
        check_pair_collision(run, ra, rb, fa.signature(), fb.signature(), lookup(*ra)[2], lookup(*rb)[2])
    elif wit["check"] == "rebuild":
        fa, fb = build(c1, ra), build(c2, ra)
        if fa.signature() != fb.signature():
            run.violation("rebuild:" + rec_str(ra), "same recipe, other counters: signature changed", wit)
    elif wit["check"] == "equals":
        fa = build(c1, ra)
        fb = build(c1, rb)
        if fa.equals(fb) and fa.signature() != fb.signature():
            run.violation(f"equals-implies-signature:{rec_str(ra)}|{rec_str(rb)}", "equal forms, different signatures", wit)
    run.states = 2
    run.rule = "replay of one pair"
    run.finish()


def main(argv):
    run = Run(PID, argv)
    if run.args.replay:
        return replay(run)
    thorough = run.thorough()
    recs = recipes(thorough)
    if run.seed:
        random.Random(run.seed).shuffle(recs)  # build order only
    bump_counters()
    c1, c2 = Ctx(1000), Ctx(2000)
    forms, forms1b, sig, sig1b, sig2, meaning = [], [], [], [], [], []
    for rec in recs:
        a = build(c1, rec)
        a2 = build(c1, rec)  # same terminals and indices: equal but distinct Form objects
        b = build(c2, rec)  # shifted counters, fresh indices
        run.transitions += 3
        if a is a2:
            raise RuntimeError("second build returned the same object")
        forms.append(a)
        forms1b.append(a2)
        sig.append(a.signature())
        sig1b.append(a2.signature())
        sig2.append(b.signature())
        run.transitions += 3
        meaning.append(lookup(*rec)[2])
    n = len(recs)
    run.states = n
    if len(set(meaning)) == n:
        pass
    run.count("recipes", n)
    run.count("meaning_classes", len(set(meaning)))

    # (ii) rebuild
    for k, rec in enumerate(recs):
        run.validated += 1
        if sig[k] != sig2[k]:
            run.violation(
                "rebuild:" + rec_str(rec),
                "same recipe rebuilt with shifted counters and fresh indices: signature changed",
                {"check": "rebuild", "a": rec, "b": rec},
            )

    # (iii-a) equals => equal signatures, all pairs (incl. the equal-but-distinct second builds)
    allforms = forms + forms1b
    allsig = sig + sig1b
    allrec = recs + recs
    eq_true = 0
    for x in range(len(allforms)):
        fx = allforms[x]
        for y in range(x + 1, len(allforms)):
            try:
                eq = fx.equals(allforms[y])
            except ValueError:
                # Integral.__eq__ compares metadata dicts with ==; numpy arrays make that raise.  Not part
                # of the property (no verdict), counted.
                run.error("ValueError(equals on array metadata)")
                eq = False
            if eq:
                eq_true += 1
                if allsig[x] != allsig[y]:
                    run.violation(
                        f"equals-implies-signature:{rec_str(allrec[x])}|{rec_str(allrec[y])}",
                        "a.equals(b) is True but the signatures differ",
                        {"check": "equals", "a": allrec[x], "b": allrec[y]},
                    )
            run.validated += 1
    run.count("equals_true_pairs", eq_true)
    run.count("equals_true_on_second_build", sum(1 for k in range(n) if forms[k].equals(forms1b[k])))

    # (i)/(iii-b) collisions: equal signature => same meaning class, all pairs
    by_sig = {}
    for k in range(n):
        by_sig.setdefault(sig[k], []).append(k)
    pairs_must_differ = n * (n - 1) // 2
    same_meaning = {}
    for k in range(n):
        same_meaning.setdefault(meaning[k], []).append(k)
    not_asserted = sum(len(v) * (len(v) - 1) // 2 for v in same_meaning.values())
    pairs_must_differ -= not_asserted
    run.validated += pairs_must_differ
    run.count("pairs_asserted_to_differ", pairs_must_differ)
    run.count("pairs_same_meaning_not_asserted", not_asserted)
    run.count("same_meaning_pairs_with_equal_signature", sum(
        1 for v in same_meaning.values() for x, y in itertools.combinations(v, 2) if sig[x] == sig[y]
    ))
    def ndiff(x, y):
        if recs[x][0] != recs[y][0]:
            return 99
        return sum(recs[x][1][p] != recs[y][1][p] for p in recs[x][1])

    viol = []
    for s, ks in by_sig.items():
        if len(ks) < 2:
            continue
        # union-find over one-step edges inside the group of equal signatures: a multi-step collision that
        # is a chain of reported one-step collisions is counted, not reported again under its own key
        parent = {k: k for k in ks}

        def find(a):
            while parent[a] != a:
                parent[a] = parent[parent[a]]
                a = parent[a]
            return a

        for x, y in itertools.combinations(ks, 2):
            if ndiff(x, y) == 1:
                parent[find(x)] = find(y)
        for x, y in itertools.combinations(ks, 2):
            if meaning[x] != meaning[y]:
                fam, part = pair_family(recs[x], recs[y])
                run.count("colliding_pairs:" + fam)
                if ndiff(x, y) > 1 and find(x) == find(y):
                    run.count("colliding_pairs_implied_by_one_step_chain")
                    continue
                viol.append((f"{fam}:{part}", rec_str(recs[x]), rec_str(recs[y]), x, y))
    for key, sx, sy, x, y in sorted(viol):
        run.violation(
            key,
            f"different compiled meaning, equal signature: {sx} vs {sy}",
            {"check": "collision", "a": recs[x], "b": recs[y]},
        )
    # one-step pairs: base vs mutant and sibling vs sibling (same base, exactly one differing parameter)
    one_step = 0
    by_base = {}
    for k, (bn, labels) in enumerate(recs):
        by_base.setdefault(bn, []).append(k)
    for bn, ks in by_base.items():
        for x, y in itertools.combinations(ks, 2):
            if meaning[x] != meaning[y] and sum(recs[x][1][p] != recs[y][1][p] for p in recs[x][1]) == 1:
                one_step += 1
    run.nontrivial = one_step
    for s in sorted(set(sig))[:0]:
        pass
    run.outcomes = set(sig)
    for k in range(0, n, max(1, n // 10)):
        run.sample({"recipe": rec_str(recs[k]), "signature": sig[k][:16]})
    run.rule = (
        "universe = every base form with default parameters + every one-step mutation of every parameter "
        "(thorough: + full parameter products of the bases marked product); all pairs compared; a pair is "
        "non-trivial when both recipes come from the same base and differ in exactly one parameter whose two "
        "values are different meaning classes"
    )
    run.bounds = {
        "bases": {b.name: {p: [v.label for v in vs] for p, (_, vs) in b.params.items()} for b in BASES},
        "n_bases": len(BASES),
        "recipes": n,
        "product_bases": [b.name for b in BASES if b.product] if thorough else [],
        "contexts": "two (counts 1000+slot / 2000+slot, mesh ids likewise, fresh Index objects)",
    }
    run.exhaustive = True
    run.assumptions += [
        "two recipes of the universe have different compiled meaning unless the generator gives them the same meaning class (2 vs 2.0, list vs tuple metadata, key order, renamed dummy indices, Not(<) vs >=, measure (1,2) vs one integral with tuple id): such pairs are never asserted to differ",
        "metadata values that differ only in Python type but print identically are not in the alphabet",
        "counters are kept inside the 4-digit range so that C12's known ordering defect (repr-ordered terminals) cannot leak into oracle (ii)",
        "PYTHONHASHSEED is fixed by ./check (the repr of ufl SobolevSpace parents iterates a set)",
        "a Coefficient placed in an ExternalOperator argument slot is not covered: Form.coefficients()/terminal numbering do not see it at all, so there is no signature data to compare",
    ]
    run.finish()
