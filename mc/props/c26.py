"""C26 Reference cell topology is internally consistent.

Complete enumeration of every named cell of ufl.cell (the keys of `_sub_entity_celltypes`), every
TensorProductCell of named cells up to the stated number of factors / total dimension, and recursively
every sub-entity object these return.  Each is compared with an independent combinatorial model:

  the face lattice of the polytope, built from three constructions on vertex sets
      point, cone(P) (apex added last), prod(P, Q) (vertex (i, j) -> i + |V(P)| j)
  vertex = point, interval = cone(vertex), triangle = cone(interval), quadrilateral = interval x interval,
  tetrahedron = cone(triangle), hexahedron = quadrilateral x interval, prism = triangle x interval,
  pyramid = cone(quadrilateral), pentatope = cone(tetrahedron), tesseract = hexahedron x interval,
  TensorProductCell(a, b, ...) = a x b x ...

From the lattice follow the face counts per dimension, the type of every face (classified by its own
f-vector), incidence numbers, and the lexicographic entity order used by the FEniCS reference cells.
Laws on UFL's own numbers (Euler relation, diamond property, accessor agreement, order laws) are checked
in addition.  Where TensorProductCell raises NotImplementedError the entry is recorded as "not provided".

Violation keys: "<law>:<cell>[|<detail>]"; laws touching the self-entity proxy returned by
Cell.sub_entities(tdim) are prefixed "proxy-".
"""

import itertools
import json
import re
import weakref
from math import comb

import numpy as np

import ufl.cell as C
from mc.runner import Run

PID = "C26"
PER_FAMILY_CAP = 8


# -------------------------------------------------------------------------------------------------
# model: face lattices
# -------------------------------------------------------------------------------------------------
class Poly:
    def __init__(self, dim, nv, faces):
        self.dim = dim
        self.nv = nv
        self.faces = {d: sorted(set(fs)) for d, fs in faces.items()}  # d -> sorted list of sorted vertex tuples
        self.f = [len(self.faces[d]) for d in range(dim + 1)]

    def sub(self, face):
        """f-vector of a face (as a polytope of its own)."""
        s = set(face)
        out = []
        for d in range(self.dim + 1):
            n = sum(1 for g in self.faces[d] if set(g) <= s)
            if n == 0:
                break
            out.append(n)
        return tuple(out)

    def incidence(self, d1, d2):
        return sum(1 for g in self.faces[d2] for h in self.faces[d1] if set(h) <= set(g))


def point():
    return Poly(0, 1, {0: [(0,)]})


def cone(P):
    apex = P.nv
    faces = {}
    for d in range(P.dim + 2):
        fs = list(P.faces.get(d, []))
        below = P.faces[d - 1] if d >= 1 else [()]
        fs += [tuple(sorted(g + (apex,))) for g in below]
        faces[d] = fs
    return Poly(P.dim + 1, P.nv + 1, faces)


def prod(P, Q):
    faces = {d: [] for d in range(P.dim + Q.dim + 1)}
    for a in range(P.dim + 1):
        for b in range(Q.dim + 1):
            for F in P.faces[a]:
                for G in Q.faces[b]:
                    faces[a + b].append(tuple(sorted(i + P.nv * j for i in F for j in G)))
    return Poly(P.dim + Q.dim, P.nv * Q.nv, faces)


def named_models():
    m = {}
    m["vertex"] = point()
    m["interval"] = cone(m["vertex"])
    m["triangle"] = cone(m["interval"])
    m["quadrilateral"] = prod(m["interval"], m["interval"])
    m["tetrahedron"] = cone(m["triangle"])
    m["hexahedron"] = prod(m["quadrilateral"], m["interval"])
    m["prism"] = prod(m["triangle"], m["interval"])
    m["pyramid"] = cone(m["quadrilateral"])
    m["pentatope"] = cone(m["tetrahedron"])
    m["tesseract"] = prod(m["hexahedron"], m["interval"])
    return m


MODELS = named_models()
FVEC2NAME = {tuple(p.f): n for n, p in MODELS.items()}
assert len(FVEC2NAME) == len(MODELS)
# closed formulas, independent of the constructions above (model self-test + simplex()/hypercube() factories)
for _n, _d in (("vertex", 0), ("interval", 1), ("triangle", 2), ("tetrahedron", 3), ("pentatope", 4)):
    assert MODELS[_n].f == [comb(_d + 1, k + 1) for k in range(_d + 1)], _n
for _n, _d in (("vertex", 0), ("interval", 1), ("quadrilateral", 2), ("hexahedron", 3), ("tesseract", 4)):
    assert MODELS[_n].f == [2 ** (_d - k) * comb(_d, k) for k in range(_d + 1)], _n
assert MODELS["prism"].f == [6, 9, 5, 1] and MODELS["pyramid"].f == [5, 8, 5, 1]


def face_types(P, d):
    """Names (ordered lexicographically by vertex tuple) of the d-faces of P; None where not a named cell."""
    return [FVEC2NAME.get(P.sub(g)) for g in P.faces[d]]


def is_simplex_model(P):
    return P.f == [comb(P.dim + 1, k + 1) for k in range(P.dim + 1)]


# -------------------------------------------------------------------------------------------------
# descriptors
# -------------------------------------------------------------------------------------------------
# desc: ("C", name) | ("T", (desc, desc, ...))
def dname(desc):
    if desc[0] == "C":
        return desc[1]
    return "TPC(" + ",".join(dname(x) for x in desc[1]) + ")"


def dbuild(desc):
    if desc[0] == "C":
        return C.Cell(desc[1])
    return C.TensorProductCell(*[dbuild(x) for x in desc[1]])


def dmodel(desc, memo={}):
    if desc not in memo:
        if desc[0] == "C":
            memo[desc] = MODELS[desc[1]]
        else:
            p = point()
            for x in desc[1]:
                p = prod(p, dmodel(x))
            memo[desc] = p
    return memo[desc]


def dtdim(desc):
    return dmodel(desc).dim


def djson(desc):
    return ["C", desc[1]] if desc[0] == "C" else ["T", [djson(x) for x in desc[1]]]


def dfromjson(j):
    return ("C", j[1]) if j[0] == "C" else ("T", tuple(dfromjson(x) for x in j[1]))


def desc_of(obj):
    """Descriptor read off a real cell object (used for sub-entities)."""
    if isinstance(obj, C.TensorProductCell):
        return ("T", tuple(desc_of(x) for x in obj.sub_cells))
    return ("C", obj.cellname)


def is_proxy(obj):
    return type(obj) in (weakref.ProxyType, weakref.CallableProxyType)


def outcome(f):
    """("ok", value) | ("np", "") for NotImplementedError | ("raise", type)."""
    try:
        return ("ok", f())
    except NotImplementedError:
        return ("np", "")
    except Exception as e:  # noqa: BLE001
        return ("raise", type(e).__name__)


class Checker:
    def __init__(self, run):
        self.run = run
        self.fail = {}
        self.order_universe = []  # (label, desc, obj, proxy?)
        self.keep = []  # owners of weak proxies must stay alive while the proxies are in the order universe
        self.lex_order_ok = 0
        self.lex_order_bad = []

    def vio(self, law, cellname, detail, what, witness):
        what = re.sub(r"0x[0-9a-f]+", "0x..", what)  # object addresses are not part of the finding
        key = f"{law}:{cellname}" + (f"|{detail}" if detail != "" else "")
        self.fail.setdefault(law, {}).setdefault(key, (key, what, witness))

    def flush(self):
        for law in sorted(self.fail):
            items = [self.fail[law][k] for k in sorted(self.fail[law])]
            self.run.count("fail:" + law, len(items))
            print(f"  failing family {law}: {len(items)} distinct inputs, e.g. {items[0][1]}")
            for key, what, wit in items[:PER_FAMILY_CAP]:
                self.run.violation(key, what, wit)
        self.fail = {}

    def add_order(self, label, desc, obj, root=None):
        # root: descriptor of the top-level cell from which obj was obtained (for replay)
        self.order_universe.append((label, desc, obj, is_proxy(obj), root or desc))

    # ---------------------------------------------------------------------------------------
    def check_cell(self, desc, obj=None, label=None, depth=0):
        """All single-cell checks of descriptor `desc` on the real object `obj` (built if None)."""
        run = self.run
        top = obj is None
        if obj is None:
            obj = dbuild(desc)
            self.keep.append(obj)
            run.transitions += 1
        name = label or dname(desc)
        wit = {"cell": djson(desc), "path": name}
        M = dmodel(desc)
        run.states += 1
        named = desc[0] == "C"
        pfx = "proxy-" if is_proxy(obj) else ""
        if M.dim >= 1:
            run.nontrivial += 1

        # --- dimension
        run.transitions += 1
        run.validated += 1
        t = obj.topological_dimension
        if t != M.dim:
            self.vio(pfx + "tdim", name, "", f"{name}.topological_dimension is {t}, model {M.dim}", wit)
            return
        # --- counts and sub-entities for every dimension (and two outside the range on each side)
        nums = {}
        ents = {}
        for d in range(-2, M.dim + 3):
            expect = M.f[d] if 0 <= d <= M.dim else 0
            o = outcome(lambda: obj.num_sub_entities(d))
            run.transitions += 1
            run.outcomes.add(("num", o[0]))
            if o[0] == "np":
                run.count("not_provided:num_sub_entities")
                run.error("NotImplementedError")
            elif o[0] == "raise":
                run.error(o[1])
                self.vio(pfx + "count-raises", name, d, f"{name}.num_sub_entities({d}) raises {o[1]}", wit)
            else:
                nums[d] = o[1]
                run.validated += 1
                if o[1] != expect or isinstance(o[1], bool):
                    self.vio(pfx + "count", name, d, f"{name}.num_sub_entities({d}) is {o[1]!r}, the polytope has {expect}", wit)
            o = outcome(lambda: obj.sub_entities(d))
            run.transitions += 1
            run.outcomes.add(("ents", o[0]))
            if o[0] == "np":
                run.count("not_provided:sub_entities")
                run.error("NotImplementedError")
            elif o[0] == "raise":
                run.error(o[1])
                self.vio(pfx + "entities-raises", name, d, f"{name}.sub_entities({d}) raises {o[1]}", wit)
            else:
                es = o[1]
                ents[d] = es
                run.validated += 1
                if not isinstance(es, tuple) or len(es) != expect:
                    self.vio(
                        pfx + "entities-count",
                        name,
                        d,
                        f"{name}.sub_entities({d}) has {len(es)} entries, the polytope has {expect} faces of dimension {d}",
                        wit,
                    )
                if d in nums and len(es) != nums[d]:
                    self.vio(
                        pfx + "num-vs-list",
                        name,
                        d,
                        f"{name}.num_sub_entities({d}) is {nums[d]} but sub_entities({d}) has {len(es)} entries",
                        wit,
                    )
                # each entity: a cell of dimension d of the right type
                got_types = []
                for k, e in enumerate(es):
                    run.transitions += 1
                    if not isinstance(e, C.AbstractCell):
                        self.vio(pfx + "entity-type", name, f"{d}|{k}", f"{name}.sub_entities({d})[{k}] is not a cell: {e!r}", wit)
                        got_types.append(None)
                        continue
                    if e.topological_dimension != d:
                        self.vio(
                            pfx + "entity-dim",
                            name,
                            f"{d}|{k}",
                            f"{name}.sub_entities({d})[{k}] = {e.cellname} has topological dimension {e.topological_dimension}, not {d}",
                            wit,
                        )
                    got_types.append(e.cellname)
                if 0 <= d < M.dim:
                    want = face_types(M, d)
                    run.validated += 1
                    if None not in want and sorted(map(str, got_types)) != sorted(want):
                        self.vio(
                            pfx + "entity-types",
                            name,
                            d,
                            f"{name}.sub_entities({d}) are {got_types}, the faces of the polytope are {want} (as multisets)",
                            wit,
                        )
                    elif None not in want:
                        if got_types == want:
                            self.lex_order_ok += 1
                        else:
                            self.lex_order_bad.append(f"{name}[{d}]: {got_types} vs lexicographic {want}")
                elif d == M.dim and len(es) == 1:
                    # the cell itself
                    e = es[0]
                    self.check_self_entity(name, desc, obj, e, wit)
            # unique types
            o = outcome(lambda: obj.sub_entity_types(d))
            run.transitions += 1
            if o[0] == "np":
                run.count("not_provided:sub_entity_types")
                run.error("NotImplementedError")
            elif o[0] == "raise":
                run.error(o[1])
                self.vio(pfx + "types-raises", name, d, f"{name}.sub_entity_types({d}) raises {o[1]}", wit)
            elif d in ents:
                ts = [x.cellname for x in o[1]]
                run.validated += 1
                if len(set(ts)) != len(ts) or set(ts) != {x.cellname for x in ents[d] if isinstance(x, C.AbstractCell)}:
                    self.vio(
                        pfx + "type-set",
                        name,
                        d,
                        f"{name}.sub_entity_types({d}) = {ts} is not the duplicate-free set of types of sub_entities({d}) = "
                        f"{[x.cellname for x in ents[d]]}",
                        wit,
                    )
        # --- Euler relation on UFL's own numbers
        if all(d in nums for d in range(M.dim + 1)):
            chi = sum((-1) ** d * nums[d] for d in range(M.dim + 1))
            run.validated += 1
            run.count("euler_checked")
            if chi != 1:
                self.vio(
                    pfx + "euler",
                    name,
                    "",
                    f"{name}: sum_d (-1)^d n_d = {chi} with n = {[nums[d] for d in range(M.dim + 1)]} (must be 1 including the cell itself)",
                    wit,
                )
        else:
            run.count("euler_not_derivable(not provided)")
        # --- incidences from the sub-entities' own counts
        for d2 in range(1, M.dim + 1):
            if d2 not in ents:
                continue
            for d1 in range(0, d2):
                vals = [outcome(lambda e=e: e.num_sub_entities(d1)) for e in ents[d2] if isinstance(e, C.AbstractCell)]
                if any(v[0] != "ok" for v in vals):
                    run.count("incidence_not_derivable(not provided)")
                    continue
                run.validated += 1
                got = sum(v[1] for v in vals)
                want = M.incidence(d1, d2)
                if got != want:
                    self.vio(
                        pfx + "incidence",
                        name,
                        f"{d1}|{d2}",
                        f"{name}: the {d2}-dimensional sub-entities have together {got} sub-entities of dimension {d1}; "
                        f"the polytope has {want} incident pairs",
                        wit,
                    )
        # diamond property on UFL's own numbers: every ridge lies in exactly two facets
        if M.dim >= 2 and (M.dim - 1) in ents and (M.dim - 2) in nums:
            vals = [outcome(lambda e=e: e.num_facets) for e in ents[M.dim - 1]]
            if all(v[0] == "ok" for v in vals):
                run.validated += 1
                run.count("diamond_checked")
                if sum(v[1] for v in vals) != 2 * nums[M.dim - 2]:
                    self.vio(
                        pfx + "diamond",
                        name,
                        "",
                        f"{name}: facets have together {sum(v[1] for v in vals)} facets of their own, but 2 x num_ridges = {2 * nums[M.dim - 2]}",
                        wit,
                    )
        # --- accessors
        acc = [
            ("num_vertices", "vertices", "vertex_types", 0),
            ("num_edges", "edges", "edge_types", 1),
            ("num_faces", "faces", "face_types", 2),
            ("num_facets", "facets", "facet_types", t - 1),
            ("num_ridges", "ridges", "ridge_types", t - 2),
            ("num_peaks", "peaks", "peak_types", t - 3),
        ]
        for an, al, at, d in acc:
            for attr, base, conv in (
                (an, lambda d=d: obj.num_sub_entities(d), lambda x: x),
                (al, lambda d=d: obj.sub_entities(d), lambda x: [y.cellname for y in x]),
                (at, lambda d=d: obj.sub_entity_types(d), lambda x: sorted(y.cellname for y in x)),
            ):
                a = outcome(lambda attr=attr: getattr(obj, attr))
                b = outcome(base)
                run.transitions += 2
                if a[0] == "np" or b[0] == "np":
                    run.count("not_provided:accessor")
                    if a[0] != b[0]:
                        self.vio(pfx + "accessor", name, attr, f"{name}.{attr} -> {a[0]} but the dimension-indexed call -> {b[0]}", wit)
                    continue
                run.validated += 1
                if a[0] != "ok" or b[0] != "ok" or conv(a[1]) != conv(b[1]):
                    self.vio(
                        pfx + "accessor",
                        name,
                        attr,
                        f"{name}.{attr} = {a[1] if a[0] != 'ok' else conv(a[1])} differs from the entities of dimension {d}: "
                        f"{b[1] if b[0] != 'ok' else conv(b[1])}",
                        wit,
                    )
        # --- flags
        simp = outcome(lambda: obj.is_simplex)
        hsf = outcome(lambda: obj.has_simplex_facets)
        run.transitions += 2
        m_simp = is_simplex_model(M)
        if simp[0] == "ok":
            run.validated += 1
            bad = (simp[1] != m_simp) if named else (simp[1] and not m_simp)
            if bad or not isinstance(simp[1], bool):
                self.vio(pfx + "flag-is_simplex", name, "", f"{name}.is_simplex is {simp[1]}; f-vector {M.f} is {'a' if m_simp else 'not a'} simplex", wit)
        if hsf[0] == "ok" and M.dim >= 1:
            m_hsf = all(len(g) == M.dim for g in M.faces[M.dim - 1])  # a (dim-1)-face is a simplex iff it has dim vertices
            run.validated += 1
            bad = (hsf[1] != m_hsf) if named else (hsf[1] and not m_hsf)
            if bad:
                self.vio(
                    pfx + "flag-has_simplex_facets",
                    name,
                    "",
                    f"{name}.has_simplex_facets is {hsf[1]}; the facets of the polytope are {face_types(M, M.dim - 1)}",
                    wit,
                )
        # --- identity: names, repr, eq, hash, reconstruct, as_cell
        if not is_proxy(obj):
            self.check_identity(name, desc, obj, wit)
        # --- recursion into sub-entities (every returned object is itself checked)
        for d, es in sorted(ents.items()):
            if d < 0 or d > M.dim:
                continue
            for k, e in enumerate(es):
                if not isinstance(e, C.AbstractCell) or e is obj:
                    continue
                if d == M.dim:
                    # the self entity: checked in check_self_entity; the one of a top-level cell joins the order universe
                    if top and (is_proxy(e) or desc_of(e) == desc):
                        self.add_order(f"{name}.self", desc, e, desc)
                    continue
                sub_desc = desc_of(e)
                lab = f"{name}.sub_entities({d})[{k}]"
                if depth < 6:
                    self.check_cell(sub_desc, e, lab, depth + 1)
                if top and k == 0:
                    self.add_order(f"{name}.sub({d})[0]", sub_desc, e, desc)

    # ---------------------------------------------------------------------------------------
    def check_self_entity(self, name, desc, obj, e, wit):
        """sub_entities(tdim)[0] must be the cell itself (same name, equal both ways, same hash, not ordered before/after)."""
        run = self.run
        run.transitions += 6
        run.validated += 1
        pfx = "proxy-" if is_proxy(e) else "self-"
        if not isinstance(e, C.AbstractCell):
            return
        if desc[0] == "T" and dtdim(desc) == 0 and not isinstance(e, C.TensorProductCell) and e.cellname == "vertex":
            # a 0-dimensional product returns its single vertex as a plain vertex cell: accepted
            run.count("tpc_of_dimension_0_self_entity_is_plain_vertex")
            return
        wit = dict(wit)
        name = dname(desc)
        if e.cellname != obj.cellname:
            self.vio(pfx + "name", name, "", f"{name}.sub_entities(tdim)[0].cellname is {e.cellname}", wit)
        r1, r2 = outcome(lambda: obj == e), outcome(lambda: e == obj)
        if r1 != ("ok", True) or r2 != ("ok", True):
            self.vio(
                pfx + "eq",
                name,
                "",
                f"c = {name}, s = c.sub_entities(c.topological_dimension)[0] ({type(e).__name__}): (c == s) -> {r1[1] if r1[0] == 'ok' else r1}, (s == c) -> {r2[1] if r2[0] == 'ok' else r2}",
                wit,
            )
        h = outcome(lambda: hash(e) == hash(obj))
        if h != ("ok", True):
            self.vio(pfx + "hash", name, "", f"hash({name}.sub_entities(tdim)[0]) -> {h[1] if h[0] == 'raise' else 'differs from hash of the cell'}", wit)
        if is_proxy(e) and desc[0] == "C":
            # the documented way to get the entity of full dimension from a temporary cell object
            dang = outcome(lambda: C.Cell(desc[1]).sub_entities(dtdim(desc))[0].cellname)
            run.transitions += 1
            if dang != ("ok", desc[1]):
                self.vio(
                    pfx + "dangling",
                    name,
                    "",
                    f"Cell({desc[1]!r}).sub_entities({dtdim(desc)})[0].cellname -> {dang[1] if dang[0] == 'raise' else dang} "
                    "(the returned weak proxy dies with the temporary cell)",
                    wit,
                )
        rr = outcome(lambda: (repr(e), str(e)))
        if rr[0] != "ok" or rr[1] != (repr(obj), str(obj)):
            self.vio(pfx + "repr", name, "", f"repr/str of {name}.sub_entities(tdim)[0] is {rr[1]}, of the cell {(repr(obj), str(obj))}", wit)

    def check_identity(self, name, desc, obj, wit):
        run = self.run
        run.validated += 1
        run.transitions += 8
        other = dbuild(desc)
        if desc[0] == "C":
            want_name, want_repr = desc[1], desc[1]
        else:
            want_name = " * ".join(dname(x) if x[0] == "C" else None or dbuild(x).cellname for x in desc[1])
            want_repr = "TensorProductCell(" + ", ".join(repr(dbuild(x)) for x in desc[1]) + ")"
        checks = [
            ("cellname", obj.cellname, want_name),
            ("repr", repr(obj), want_repr),
            ("str", str(obj), want_repr),
            ("eq-rebuilt", obj == other and other == obj and not (obj != other), True),
            ("hash-rebuilt", hash(obj) == hash(other), True),
            ("reconstruct", obj.reconstruct() == obj and type(obj.reconstruct()) is type(obj), True),
            ("cells", obj.cells == (obj,), True),
            ("eq-self", obj == obj, True),
        ]
        if desc[0] == "C":
            checks.append(("as_cell", C.as_cell(desc[1]) == obj, True))
        else:
            checks.append(("sub_cells", tuple(desc_of(x) for x in obj.sub_cells) == desc[1], True))
            checks.append(("as_cell", C.as_cell(tuple(dbuild(x) for x in desc[1])) == obj, True))
        for what, got, want in checks:
            if got != want:
                self.vio("identity", name, what, f"{name}: {what} gives {got!r}, expected {want!r}", wit)

    # ---------------------------------------------------------------------------------------
    def factories(self):
        run = self.run
        for fname, f, formula in (
            ("simplex", C.simplex, lambda d: [comb(d + 1, k + 1) for k in range(d + 1)]),
            ("hypercube", C.hypercube, lambda d: [2 ** (d - k) * comb(d, k) for k in range(d + 1)]),
        ):
            for d in range(0, 6):
                o = outcome(lambda: f(d))
                run.transitions += 1
                run.states += 1
                if o[0] != "ok":
                    run.error(o[1] or "NotImplementedError")
                    run.count(f"factory_refuses:{fname}")
                    continue
                c = o[1]
                run.validated += 1
                run.nontrivial += 1
                got = [c.num_sub_entities(k) for k in range(d + 1)]
                if c.topological_dimension != d or got != formula(d):
                    self.vio("factory", f"{fname}({d})", "", f"{fname}({d}) = {c.cellname} has counts {got}, closed formula {formula(d)}", {"factory": fname, "dim": d})
                if fname == "simplex" and not c.is_simplex:
                    self.vio("flag-is_simplex", c.cellname, "factory", f"ufl.cell.simplex({d}) = {c.cellname} but .is_simplex is False", {"cell": ["C", c.cellname], "path": c.cellname})

    # ---------------------------------------------------------------------------------------
    def order_laws(self, seed):
        run = self.run
        U = self.order_universe
        n = len(U)
        idx = list(range(n))
        if seed:
            import random

            random.Random(seed).shuffle(idx)
        LT = np.zeros((n, n), dtype=bool)
        DEF = np.zeros((n, n), dtype=bool)
        names = [u[0] for u in U]
        keys = [dname(u[1]) for u in U]
        prox = [u[3] for u in U]

        def fam(law, ids):
            return ("proxy-" if any(prox[i] for i in ids) else "") + law

        for i in idx:
            for j in idx:
                a, b = U[i][2], U[j][2]
                o = outcome(lambda: a < b)
                run.transitions += 1
                run.states += 1
                w = {"order": [djson(U[i][4]), djson(U[j][4])], "paths": [names[i], names[j]]}
                if o[0] != "ok":
                    run.error(o[1] or "NotImplementedError")
                    run.outcomes.add(("lt", o[0], o[1]))
                    nested = any(y[0] == "T" for u in (U[i], U[j]) if u[1][0] == "T" for y in u[1][1])
                    self.vio(fam("order-raises-nested" if nested else "order-raises", (i, j)), names[i], names[j], f"({names[i]} < {names[j]}) raises {o[1] or 'NotImplementedError'}", w)
                    continue
                if not isinstance(o[1], bool):
                    self.vio(fam("order-nonbool", (i, j)), names[i], names[j], f"({names[i]} < {names[j]}) returns {o[1]!r}", w)
                    continue
                run.outcomes.add(("lt", "ok", o[1]))
                DEF[i, j] = True
                LT[i, j] = o[1]
        for i in range(n):
            for j in range(n):
                a, b = U[i][2], U[j][2]
                same = keys[i] == keys[j]
                w = {"order": [djson(U[i][4]), djson(U[j][4])], "paths": [names[i], names[j]]}
                run.validated += 1
                if not same:
                    run.nontrivial += 1
                # equality must agree with the model identity (both ways), hash must follow
                eq = outcome(lambda: a == b)
                run.transitions += 1
                if eq != ("ok", same):
                    self.vio(fam("order-eq", (i, j)), names[i], names[j], f"({names[i]} == {names[j]}) -> {eq[1]}, the cells are {'the same' if same else 'different'}", w)
                if same and not prox[i] and not prox[j] and hash(a) != hash(b):
                    self.vio("order-hash", names[i], names[j], f"equal cells {names[i]}, {names[j]} with different hashes", w)
                if not (DEF[i, j] and DEF[j, i]):
                    continue
                if same:
                    if LT[i, j]:
                        self.vio(fam("order-irreflexive", (i, j)), names[i], names[j], f"({names[i]} < {names[j]}) is True although both denote the cell {keys[i]}", w)
                elif i < j:
                    if LT[i, j] and LT[j, i]:
                        self.vio(fam("order-asym", (i, j)), names[i], names[j], f"{names[i]} < {names[j]} and {names[j]} < {names[i]} both True", w)
                    if not LT[i, j] and not LT[j, i]:
                        self.vio(fam("order-total", (i, j)), names[i], names[j], f"distinct cells {names[i]}, {names[j]}: neither is < the other", w)
        # transitivity over all triples (vectorised): a<b, b<c defined and true, a<c defined and false
        ntr = 0
        for j in range(n):
            prem = np.outer(LT[:, j], LT[j, :])  # [i,k] : i<j and j<k
            ntr += int(prem.sum())
            bad = prem & DEF & ~LT
            for i, k in np.argwhere(bad):
                i, k = int(i), int(k)
                w = {"order": [djson(U[i][4]), djson(U[j][4]), djson(U[k][4])], "paths": [names[i], names[j], names[k]]}
                self.vio(
                    fam("order-trans", (i, j, k)),
                    names[i],
                    f"{names[j]}|{names[k]}",
                    f"{names[i]} < {names[j]} and {names[j]} < {names[k]} but ({names[i]} < {names[k]}) is False",
                    w,
                )
        run.states += n**3
        run.validated += n**3
        run.nontrivial += ntr
        run.count("order_triples_with_true_premise", ntr)
        # sorting two permutations of the distinct, non-proxy cells gives the same sequence
        reps = {}
        for i in range(n):
            if not prox[i]:
                reps.setdefault(keys[i], U[i][2])
        objs = [reps[k] for k in sorted(reps)]
        s1 = outcome(lambda: [repr(x) for x in sorted(objs)])
        s2 = outcome(lambda: [repr(x) for x in sorted(reversed(objs))])
        run.transitions += 2
        if s1[0] == "ok" and s2[0] == "ok":
            run.validated += 1
            if s1[1] != s2[1]:
                self.vio("order-sort", "all", "", "sorted() of the cell universe depends on the input order", {"sorted1": s1[1][:20], "sorted2": s2[1][:20]})
        else:
            run.count("sorted_raises")
        return n


def tpc_descs(max_factors, max_tdim, names):
    out = []
    named = [("C", n) for n in names]
    for k in range(1, max_factors + 1):
        for combo in itertools.product(named, repeat=k):
            if sum(dtdim(x) for x in combo) <= max_tdim:
                out.append(("T", tuple(combo)))
    return out


def nested_descs(max_tdim, names):
    """One level of nesting: TPC(TPC(a, b), c) and TPC(c, TPC(a, b))."""
    named = [("C", n) for n in names]
    out = []
    for a, b, c in itertools.product(named, repeat=3):
        if dtdim(a) + dtdim(b) + dtdim(c) <= max_tdim and dtdim(a) + dtdim(b) >= 1:
            inner = ("T", (a, b))
            out.append(("T", (inner, c)))
            out.append(("T", (c, inner)))
    return out


def main(argv):
    try:
        _main(argv)
    except Exception:  # harness/internal error: exit 2, never a VIOLATION line
        import sys
        import traceback

        traceback.print_exc()
        sys.exit(2)


def _main(argv):
    run = Run(PID, argv)
    if run.args.replay:
        return replay(run)
    quick = not run.thorough()
    names = list(C._sub_entity_celltypes)
    unknown = [n for n in names if n not in MODELS]
    if unknown:
        raise RuntimeError(f"cells without a model in the harness: {unknown}")  # harness error, exit 2
    ck = Checker(run)
    max_f, max_t = (3, 3) if quick else (4, 4)
    descs = [("C", n) for n in names]
    tp = tpc_descs(max_f, max_t, names)
    nest = nested_descs(2 if quick else 3, names)
    order = descs + tp + nest
    if run.seed:
        import random

        random.Random(run.seed).shuffle(order)
    for d in order:
        ck.check_cell(d)
        ck.add_order(dname(d), d, dbuild(d))
    ck.factories()
    # unsupported names are refused
    for bad in ("point", "square", "cube", "Triangle", ""):
        o = outcome(lambda: C.Cell(bad))
        run.transitions += 1
        if o[0] == "raise":
            run.error(o[1])
        else:
            ck.vio("identity", repr(bad), "accepted", f"Cell({bad!r}) is accepted", {"name": bad})
    # canonical universe order for the order laws (independent of the seed)
    ck.order_universe.sort(key=lambda u: (u[0], u[3]))
    n = ck.order_laws(run.seed)
    ck.flush()
    run.extra["facet_order"] = {
        "entity_tuples_in_lexicographic_reference_order": ck.lex_order_ok,
        "entity_tuples_in_other_order(not a violation)": sorted(set(ck.lex_order_bad))[:20],
    }
    for d in (("C", "prism"), ("C", "pyramid"), ("C", "tesseract"), ("T", (("C", "triangle"), ("C", "interval")))):
        c = dbuild(d)
        run.sample(
            {
                "cell": dname(d),
                "model_f_vector": dmodel(d).f,
                "ufl_counts": [outcome(lambda k=k: c.num_sub_entities(k))[1] if outcome(lambda k=k: c.num_sub_entities(k))[0] == "ok" else "not provided" for k in range(dtdim(d) + 1)],
                "facets": [x.cellname for x in c.facets] if outcome(lambda: c.facets)[0] == "ok" else "not provided",
            }
        )
    run.bounds.update(
        named_cells=names,
        tensor_product_cells=len(tp),
        tensor_product_max_factors=max_f,
        tensor_product_max_tdim=max_t,
        nested_tensor_product_cells=len(nest),
        order_universe=n,
        order_pairs=n * n,
        order_triples=n**3,
        recursion="every object returned by sub_entities() is checked like a top-level cell (depth <= 6)",
        reporting_cap_per_key_family=PER_FAMILY_CAP,
    )
    run.rule = (
        "every named cell, every TensorProductCell over named factors within the bounds, every sub-entity object they return "
        "(recursively); order laws on all pairs and triples of the universe {cells, one sub-entity alias per (cell, dim), "
        "self-entity proxies}; a cell case is non-trivial if tdim >= 1, an order pair if the two cells differ, a triple if "
        "a<b and b<c hold"
    )
    run.assumptions += [
        "model: face lattices generated by point/cone/product constructions; face types classified by their f-vector "
        "(unique among the named cells); closed formulas for simplices and hypercubes validate the model at import",
        "TensorProductCell is the Cartesian product polytope of its factors; entries it refuses with NotImplementedError are "
        "counted as 'not provided' and carry no verdict",
        "is_simplex / has_simplex_facets are compared two-sided for named cells, one-sided (True must be justified) for "
        "TensorProductCell",
        "the order of entities inside a sub_entities tuple is only recorded (compared with the lexicographic reference "
        "order), not required",
        "violations are reported up to %d per key family; exact totals are in counters 'fail:<family>'" % PER_FAMILY_CAP,
    ]
    run.exhaustive = True
    run.finish()


def replay(run):
    with open(run.args.replay) as f:
        rp = json.load(f)
    wit = rp["witness"]
    ck = Checker(run)
    if "order" in wit:
        ds = []
        for j in wit["order"]:
            if dfromjson(j) not in ds:
                ds.append(dfromjson(j))
        for d in ds:
            ck.check_cell(d)
            ck.add_order(dname(d), d, dbuild(d))
        ck.order_universe.sort(key=lambda u: (u[0], u[3]))
        ck.order_laws(0)
    elif "cell" in wit:
        d = dfromjson(wit["cell"])
        ck.check_cell(d)
        ck.factories()
    else:
        ck.factories()
    hit = False
    for law, items in ck.fail.items():
        for key, (k, what, w) in items.items():
            if key == rp["key"]:
                hit = True
                print("reproduced:", what)
                run.violation(key, what, w)
    ck.fail = {}
    if not hit:
        print("not reproduced:", rp["key"])
    run.finish()
