"""C08 Function pullbacks implement each element's declared push-forward.

Complete catalogue of pullback kinds x reference shapes x nested mixed/symmetric compositions (all pairs,
selected triples, two levels of nesting) x cell types incl. immersed manifolds x concrete cells (det J of
both signs, both orientations): apply_function_pullbacks is run on the real code and the value of the
rewritten form argument (in reference values, J, K, det J) is compared with the push-forward written
directly in the reference model; the UFL shape must equal the function space's value shape and the
shape predicted by the model.
"""

import itertools
import json

import ufl
from mc import elements as E
from mc import envs as EV
from mc.runner import Part, Run, pmap
from mc.sem import fields as F
from mc.sem import sem as M
from mc.sem.cells import ConcreteCell
from mc.sem.fields import FieldData
from mc.sem.jet import Ambiguous, Undefined, mpf, set_order
from ufl.pullback import contravariant_piola, covariant_piola, l2_piola
from ufl.sobolevspace import L2, HCurl, HDiv

PID = "C08"
MESHES = [("interval", 1), ("interval", 2), ("triangle", 2), ("triangle", 3), ("tetrahedron", 3)]


def leaves(cellname):
    c = cellname
    t = EV.TDIM[c]
    out = {
        "P1": E.P(c, 1),
        "P2": E.P(c, 2),
        "DG0": E.DG(c, 0),
        "P1v": E.P(c, 1, (2,)),
        "P1t": E.P(c, 1, (2, 3)),
        "RT": E.RT(c, 1),
        "N1": E.N1curl(c, 1),
        "L2P": E.DGpiola(c, 0),
        "L2Pv": E.Elem("DGpiolaV", ufl.Cell(c), 1, (2,), l2_piola, L2),
        "Regge": E.Regge(c, 1),
        "HHJ": E.HHJ(c, 1),
        "GLS": E.CovContra(c, 1),
        # row-wise Piola maps applied to tensor-valued reference functions
        "RTrows": E.Elem("RTrows", ufl.Cell(c), 1, (2, t), contravariant_piola, HDiv),
        "N1rows": E.Elem("N1rows", ufl.Cell(c), 1, (3, t), covariant_piola, HCurl),
    }
    return out


def sym_map(n):
    sym = {}
    k = 0
    for i in range(n):
        for j in range(i, n):
            sym[(i, j)] = sym[(j, i)] = k
            k += 1
    return sym, k


def catalogue(cellname, quick):
    lv = leaves(cellname)
    cat = dict(lv)
    names = list(lv)
    # all ordered pairs of leaves
    for a, b in itertools.product(names, repeat=2):
        cat[f"Mixed[{a},{b}]"] = E.Mixed([lv[a], lv[b]])
    # triples over a reduced set
    red = ["P1", "P1v", "RT", "N1", "L2P", "Regge"] if quick else ["P1", "P1v", "P1t", "RT", "N1", "L2P", "Regge", "HHJ", "GLS"]
    for a, b, c in itertools.product(red, repeat=3):
        if quick and len({a, b, c}) < 2:
            continue
        cat[f"Mixed[{a},{b},{c}]"] = E.Mixed([lv[a], lv[b], lv[c]])
    # symmetric elements: 2x2 and 3x3 of scalar leaves, and of vector / Piola sub-elements
    for n in (2, 3):
        sym, k = sym_map(n)
        for base in ["P1", "P2", "DG0", "L2P", "P1v", "RT", "N1", "Regge"]:
            if quick and n == 3 and base not in ("P1", "RT"):
                continue
            cat[f"Sym{n}[{base}]"] = E.Symmetric(sym, [lv[base] for _ in range(k)])
    # a symmetric element whose sub-elements differ in degree
    sym, k = sym_map(2)
    cat["Sym2[P1,P2,P1]"] = E.Symmetric(sym, [lv["P1"], lv["P2"], lv["P1"]])
    # non-symmetric "symmetry" map (a repeated block)
    cat["Rep[P1,P2]"] = E.Symmetric({(0,): 0, (1,): 1, (2,): 0}, [lv["P1"], lv["P2"]])
    # "symmetry" maps that are bijections (reference size == physical size) but not the row-major identity:
    # a permuted vector block and a column-major 2x2 tensor, alone and inside a mixed element
    cat["Perm[P1,P2]"] = E.Symmetric({(0,): 1, (1,): 0}, [lv["P1"], lv["P2"]])
    cat["ColMajor[P1,P2,DG0,L2P]"] = E.Symmetric({(0, 0): 0, (1, 0): 1, (0, 1): 2, (1, 1): 3}, [lv["P1"], lv["P2"], lv["DG0"], lv["L2P"]])
    cat["Mixed[ColMajor,P1]"] = E.Mixed([cat["ColMajor[P1,P2,DG0,L2P]"], lv["P1"]])
    cat["Mixed[P1,Perm]"] = E.Mixed([lv["P1"], cat["Perm[P1,P2]"]])
    # nesting: mixed of mixed, mixed containing symmetric, symmetric inside mixed inside mixed
    inner = ["Mixed[P1,RT]", "Mixed[RT,L2P]", "Mixed[N1,P1v]", "Sym2[P1]", "Sym2[RT]", "Mixed[Regge,P1]"]
    for a in inner:
        for b in ["P1", "RT", "N1", "HHJ", "Sym2[P1]", "Mixed[RT,L2P]"]:
            if a in cat and b in cat:
                cat[f"Mixed[{a},{b}]"] = E.Mixed([cat[a], cat[b]])
                cat[f"Mixed[{b},{a}]"] = E.Mixed([cat[b], cat[a]])
    cat["Mixed[Mixed[Mixed[P1,RT],N1],Sym2[P1]]"] = E.Mixed([E.Mixed([cat["Mixed[P1,RT]"], lv["N1"]]), cat["Sym2[P1]"]])
    return cat


def cells_for(cellname, gdim):
    out = []
    vs = EV.VERTS[(cellname, gdim)]
    tdim = EV.TDIM[cellname]
    for k, verts in enumerate(vs):
        for ori in ([1, -1] if gdim > tdim else [1]):
            out.append((ConcreteCell(cellname, verts, orientation=ori), EV.POINTS[tdim][k % 2], f"{cellname}{gdim}d#{k}/ori{ori}"))
    return out


def work(items):
    from ufl.algorithms.apply_function_pullbacks import apply_function_pullbacks

    part = Part()
    set_order(0)
    cats = {}
    meshes = {}
    for cellname, gdim, name in items:
        if cellname not in cats:
            cats[cellname] = catalogue(cellname, False)
        if (cellname, gdim) not in meshes:
            meshes[(cellname, gdim)] = EV.mesh(cellname, gdim)
        el = cats[cellname][name]
        mesh = meshes[(cellname, gdim)]
        key = f"{name}@{cellname}{gdim}d"
        part.inc("transitions")
        try:
            V = ufl.FunctionSpace(mesh, el)
            f = ufl.Coefficient(V)
            vshape = tuple(V.value_shape)
            e = apply_function_pullbacks(f)
        except BaseException as ex:  # noqa: BLE001
            if isinstance(ex, (KeyboardInterrupt, SystemExit, MemoryError)):
                raise
            part.error(type(ex).__name__)
            continue
        part.inc("states")
        wit = {"element": name, "cell": cellname, "gdim": gdim, "repr": repr(el)[:500]}
        ok = True
        for cell, X0, cname in cells_for(cellname, gdim):
            try:
                mshape = F.physical_shape(el, cell)
            except Undefined:
                part.count("model_undefined")
                continue
            if tuple(e.ufl_shape) != vshape or vshape != tuple(mshape) or tuple(f.ufl_shape) != vshape:
                part.violation(
                    f"{PID}:shape:{key}",
                    f"value shape mismatch for {key}: pulled-back {tuple(e.ufl_shape)}, space {vshape}, model {tuple(mshape)}",
                    dict(wit, pulled_back_shape=list(e.ufl_shape), value_shape=list(vshape), model_shape=list(mshape)),
                )
                ok = False
                break
            for cm in (False, True):
                env = M.Env(cell, X0, fields=FieldData(salt=3, complex_mode=cm), name=cname)
                try:
                    ref = M.sem(f, M.Ctx(env), {})
                    val = M.sem(e, M.Ctx(env), {})
                except (Ambiguous, Undefined):
                    part.count("model_undefined")
                    continue
                part.inc("validated")
                if not M.values_close(val, ref, mpf("1e-12")):
                    part.violation(
                        f"{PID}:value:{key}",
                        f"pulled-back {key} differs from the element's push-forward on {cname}",
                        dict(wit, env=env.describe(), model=M.show(ref), ufl=M.show(val), expr=str(e)[:1500]),
                    )
                    ok = False
                    break
            if not ok:
                break
        if ok:
            part.inc("nontrivial")
            part.outcome((type(el.pullback).__name__, vshape))
            part.sample({"element": name, "cell": cellname, "gdim": gdim, "value_shape": list(vshape)}, limit=2)
    return part.dict()


def main(argv):
    run = Run(PID, argv)
    quick = not run.thorough()
    if run.args.replay:
        return replay(run)
    items = []
    for cellname, gdim in MESHES:
        names = list(catalogue(cellname, quick))
        run.bounds[f"elements@{cellname}{gdim}d"] = len(names)
        items += [(cellname, gdim, n) for n in names]
    for d in pmap(work, items, seed=run.seed):
        run.merge(d)
    run.bounds.update(
        meshes=[f"{c}{g}d" for c, g in MESHES],
        leaves=list(leaves("triangle")),
        compositions="all ordered pairs of leaves; triples over a reduced leaf set; symmetric 2x2/3x3 of scalar, vector and Piola sub-elements; "
        "mixed of mixed / mixed containing symmetric (two levels)",
        cells="2 concrete cells per mesh (det J of both signs), both orientations on immersed cells, real and complex reference data",
    )
    run.rule = "one state per (element composition, mesh); non-trivial = shape and value agreed on every concrete cell and both data sets"
    run.assumptions += ["on immersed manifolds det J carries the CellOrientation sign (UFL convention)"]
    run.finish()


def replay(run):
    with open(run.args.replay) as f:
        w = json.load(f)["witness"]
    run.merge(work([(w["cell"], w["gdim"], w["element"])]))
    run.finish()
