"""C10 Index rewriting passes are value-preserving and hygienic.

Exhaustive exploration of index-notation expressions over a pool of three deliberately reused Index
objects (pipeline grammar: index -> multiply/add -> as_tensor -> index -> multiply/add -> ...).  On every
state the passes expand_indices, remove_component_tensors, renumber_indices and their compositions are
run on the real code and compared (type + value for every free-index assignment, lexical scoping) with
the reference value of the input.
"""

import itertools
import json

import ufl
from mc import elements as E
from mc import envs as EV
from mc import passes as P
from mc.explore import check_recipe, dedup, run_level
from mc.runner import Part, Run
from mc.sem import lang as L
from mc.sem.jet import set_order

PID = "C10"


def universe():
    m = EV.mesh("triangle")
    S = ufl.FunctionSpace(m, E.P("triangle", 2))
    V = ufl.FunctionSpace(m, E.P("triangle", 1, (2,)))
    T = ufl.FunctionSpace(m, E.P("triangle", 1, (2, 2)))
    f = ufl.Coefficient(S)
    c = ufl.Constant(m)
    v = ufl.Coefficient(V)
    w = ufl.Coefficient(V)
    A = ufl.Coefficient(T)
    t = {
        "f": f,
        "c": c,
        "v": v,
        "w": w,
        "A": A,
        "I": ufl.Identity(2),
        "two": ufl.as_ufl(2),
        "Vf": ufl.variable(f * c),
        "Vv": ufl.variable(v),
        "VA": ufl.variable(A),
        # mixed extents: renaming / reordering of free indices must keep each index's own dimension
        "M": ufl.Coefficient(ufl.FunctionSpace(m, E.P("triangle", 1, (2, 3)))),
        "b3": ufl.Coefficient(ufl.FunctionSpace(m, E.P("triangle", 1, (3,)))),
        "z": ufl.constantvalue.Zero(),
    }
    return L.Universe(t)


def has_index_nodes(o):
    from ufl.corealg.traversal import unique_pre_traversal

    for n in unique_pre_traversal(o):
        tn = type(n).__name__
        if tn in ("IndexSum", "ComponentTensor"):
            return tn
        if tn == "MultiIndex" and any(type(i).__name__ == "Index" for i in n.indices()):
            return "Index in MultiIndex"
        if tn not in ("Label", "MultiIndex") and n.ufl_free_indices:
            return "free index"
    return None


def pass_check(recipe, obj, lts, ctxs, envs, part, U):
    from ufl.algorithms import expand_indices
    from ufl.algorithms.remove_component_tensors import remove_component_tensors
    from ufl.algorithms.renumbering import renumber_indices

    key = L.show_recipe(recipe)
    wit = {"recipe": recipe, "show": key, "before": repr(obj)[:1500]}
    ok = True

    def run(name, fn, o):
        try:
            return fn(o)
        except BaseException as e:  # noqa: BLE001
            if isinstance(e, (KeyboardInterrupt, SystemExit, MemoryError)):
                raise
            part.error(f"{name}:{type(e).__name__}")
            return None

    # remove_component_tensors: same type, same value
    rct = run("remove_component_tensors", remove_component_tensors, obj)
    part.inc("transitions")
    if rct is not None:
        ok &= P.check_pass("remove_component_tensors", obj, rct, envs, part, PID, key, wit)
    # renumber_indices: free indices are renamed -> value equal under some dimension-respecting bijection
    rn = run("renumber_indices", renumber_indices, obj)
    part.inc("transitions")
    if rn is not None:
        ok &= renumber_ok("renumber_indices", obj, rn, envs, part, key, wit)
    # expand_indices: scalar, index-free inputs only (anything else it may reject)
    scalar_closed = obj.ufl_shape == () and not obj.ufl_free_indices
    if scalar_closed:
        ei = run("expand_indices", expand_indices, obj)
        part.inc("transitions")
        if ei is not None:
            good = P.check_pass("expand_indices", obj, ei, envs, part, PID, key, wit)
            ok &= good
            if good:
                left = has_index_nodes(ei)
                if left:
                    part.violation(
                        f"{PID}:expand_indices-leftover:{key}",
                        f"expand_indices left {left} in the result of {key}",
                        dict(wit, after=repr(ei)[:1500]),
                    )
                    ok = False
        # a second call in the same process on a label-preserving rebuild of the same expression (what replace() and
        # every rewriting pass produce: Variable(new content, old label)): nothing may be remembered per label
        from ufl.classes import Variable
        from ufl.corealg.traversal import unique_pre_traversal

        if any(isinstance(n, Variable) for n in unique_pre_traversal(obj)):
            t = U.t
            obj2 = run("replace", lambda o: ufl.replace(o, {t["v"]: t["w"], t["f"]: 2 * t["f"] + 1, t["A"]: 3 * t["A"]}), obj)
            if obj2 is not None:
                ei2 = run("expand_indices[rebuilt variables]", expand_indices, obj2)
                part.inc("transitions")
                if ei2 is not None:
                    wit2 = dict(wit, before=repr(obj2)[:1500], rebuilt_with="replace(e, {v: w, f: 2*f+1, A: 3*A})")
                    ok &= P.check_pass("expand_indices[rebuilt variables]", obj2, ei2, envs, part, PID, key, wit2)
        # compositions of length 2
        if rct is not None:
            e2 = run("expand_indices.remove_component_tensors", expand_indices, rct)
            part.inc("transitions")
            if e2 is not None:
                ok &= P.check_pass("expand_indices.remove_component_tensors", obj, e2, envs, part, PID, key, wit)
    if rct is not None:
        r2 = run("renumber_indices.remove_component_tensors", renumber_indices, rct)
        part.inc("transitions")
        if r2 is not None:
            ok &= renumber_ok("renumber_indices.remove_component_tensors", obj, r2, envs, part, key, wit)
    if rn is not None:
        r3 = run("remove_component_tensors.renumber_indices", remove_component_tensors, rn)
        part.inc("transitions")
        if r3 is not None:
            ok &= renumber_ok("remove_component_tensors.renumber_indices", obj, r3, envs, part, key, wit)
    return None if ok else "VIOLATION"


def renumber_ok(name, obj, rn, envs, part, key, wit):
    if tuple(obj.ufl_shape) != tuple(rn.ufl_shape) or sorted(obj.ufl_index_dimensions) != sorted(
        rn.ufl_index_dimensions
    ):
        part.violation(
            f"{PID}:{name}:{key}",
            f"{name} changed shape / number or dimensions of free indices: {key}",
            dict(wit, after=repr(rn)[:1500]),
        )
        return False
    maps = P.index_bijections(obj, rn)
    from mc.sem.jet import Ambiguous, Undefined

    for env in envs:
        verdict = None
        last = None
        try:
            for m in maps:
                d = P.compare_values(obj, rn, env, index_map=m)
                if d is None:
                    verdict = True
                    break
                last = d
            else:
                verdict = False
        except Ambiguous:
            part.count("ambiguous_env")
            continue
        except Undefined:
            part.count("model_undefined_env")
            continue
        part.inc("validated")
        if not verdict:
            part.violation(
                f"{PID}:{name}:{key}",
                f"{name} changed the value of {key} (under every renaming of free indices)",
                dict(wit, env=env.describe(), diff=last, after=repr(rn)[:1500]),
            )
            return False
    return True


IDX = {
    1: [("i",), ("j",), ("k",), (0,), (1,)],
    2: [
        ("i", "j"),
        ("j", "i"),
        ("i", "k"),
        ("k", "i"),
        ("i", "i"),
        ("k", "k"),
        (0, "i"),
        ("i", 0),
        ("k", 1),
        (0, "k"),
        (":", "i"),
        ("i", ":"),
        (":", 0),
        (0, 1),
    ],
}


def _terms(r):
    if r[0] == "t":
        return [r[1]]
    out = []
    for x in r[1:]:
        if isinstance(x, tuple):
            out += _terms(x)
    return out


def index_cands(st, patterns=IDX):
    return [("getitem", st.recipe) + p for p in patterns.get(st.rank, [])]


def tensor_cands(st, maxn=2):
    out = []
    if st.rank == 0 and st.fid:
        names = sorted(st.fid)
        for k in range(1, min(len(names), maxn) + 1):
            for sel in itertools.permutations(names, k):
                out.append(("as_tensor", st.recipe) + sel)
    return out


def bin_cands(a, b, ops=("mul", "add", "sub")):
    out = []
    for op in ops:
        out.append((op, a.recipe, b.recipe))
        if op != "add":
            out.append((op, b.recipe, a.recipe))
    return out


def main(argv):
    run = Run(PID, argv)
    set_order(0)
    U = universe()
    quick = not run.thorough()
    envs = EV.cell_envs("triangle", n=1 if quick else 2)
    if run.args.replay:
        return replay(run, U, envs)
    seen = set()

    def level(cands, lvl, sample_every=0):
        import sys
        import time

        cands = sorted(set(cands), key=repr)
        print(f"[{PID}] level {lvl}: {len(cands)} candidates t={time.time() - run.t0:.0f}s", file=sys.stderr)
        run.bounds[f"level{lvl}_candidates"] = len(cands)
        new = run_level(cands, U, envs, PID, run, run.seed, extra_check=pass_check, compare=False, sample_every=sample_every)
        sts, _ = dedup(new, seen, lvl, run)
        return sts

    l0 = level([("t", n) for n in U.t], 0)
    # L1: indexing of terminals
    c = []
    for s in l0:
        c += index_cands(s)
    l1 = level(c, 1)
    # L2: products / sums / quotients of (L0 u L1) x (L0 u L1)
    base = l0 + l1
    c = []
    for a in base:
        for b in base:
            c += bin_cands(a, b)
        c.append(("div", a.recipe, ("t", "f")))
        c.append(("neg", a.recipe))
    for a in l1:
        for b in l1:
            if a.shape == b.shape and set(a.fid) == set(b.fid):
                c.append(("as_vector", a.recipe, b.recipe))
    # zeros carrying free indices (also of mixed extents) and conditionals with such a zero as a branch
    for a in l1:
        if a.fid:
            c.append(("mul", ("t", "z"), a.recipe))
            zr = ("mul", ("t", "z"), a.recipe)
            c.append(("conditional", ("lt", ("t", "f"), ("t", "c")), zr, a.recipe))
            c.append(("conditional", ("gt", ("t", "f"), ("t", "c")), a.recipe, zr))
    l2 = level(c, 2, sample_every=200)
    # L3: as_tensor over L1 u L2 (every selection/permutation of <= 2 free indices)
    c = []
    for s in l1 + l2:
        c += tensor_cands(s)
    # products of the (zero-branch) conditionals with indexed terminals in both orders: the index sums are created
    # in different orders, so renumbering visits the indices of the Zero in either order
    condz = [s for s in l2 if s.recipe[0] == "conditional" and s.fid]
    for s in condz:
        for b in l1:
            if b.fid and set(b.fid) <= set(s.fid) and len(b.fid) == 1:
                c.append(("mul", b.recipe, s.recipe))
                c.append(("mul", s.recipe, b.recipe))
                for b2 in l1:
                    if b2.fid and set(b2.fid) <= set(s.fid) and len(b2.fid) == 1 and set(b2.fid) != set(b.fid):
                        c.append(("mul", b2.recipe, ("mul", b.recipe, s.recipe)))
    l3 = level(c, 3, sample_every=500)
    # L3b/L3c: component tensors that are NOT directly indexed (operand of dot/inner, of a tensor sum, branch of a
    # tensor-valued conditional) inside a second tensor scope over the same index objects
    c = []
    for s in l3:
        if s.rank != 1 or len(s.fid) != 1 or not set(_terms(s.recipe)) <= {"v", "A", "f", "w"}:
            continue
        r = s.recipe
        c += [("dot", r, ("t", "v")), ("dot", ("t", "w"), r), ("inner", r, ("t", "v")), ("add", r, ("t", "w")),
              ("conditional", ("lt", ("t", "f"), ("t", "c")), r, ("t", "w"))]
    l3b = level(c, 31, sample_every=300)
    c = []
    for s in l3b:
        if s.rank == 1:
            c += index_cands(s, {1: IDX[1][:4]})
    l3b2 = level(c, 32, sample_every=1000)
    c = []
    for s in l3b + l3b2:
        if s.rank == 0:
            c += tensor_cands(s, maxn=1)
    l3c = level(c, 33, sample_every=1000)
    # L4: index the tensors of L3 (and the list tensors of L2) again with pool indices
    c = []
    pats = IDX if not quick else {1: IDX[1][:4], 2: IDX[2][:6]}
    src = l3 + l3c + [s for s in l2 if s.rank]
    # only tensors whose recipe mentions terminals from a reduced set (the full set does not finish in reasonable time)
    allowed = {"v", "A", "Vv", "f", "w"} if quick else {"v", "A", "Vv", "Vf", "f", "w", "c", "I"}
    src = [s for s in src if set(_terms(s.recipe)) <= allowed]
    for s in src:
        c += index_cands(s, pats)
    l4 = level(c, 4, sample_every=2000)
    # L5: multiply / add with indexed terminals (the outer scope that reuses the same index objects)
    partners = [s for s in l1 if s.recipe[1][1] in ("v", "w", "A", "Vv") and s.fid] + [
        s for s in l0 if s.recipe[1] in ("f",)
    ]
    keep = {("getitem", ("t", "v"), "k"), ("getitem", ("t", "v"), "i"), ("getitem", ("t", "A"), "i", "k")}
    if not quick:
        keep |= {("getitem", ("t", "w"), "j"), ("getitem", ("t", "A"), "k", "i"), ("getitem", ("t", "Vv"), "i"), ("t", "f")}
    partners = [s for s in partners if s.recipe in keep]
    c = []
    for a in l4:
        for b in partners:
            c += bin_cands(a, b, ops=("mul", "add"))
    l5 = level(c, 5, sample_every=5000)
    levels = [l0, l1, l2, l3, l3b, l3b2, l3c, l4, l5]
    if not quick:
        c = []
        for s in sorted(l5, key=lambda s: (len(repr(s.recipe)), repr(s.recipe)))[:4000]:
            c += tensor_cands(s, maxn=1)
            if s.rank:
                c += index_cands(s, {1: IDX[1][:4], 2: IDX[2][:6]})
        l6 = level(c, 6, sample_every=20000)
        levels.append(l6)
    run.bounds.update(
        grammar="L1 index terminals; L2 binary (+,-,*,/f, as_vector) over L0 u L1; L3 as_tensor(<=2 indices, all permutations); "
        "L3b dot/inner/+/conditional with an un-indexed component tensor, L3c as_tensor again; L4 index again with pool indices; L5 * and + with indexed terminals; (thorough) L6 as_tensor/index again",
        terminals=sorted(U.t),
        index_pool=sorted(U.idx),
        levels=[len(x) for x in levels],
        envs=[e.name for e in envs],
        passes=["remove_component_tensors", "renumber_indices", "expand_indices", "and their compositions of length 2"],
    )
    run.rule = (
        "every recipe of the stated pipeline grammar; state = distinct repr of the constructed object; on each state all passes "
        "are executed and compared with the input's reference value; non-trivial = constructed and evaluated by the model"
    )
    run.assumptions += ["lexical scoping of free indices (inner bindings shadow outer ones)"]
    run.finish()


def replay(run, U, envs):
    with open(run.args.replay) as f:
        rp = json.load(f)

    def tup(x):
        return tuple(tup(y) for y in x) if isinstance(x, list) else x

    recipe = tup(rp["witness"]["recipe"])
    part = Part()
    check_recipe(recipe, U, envs, part, PID, extra_check=pass_check, compare=False)
    print("recipe:", L.show_recipe(recipe))
    run.merge(part.dict())
    run.states = 1
    run.finish()
