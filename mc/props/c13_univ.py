"""C13 alphabet: terminals differing in exactly one datum, operator recipes, integrals and forms.

Everything is built from *recipes* (nested tuples) against a terminal table returned by `terminals()`.
Calling `terminals()` twice gives distinct-but-equal Python objects (except where UFL itself caches:
Zero, IntValue(|v|<100), MultiIndex of FixedIndex).  All counts / ids / labels / indices are explicit so
that nothing depends on UFL's global counters.
"""

import ufl
import ufl.classes as C
from mc import elements as E
from ufl.pullback import identity_pullback
from ufl.sobolevspace import H1, L2

# -------------------------------------------------------------------------------------------------
# harness objects that appear inside reprs: they must be eval-able in NAMESPACE and picklable
# -------------------------------------------------------------------------------------------------

_SOB = {"H1": H1, "L2": L2}


def EL(family, cellname, degree, shape):
    """An mc.elements.Elem whose repr is this very call (eval-able, independent of the str hash seed)."""
    sob = "L2" if family == "DG" else "H1"
    return E.Elem(
        family,
        ufl.Cell(cellname),
        degree,
        tuple(shape),
        identity_pullback,
        _SOB[sob],
        rep=f"EL({family!r}, {cellname!r}, {degree!r}, {tuple(shape)!r})",
    )


class SD:
    """Subdomain data with a ufl_id (the documented protocol of ufl.protocols.id_or_none)."""

    def __init__(self, i):
        self._i = i

    def ufl_id(self):
        return self._i

    def __repr__(self):
        return f"SD({self._i})"


class Plain:
    """Subdomain data without ufl_id: compared by id(); default object repr (with address)."""


COLLIDING_HASH = 0x5EED5EED


class HC(ufl.Coefficient):
    """A user subclass of Coefficient (as dolfinx/firedrake have) with a legal but useless hash: all HC collide.

    == is inherited, so HC objects with different counts are unequal although their hashes are equal.  This is
    the only way to reach the branches of expr_equals behind its hash cut-off with unequal operands.
    """

    def __init__(self, function_space, count=None):
        ufl.Coefficient.__init__(self, function_space, count)
        self._repr = f"HC({self._ufl_function_space!r}, {self._count!r})"

    def _ufl_compute_hash_(self):
        return COLLIDING_HASH


class HK(ufl.Constant):
    """A user subclass of Constant whose hash collides with every HC (different typecode, same hash)."""

    def __init__(self, domain, shape=(), count=None):
        ufl.Constant.__init__(self, domain, shape, count)
        self._repr = f"HK({self._ufl_domain!r}, {self._ufl_shape!r}, {self._count!r})"

    def _ufl_compute_hash_(self):
        return COLLIDING_HASH


def namespace():
    ns = dict(C.__dict__)
    ns["ufl"] = ufl
    for k in ufl.__all__:
        ns.setdefault(k, getattr(ufl, k))
    for k in dir(E):
        if not k.startswith("_"):
            ns.setdefault(k, getattr(E, k))
    ns["EL"] = EL
    ns["SD"] = SD
    ns["HC"] = HC
    ns["HK"] = HK
    return ns


# -------------------------------------------------------------------------------------------------
# terminals
# -------------------------------------------------------------------------------------------------

# names of terminals that are used as operands of the operator levels
OPS_T = [
    "Coefficient(S1,#3)",
    "Coefficient(S1,#4)",
    "Coefficient(S2,#3)",
    "Coefficient(S1m2,#3)",
    "Coefficient(V1,#5)",
    "Coefficient(T1,#7)",
    "Constant(m1,(),#3)",
    "Constant(m1,(),#4)",
    "Constant(m1,(2,),#3)",
    "Constant(m1,(2,2),#3)",
    "Constant(m2,(),#3)",
    "Argument(S1,0,None)",
    "Argument(S1,1,None)",
    "Argument(S1,0,1)",
    "IntValue(1)",
    "FloatValue(1.0)",
    "IntValue(2)",
    "ComplexValue(1+1j)",
    "Zero((),(),())",
    "Zero((2,),(),())",
    "Zero((),(i7,),(2,))",
    "Zero((),(i7,),(3,))",
    "Identity(2)",
    "SpatialCoordinate(m1)",
    "SpatialCoordinate(m2)",
    "FacetNormal(m1)",
    "CellVolume(m1)",
    "HC(S1,#13)",
    "HC(S1,#14)",
    "HK(m1,(),#13)",
]
# operators that carry data besides their operands (derivative multi-index, function space / argument slots);
# used as atoms: level 1 applies every unary operator to them and every binary operator with f / c
BFO_T = [
    "ExternalOperator(f;S1;d=(0,))",
    "ExternalOperator(f;S1;d=(1,))",
    "ExternalOperator(f;S2;d=(0,))",
    "ExternalOperator(f;S1;d=(1,);slots=(v*,u1))",
    "Interpolate(f,S1)",
    "Interpolate(f,S2)",
    "Coefficient(S1L,#3)",  # function space label: not an operator, but treated with the same comb
]
BFO_PARTNERS = ["Coefficient(S1,#3)", "Constant(m1,(),#3)"]
# terminals whose hashes collide although they are unequal (see class HC)
COLLIDE_T = ["HC(S1,#13)", "HC(S1,#14)", "HK(m1,(),#13)"]
# the smaller set used as second operand in the comb levels
COMB_T = [
    "Coefficient(S1,#3)",
    "Coefficient(V1,#5)",
    "Constant(m1,(),#3)",
    "Constant(m1,(2,),#3)",
    "IntValue(2)",
    "Zero((),(),())",
]
COMB_T_THOROUGH = COMB_T + [
    "Coefficient(S1,#4)",
    "Coefficient(T1,#7)",
    "Constant(m1,(),#4)",
    "Argument(S1,0,None)",
    "FloatValue(1.0)",
    "SpatialCoordinate(m1)",
]


def _ts(x):
    return str(x).replace(" ", "")


def terminals():
    """name -> freshly constructed terminal.  The name is the canonical description of the datum tuple."""
    m1 = ufl.Mesh(EL("P", "triangle", 1, (2,)), ufl_id=101)
    m2 = ufl.Mesh(EL("P", "triangle", 1, (2,)), ufl_id=102)  # differs from m1 in ufl_id only
    m1q = ufl.Mesh(EL("P", "triangle", 2, (2,)), ufl_id=101)  # differs from m1 in the coordinate element only
    mstock = ufl.Mesh(E.P("triangle", 1, (2,)), ufl_id=103)  # stock mc.elements element (default repr)
    dom = {"m1": m1, "m2": m2, "m1q": m1q, "mstock": mstock}
    sp = {
        "S1": ufl.FunctionSpace(m1, EL("P", "triangle", 1, ())),
        "S2": ufl.FunctionSpace(m1, EL("P", "triangle", 2, ())),  # element degree
        "SDG": ufl.FunctionSpace(m1, EL("DG", "triangle", 1, ())),  # element family
        "S1m2": ufl.FunctionSpace(m2, EL("P", "triangle", 1, ())),  # mesh id
        "S1q": ufl.FunctionSpace(m1q, EL("P", "triangle", 1, ())),  # mesh coordinate element
        "V1": ufl.FunctionSpace(m1, EL("P", "triangle", 1, (2,))),  # value shape
        "T1": ufl.FunctionSpace(m1, EL("P", "triangle", 1, (2, 2))),
        "Sstock": ufl.FunctionSpace(mstock, E.P("triangle", 2)),
        "S1L": ufl.FunctionSpace(m1, EL("P", "triangle", 1, ()), label="bnd"),  # differs from S1 in the label only
    }
    t = {}
    for s, n in [
        ("S1", 3),
        ("S1", 4),
        ("S2", 3),
        ("SDG", 3),
        ("S1m2", 3),
        ("S1q", 3),
        ("V1", 3),
        ("V1", 5),
        ("T1", 7),
        ("Sstock", 3),
        ("S1L", 3),
    ]:
        t[f"Coefficient({s},#{n})"] = C.Coefficient(sp[s], count=n)
    for d, sh, n in [
        ("m1", (), 3),
        ("m1", (), 4),
        ("m1", (2,), 3),
        ("m1", (2, 2), 3),
        ("m1", (3,), 3),
        ("m2", (), 3),
        ("m1q", (), 3),
        ("m2", (2,), 3),
    ]:
        t[f"Constant({d},{_ts(sh)},#{n})"] = C.Constant(dom[d], sh, n)
    for s, num, part in [
        ("S1", 0, None),
        ("S1", 1, None),
        ("S1", 0, 0),
        ("S1", 0, 1),
        ("S1", 1, 1),
        ("S2", 0, None),
        ("S1m2", 0, None),
        ("V1", 0, None),
        ("Sstock", 0, None),
        ("S1L", 0, None),
    ]:
        t[f"Argument({s},{num},{part})"] = C.Argument(sp[s], num, part)
    # user subclasses with colliding hashes; their counts are used by no other Coefficient/Constant
    t["HC(S1,#13)"] = HC(sp["S1"], 13)
    t["HC(S1,#14)"] = HC(sp["S1"], 14)
    t["HC(V1,#15)"] = HC(sp["V1"], 15)
    t["HK(m1,(),#13)"] = HK(m1, (), 13)
    t["HK(m1,(),#14)"] = HK(m1, (), 14)
    # base form operators over f = Coefficient(S1,#3): one datum varied at a time
    f3 = t["Coefficient(S1,#3)"]
    t["ExternalOperator(f;S1;d=(0,))"] = C.ExternalOperator(f3, function_space=sp["S1"])
    t["ExternalOperator(f;S1;d=(1,))"] = C.ExternalOperator(f3, function_space=sp["S1"], derivatives=(1,))
    t["ExternalOperator(f;S2;d=(0,))"] = C.ExternalOperator(f3, function_space=sp["S2"])
    t["ExternalOperator(f;S1;d=(1,);slots=(v*,u1))"] = C.ExternalOperator(
        f3,
        function_space=sp["S1"],
        derivatives=(1,),
        argument_slots=(C.Coargument(sp["S1"].dual(), 0), C.Argument(sp["S1"], 1)),
    )  # one more argument slot than ExternalOperator(f;S1;d=(1,))
    t["Interpolate(f,S1)"] = C.Interpolate(f3, sp["S1"])
    t["Interpolate(f,S2)"] = C.Interpolate(f3, sp["S2"])
    # literals (ComplexValue(2+0j) is turned into a FloatValue by the constructor; that is the datum tested)
    for v in [1, 2, -1, 100, 101]:
        t[f"IntValue({v})"] = C.IntValue(v)
    for v in [1.0, 2.0, 0.5, -1.0, 100.0]:
        t[f"FloatValue({v})"] = C.FloatValue(v)
    t["ComplexValue(1+1j)"] = C.ComplexValue(1 + 1j)
    t["ComplexValue(1-1j)"] = C.ComplexValue(1 - 1j)
    t["ComplexValue(1j)"] = C.ComplexValue(1j)
    t["ComplexValue(2+0j)"] = C.ComplexValue(2 + 0j)
    for sh, fi, fid in [
        ((), (), ()),
        ((2,), (), ()),
        ((3,), (), ()),
        ((2, 2), (), ()),
        ((), ("i7",), (2,)),
        ((), ("i7",), (3,)),
        ((), ("i8",), (2,)),
        ((2,), ("i7",), (2,)),
        ((), ("i7", "i8"), (2, 2)),
        ((), ("i7", "i8"), (2, 3)),
    ]:
        t[f"Zero({_ts(sh)},{_ts(fi)},{_ts(fid)})".replace("'", "")] = C.Zero(sh, tuple(ICOUNT[i] for i in fi), fid)
    # old input format of Zero must give the same object data as the new one
    t["Zero((),(Index(i7),),{Index(i7):2})"] = C.Zero((), (C.Index(I7),), {C.Index(I7): 2})
    for n in (2, 3):
        t[f"Identity({n})"] = C.Identity(n)
        t[f"PermutationSymbol({n})"] = C.PermutationSymbol(n)
    # geometric quantities: every concrete class on m1; a selection on m2 / m1q (mesh id / coordinate element)
    geo = sorted(
        (c for c in C.all_ufl_classes if issubclass(c, C.GeometricQuantity) and not c._ufl_is_abstract_),
        key=lambda c: c.__name__,
    )
    for c in geo:
        try:
            t[f"{c.__name__}(m1)"] = c(m1)
        except ValueError:
            pass  # not defined for a triangle (FacetEdgeVectors)
    for cn in ["SpatialCoordinate", "FacetNormal", "CellVolume", "Jacobian", "JacobianDeterminant", "QuadratureWeight"]:
        t[f"{cn}(m2)"] = getattr(C, cn)(m2)
        t[f"{cn}(m1q)"] = getattr(C, cn)(m1q)
    t["Label(5)"] = C.Label(5)
    t["Label(6)"] = C.Label(6)
    FI, I = C.FixedIndex, C.Index
    for name, idx in [
        ("MultiIndex(())", ()),
        ("MultiIndex((0,))", (FI(0),)),
        ("MultiIndex((1,))", (FI(1),)),
        ("MultiIndex((i7,))", (I(I7),)),
        ("MultiIndex((i8,))", (I(I8),)),
        ("MultiIndex((0,i7))", (FI(0), I(I7))),
        ("MultiIndex((i7,0))", (I(I7), FI(0))),
        ("MultiIndex((0,1))", (FI(0), FI(1))),
        ("MultiIndex((i7,i8))", (I(I7), I(I8))),
    ]:
        t[name] = C.MultiIndex(idx)
    return t, dom, sp


# -------------------------------------------------------------------------------------------------
# operator recipes
# -------------------------------------------------------------------------------------------------

BINARY = ["add", "mul", "div", "pow", "inner", "dot", "cond", "vec"]
UNARY = ["abs", "sin", "grad", "var5", "var6", "pos", "neg", "conj", "real", "vec1", "vec3"]
INDEXINGS = {
    1: [(0,), (1,), ("i7",), ("i8",)],
    2: [(0, 0), (0, 1), (1, 0), ("i7", "i8"), ("i8", "i7"), ("i7", "i7"), (0, "i7"), ("i7", 0)],
    3: [(0, 0, 1), ("i7", "i8", 0), ("i7", "i7", "i8")],
}
# one instance of (nearly) every other operator class: only applied at level 1 on a few terminals
ZOO_UNARY = [
    "uminus",
    "cos",
    "exp",
    "sqrt",
    "ln",
    "tan",
    "tanh",
    "erf",
    "imag",
    "sign",
    "transpose",
    "tr",
    "det",
    "inv",
    "dev",
    "sym",
    "skew",
    "cofac",
    "div_",
    "curl",
    "nabla_grad",
    "nabla_div",
    "cell_avg",
    "facet_avg",
    "dx0",
    "besselJ1",
    "not_lt0",
    "tensor_i7",
    "perp",
    "diffvar",
    "refvalue",
    "exprlist",
]
ZOO_BINARY = ["sub", "outer", "cross", "max_value", "min_value", "atan2", "eq_cond", "and_cond", "elem_mult"]
ZOO_T = ["Coefficient(S1,#3)", "Coefficient(S1,#4)", "Coefficient(V1,#5)", "Coefficient(T1,#7)", "Constant(m1,(),#3)"]


# explicit index counts far away from UFL's global Index counter (which some operators draw fresh indices from)
I7, I8 = 1000007, 1000008
ICOUNT = {"i7": I7, "i8": I8}


def _idx(spec):
    out = []
    for s in spec:
        if isinstance(s, int):
            out.append(s)
        else:
            out.append(C.Index(ICOUNT[s]))
    return tuple(out)


def apply_op(op, args, param=None):
    """Apply one public-API operator. Raises whatever UFL raises."""
    a = args[0]
    b = args[1] if len(args) > 1 else None
    if op == "add":
        return a + b
    if op == "sub":
        return a - b
    if op == "mul":
        return a * b
    if op == "div":
        return a / b
    if op == "pow":
        return a**b
    if op == "inner":
        return ufl.inner(a, b)
    if op == "dot":
        return ufl.dot(a, b)
    if op == "outer":
        return ufl.outer(a, b)
    if op == "cross":
        return ufl.cross(a, b)
    if op == "cond":
        return ufl.conditional(ufl.lt(a, b), a, b)
    if op == "eq_cond":
        return ufl.conditional(ufl.eq(a, b), a, b)
    if op == "and_cond":
        return ufl.conditional(ufl.And(ufl.lt(a, b), ufl.ge(a, b)), a, b)
    if op == "max_value":
        return ufl.max_value(a, b)
    if op == "min_value":
        return ufl.min_value(a, b)
    if op == "atan2":
        return ufl.atan2(a, b)
    if op == "elem_mult":
        return ufl.elem_mult(a, b)
    if op == "vec":
        return ufl.as_vector([a, b])
    if op == "vec1":
        return ufl.as_vector([a])
    if op == "vec3":
        return ufl.as_vector([a, a, a])
    if op == "abs":
        return abs(a)
    if op == "uminus":
        return -a
    if op in ("sin", "cos", "exp", "sqrt", "ln", "tan", "tanh", "erf", "imag", "sign", "conj", "real"):
        return getattr(ufl, op)(a)
    if op in ("transpose", "tr", "det", "inv", "dev", "sym", "skew", "cofac", "curl", "nabla_grad", "nabla_div", "perp"):
        return getattr(ufl, op)(a)
    if op == "div_":
        return ufl.div(a)
    if op == "cell_avg":
        return ufl.cell_avg(a)
    if op == "facet_avg":
        return ufl.facet_avg(a)
    if op == "dx0":
        if a.ufl_shape:
            raise ValueError("harness: dx0 only on scalars (tensor .dx creates fresh indices)")
        return a.dx(0)
    if op == "besselJ1":
        return ufl.bessel_J(1, a)
    if op == "not_lt0":
        return ufl.conditional(ufl.Not(ufl.lt(a, 0)), a, 1)
    if op == "tensor_i7":
        return ufl.as_tensor(a[C.Index(I7)], (C.Index(I7),))
    if op == "diffvar":
        w = C.Variable(a, C.Label(5))
        return ufl.diff(w * w, w)
    if op == "refvalue":
        return C.ReferenceValue(a)
    if op == "exprlist":
        return C.ExprList(a, a)
    if op == "grad":
        return ufl.grad(a)
    if op == "var5":
        return C.Variable(a, C.Label(5))
    if op == "var6":
        return C.Variable(a, C.Label(6))
    if op == "pos":
        return a("+")
    if op == "neg":
        return a("-")
    if op == "idx":
        return a[_idx(param)]
    raise KeyError(op)


def build(recipe, T, memo):
    """Build a recipe against terminal table T (memoised per copy, so sub-objects are shared like in user code)."""
    hit = memo.get(recipe)
    if hit is not None:
        return hit
    op = recipe[0]
    if op == "t":
        obj = T[recipe[1]]
    elif op == "idx":
        obj = apply_op("idx", [build(recipe[1], T, memo)], recipe[2])
    else:
        obj = apply_op(op, [build(r, T, memo) for r in recipe[1:]])
    memo[recipe] = obj
    return obj


def show(recipe):
    op = recipe[0]
    if op == "t":
        return recipe[1]
    if op == "idx":
        return f"{show(recipe[1])}[{','.join(map(str, recipe[2]))}]"
    return f"{op}({', '.join(show(r) for r in recipe[1:])})"


def tup(x):
    """JSON lists -> tuples."""
    return tuple(tup(y) for y in x) if isinstance(x, list) else x


def unary_candidates(r, obj, with_zoo=False):
    out = [(op, r) for op in UNARY]
    if with_zoo:
        out += [(op, r) for op in ZOO_UNARY]
    try:
        rank = len(obj.ufl_shape)
    except ValueError:
        return []
    for spec in INDEXINGS.get(rank, []):
        out.append(("idx", r, spec))
    return out


def binary_candidates(ra, rb, with_zoo=False):
    out = [(op, ra, rb) for op in BINARY]
    if with_zoo:
        out += [(op, ra, rb) for op in ZOO_BINARY]
    return out


# -------------------------------------------------------------------------------------------------
# integrals and forms
# -------------------------------------------------------------------------------------------------

INTEGRANDS = [
    ("t", "Coefficient(S1,#3)"),
    ("t", "Coefficient(S1,#4)"),
    ("mul", ("t", "Coefficient(S1,#3)"), ("t", "Constant(m1,(),#3)")),
    ("mul", ("t", "Coefficient(S1,#3)"), ("t", "Constant(m1,(),#4)")),
]
ITYPES = ["cell", "exterior_facet", "interior_facet"]
DOMAINS = ["m1", "m2"]
SIDS = ["everywhere", "otherwise", 1, 2, (1, 2), (2, 1), (1,)]
METADATA = [
    {},
    {"quadrature_degree": 2},
    {"quadrature_degree": 3},
    {"quadrature_degree": 2, "rule": "a"},
]
SDATA = ["None", "SD(1)", "SD(2)", "plain"]
EXTRA = ["{}", "{m2:cell}", "{m2:exterior_facet}"]

_PLAIN = Plain()  # one shared object: integrals carrying it compare equal by id()


def sdata(name):
    if name == "None":
        return None
    if name == "plain":
        return _PLAIN
    return SD(int(name[3:-1]))


def integral_recipes(quick):
    out = []
    integrands = INTEGRANDS[:3] if quick else INTEGRANDS
    itypes = ITYPES[:2] if quick else ITYPES
    sids = SIDS[:5] + SIDS[6:] if quick else SIDS
    mds = range(3) if quick else range(len(METADATA))
    sds = SDATA[:2] + SDATA[3:] if quick else SDATA
    extras = EXTRA[:1] if quick else EXTRA
    for ig in integrands:
        for it in itypes:
            for d in DOMAINS:
                for sid in sids:
                    for md in mds:
                        for sd in sds:
                            for ex in extras:
                                if ex != "{}" and (d == "m2" or md or sd != "None"):
                                    continue  # comb: the extra-domain map is only varied on the plain integrals
                                out.append(("integral", ig, it, d, sid, md, sd, ex))
    return out


def build_integral(recipe, T, dom, memo):
    _, ig, it, d, sid, md, sd, ex = recipe
    integrand = build(ig, T, memo)
    extra = None
    if ex != "{}":
        extra = {dom["m2"]: ex[4:-1]}
    return ufl.Integral(
        integrand, it, dom[d], tup(sid) if isinstance(sid, list) else sid, dict(METADATA[md]), sdata(sd), extra
    )


_MEASURE = {"cell": "dx", "exterior_facet": "ds", "interior_facet": "dS"}


def build_form(recipe, T, dom, memo):
    """('form', integral recipes...) via the Form constructor, ('mform', integral recipe) via integrand*Measure."""
    if recipe[0] == "form":
        return ufl.Form([build_integral(r, T, dom, memo) for r in recipe[1:]])
    _, ig, it, d, sid, md, sd, ex = recipe[1]
    if ex != "{}" or isinstance(sid, (tuple, list)) or sid == "otherwise":
        raise ValueError("harness: not expressible with a single Measure")
    meas = ufl.Measure(
        _MEASURE[it], domain=dom[d], subdomain_id=sid, metadata=dict(METADATA[md]) or None, subdomain_data=sdata(sd)
    )
    return build(ig, T, memo) * meas


def show_any(recipe):
    if recipe[0] == "integral":
        _, ig, it, d, sid, md, sd, ex = recipe
        return f"Integral({show(ig)},{it},{d},{sid!r},{METADATA[md]!r},{sd},{ex})"
    if recipe[0] == "form":
        return "Form([" + ", ".join(show_any(r) for r in recipe[1:]) + "])"
    if recipe[0] == "mform":
        return "MeasureForm(" + show_any(recipe[1]) + ")"
    return show(recipe)
