"""C24 Point evaluation computes the mathematical value.

BFS over public-language recipes (algebra, index notation, tensor algebra, conditionals, math functions,
spatial derivatives, diff, derivative with a Coefficient direction); every state without free indices is
evaluated by UFL's own evaluator e(x, mapping, component) for every component, with the terminals mapped
to constants and to callables f(x) / f(x, derivatives) generated from the environment's polynomials, and
compared with the reference value Sem(e).
"""

import itertools
import json

import numpy as np

import ufl
from mc import elements as E
from mc import envs as EV
from mc.explore import check_recipe, dedup, run_level
from mc.runner import Part, Run
from mc.sem import lang as L
from mc.sem import sem as M
from mc.sem.jet import Ambiguous, Jet, Undefined, const_of, mpf, set_order

PID = "C24"
ORDER = 2


def universe():
    m = EV.mesh("triangle")
    S2 = ufl.FunctionSpace(m, E.P("triangle", 2))
    V2 = ufl.FunctionSpace(m, E.P("triangle", 2, (2,)))
    T1 = ufl.FunctionSpace(m, E.P("triangle", 2, (2, 2)))
    f = ufl.Coefficient(S2)
    v = ufl.Coefficient(V2)
    t = {
        "f": f,
        "g": ufl.Coefficient(S2),
        "v": v,
        "A": ufl.Coefficient(T1),
        "c": ufl.Constant(m),
        "x": ufl.SpatialCoordinate(m),
        "I": ufl.Identity(2),
        "two": ufl.as_ufl(2),
        "half": ufl.as_ufl(0.5),
        "Vf": ufl.variable(f),
        "Vv": ufl.variable(2 * v),  # a non-scalar variable: its components are read separately within one evaluation
    }
    return L.Universe(t)


def to_py(x, cm):
    x = const_of(x)
    if cm:
        return complex(x)
    return float(x.real) if hasattr(x, "real") else float(x)


def make_mapping(U, env):
    """mapping terminal -> constant or callable, consistent with env's field data; and the point x."""
    cell = env.cells["+"]
    xp = cell.to_physical(env.X0["+"])
    xpt = tuple(float(v) for v in xp)
    cm = env.fields.complex_mode
    mapping = {}
    for name, o in U.t.items():
        tn = type(o).__name__
        if tn == "Constant":
            mapping[o] = to_py(env.fields.constant_value(M.terminal_key(o, env), ()), cm)
        elif tn == "Coefficient":
            key = M.terminal_key(o, env)
            el = o.ufl_function_space().ufl_element()
            deg = min(int(el.embedded_superdegree), env.fields.max_degree)
            shape = o.ufl_shape
            n = int(np.prod(shape, dtype=int)) if shape else 1

            def fn(x, derivatives=(), key=key, deg=deg, shape=shape, n=n):
                pt = [Jet.var(k, mpf(x[k])) for k in range(len(x))]
                vals = []
                for r in range(n):
                    v = env.fields._poly((key, r, "phys"), pt, deg, True)
                    for d in derivatives:
                        v = v.d(d) if isinstance(v, Jet) else mpf(0)
                    vals.append(to_py(v, cm))
                if not shape:
                    return vals[0]

                def nest(flat, sh):
                    if len(sh) == 1:
                        return tuple(flat)
                    step = len(flat) // sh[0]
                    return tuple(nest(flat[k * step : (k + 1) * step], sh[1:]) for k in range(sh[0]))

                return nest(vals, shape)

            # alternate between the two callable signatures UFL supports
            if name in ("g",):

                def only_x(fn):
                    def gx(x):
                        return fn(x)

                    return gx

                mapping[o] = only_x(fn)
            else:
                mapping[o] = fn
    return mapping, xpt


def needed_domain_problem(obj, ctx, complex_mode):
    """Does the value of obj depend on a subexpression outside its (real: real-valued; any: finite) domain?  Lazy walk:
    of a Conditional only the condition and the SELECTED branch are needed."""
    from ufl.classes import Conditional, Label, MultiIndex
    from mc.sem.jet import is_real

    seen = {}

    def real_valued(v):
        arr = v.reshape(-1) if isinstance(v, np.ndarray) else [v]
        return all(isinstance(x, bool) or is_real(const_of(x), mpf("1e-25")) for x in arr)

    def walk(n):
        if id(n) in seen or isinstance(n, (MultiIndex, Label)):
            return seen.get(id(n), False)
        seen[id(n)] = False
        if n.ufl_free_indices:
            # inside an index scope: be conservative (count as a possible domain problem only if evaluation fails below)
            kids = list(n.ufl_operands)
        elif isinstance(n, Conditional):
            c, t, f = n.ufl_operands
            try:
                sel = t if bool(M.sem(c, ctx, {})) else f
            except Exception:  # noqa: BLE001
                seen[id(n)] = True
                return True
            kids = [c, sel]
        else:
            kids = list(n.ufl_operands)
        bad = any(walk(k) for k in kids)
        if not bad and not n.ufl_free_indices and hasattr(n, "ufl_shape"):
            try:
                v = M.sem(n, ctx, {})
                # real operands but a non-real result: the node left the real domain of its function (UFL evaluates
                # real arguments with the real math library in either mode)
                ops_real = all(
                    real_valued(M.sem(k, ctx, {})) for k in kids if not isinstance(k, (MultiIndex, Label)) and not k.ufl_free_indices
                )
                if ops_real and not real_valued(v):
                    bad = True
            except Exception:  # noqa: BLE001
                bad = True
        seen[id(n)] = bad
        return bad

    return walk(obj)


def eval_check(recipe, obj, lts, ctxs, envs, part, U):
    if obj.ufl_free_indices:
        return None
    key = L.show_recipe(recipe)
    uses_g_derivative = False
    for env in envs:
        mapping, xpt = make_mapping(U, env)
        cm = env.fields.complex_mode
        ctx = M.Ctx(env)
        try:
            ref = M.sem(obj, ctx, {})
        except Ambiguous:
            part.count("ambiguous_env")
            continue
        except Undefined:
            part.count("model_undefined_env")
            continue
        comps = list(np.ndindex(obj.ufl_shape)) if obj.ufl_shape else [()]
        # Expr.__call__ first expands derivatives; a refusal there (e.g. the derivative of abs of a
        # vector) is a rejection, not a wrong value
        try:
            from ufl.algorithms import expand_derivatives

            expand_derivatives(obj)
        except BaseException as e:  # noqa: BLE001
            if isinstance(e, (KeyboardInterrupt, SystemExit, MemoryError)):
                raise
            part.error("expand_derivatives:" + type(e).__name__)
            return None
        for comp in comps:
            part.inc("transitions")
            try:
                import warnings

                with warnings.catch_warnings():
                    warnings.simplefilter("ignore")
                    val = obj(xpt, mapping, comp) if comp else obj(xpt, mapping)
            except BaseException as e:  # noqa: BLE001
                if isinstance(e, (KeyboardInterrupt, SystemExit, MemoryError)):
                    raise
                if isinstance(e, TypeError) and "positional argument" in str(e) and "gx()" in str(e):
                    # a derivative of the coefficient mapped to a one-argument callable f(x) was requested:
                    # the mapping cannot supply it (user error, not an evaluator defect)
                    part.count("mapping_without_derivatives")
                    break
                if isinstance(e, TypeError) and "not supported between instances of 'complex'" in str(e):
                    # an ordering of complex numbers has no mathematical value (the model's tie rule is a convenience)
                    part.count("complex_ordering")
                    break
                if isinstance(e, TypeError) and "must be real number" in str(e):
                    # python's math module has no complex version of this function (erf)
                    part.count("no_complex_version")
                    break
                if isinstance(e, (ValueError, ZeroDivisionError, OverflowError)) and (
                    "math domain error" in str(e) or "division by zero" in str(e) or "math range error" in str(e) or isinstance(e, OverflowError)
                ):
                    # real-number evaluation outside the function's real domain (the model continues
                    # on the complex principal branch): not a wrong value - PROVIDED a subexpression that the value
                    # depends on is outside its domain; a branch that the conditional does not select is not one
                    if isinstance(e, OverflowError) or "math range error" in str(e) or needed_domain_problem(obj, ctx, cm):
                        part.count("real_domain_error")
                        break
                    part.violation(
                        f"{PID}:raises-in-unselected-branch:{key}",
                        f"evaluating {key} component {comp} raises {type(e).__name__}: {e}, although every subexpression the value depends on "
                        f"is inside its domain (mathematical value {M.show(ref[comp] if comp else ref)})",
                        {"recipe": recipe, "show": key, "component": list(comp), "exception": f"{type(e).__name__}: {e}", "env": env.describe()},
                    )
                    return "VIOLATION"
                # UFL's evaluator refuses this expression although the model gives it a value
                part.violation(
                    f"{PID}:raises:{type(e).__name__}:{key}",
                    f"evaluating {key} component {comp} raises {type(e).__name__}: {str(e)[:200]}",
                    {"recipe": recipe, "show": key, "component": list(comp), "exception": f"{type(e).__name__}: {e}", "env": env.describe()},
                )
                return "VIOLATION"
            r = ref[comp] if comp else ref
            part.inc("validated")
            if isinstance(r, bool) or isinstance(val, bool):
                same = bool(r) == bool(val)
            else:
                try:
                    vv = M.S(complex(val)) if isinstance(val, complex) else M.S(float(val))
                except (TypeError, ValueError):
                    part.violation(
                        f"{PID}:nonnumeric:{key}",
                        f"evaluating {key} component {comp} returned a non-number: {str(val)[:200]}",
                        {"recipe": recipe, "show": key, "component": list(comp), "returned": str(val)[:500]},
                    )
                    return "VIOLATION"
                same = M.values_close(vv, r, mpf("1e-8"))
            if not same:
                part.violation(
                    f"{PID}:value:{key}",
                    f"evaluating {key} component {comp} gives {val}, mathematical value {M.show(r)}",
                    {"recipe": recipe, "show": key, "component": list(comp), "ufl": str(val), "model": M.show(r), "env": env.describe()},
                )
                return "VIOLATION"
    return None


SCALAR_FNS = ["sqrt", "exp", "ln", "sin", "cos", "tan", "sinh", "cosh", "tanh", "asin", "acos", "atan", "erf", "abs", "sign", "conj", "real", "imag"]


def main(argv):
    run = Run(PID, argv)
    quick = not run.thorough()
    set_order(ORDER)
    U = universe()
    envs = EV.cell_envs("triangle", complex_too=True, n=1 if quick else 2)
    if run.args.replay:
        return replay(run, U, envs)
    seen = set()

    def level(cands, lvl, sample_every=0):
        import sys
        import time

        cands = sorted(set(cands), key=repr)
        if run.smoke:
            cands = cands[:: max(1, len(cands) // 80)]
            run.exhaustive = False
        print(f"[{PID}] level {lvl}: {len(cands)} candidates t={time.time() - run.t0:.0f}s", file=sys.stderr)
        run.bounds[f"level{lvl}_candidates"] = len(cands)
        new = run_level(cands, U, envs, PID, run, run.seed, extra_check=eval_check, compare=False, sample_every=sample_every, check_undefined=True)
        sts, _ = dedup(new, seen, lvl, run)
        return sts

    l0 = level([("t", n) for n in U.t], 0)
    c = []
    idx = {1: [(0,), (1,), ("i",), (":",)], 2: [(0, 1), (1, 0), ("i", "i"), (0, "i"), ("i", 0), ("i", "j"), (":", 0), (0, ":")]}
    for s in l0:
        r = s.recipe
        if s.rank == 0:
            for fn in SCALAR_FNS:
                c.append((fn, r))
            # Bessel functions are not in the alphabet: UFL evaluates them through scipy, which is not installed
            c += [("pow", r, ("num", 2)), ("pow", r, ("num", 0.5)), ("pow", r, ("num", -1)), ("pow", ("num", 2), r), ("div", ("num", 1), r)]
        c += [("neg", r), ("abs", r), ("conj", r), ("grad", r), ("nabla_grad", r), ("curl", r), ("dx", r, 0), ("dx", r, 1), ("dx", r, "i")]
        if s.rank >= 1:
            c += [("divg", r), ("nabla_div", r), ("inner", r, r), ("pow", r, ("num", 2))]
        for comp in idx.get(s.rank, []):
            c.append(("getitem", r) + comp)
        if s.rank == 2:
            for op in ("tr", "det", "inv", "transpose", "sym", "dev", "cofac", "skew", "diag", "diag_vector"):
                c.append((op, r))
        if s.rank == 1:
            c += [("perp", r), ("diag", r)]
    for a in l0:
        for b in l0:
            for op in ("add", "sub", "mul", "div", "pow", "dot", "inner", "outer", "atan2", "max_value", "min_value", "elem_mult", "lt", "ge", "eq", "ne", "as_vector"):
                c.append((op, a.recipe, b.recipe))
    l1 = level(c, 1, sample_every=40)
    conds = [s for s in l1 if s.cond]
    c = []
    for cnd in conds[: (8 if quick else 40)]:
        for tb, fb in itertools.product(l0, repeat=2):
            if tb.shape == fb.shape and not tb.fid:
                c.append(("conditional", cnd.recipe, tb.recipe, fb.recipe))
    for a, b in itertools.combinations(conds[:6], 2):
        c += [("And", a.recipe, b.recipe), ("Or", a.recipe, b.recipe)]
    for a in conds[:6]:
        c.append(("Not", a.recipe))
    fns2 = SCALAR_FNS if not quick else ["sqrt", "exp", "sin", "abs", "ln"]
    partners = ["f", "v", "A", "x"] if quick else ["f", "g", "v", "A", "c", "x", "Vf"]
    bops = ("mul", "add", "div", "dot") if quick else ("mul", "add", "sub", "div", "pow", "dot", "inner", "outer")
    for s in l1:
        if s.cond:
            continue
        r = s.recipe
        if not s.fid:
            if s.rank == 0:
                for fn in fns2:
                    c.append((fn, r))
            c += [("grad", r), ("dx", r, 0)]
            if s.rank >= 1:
                c.append(("divg", r))
            if s.rank == 2 and s.shape[0] == s.shape[1]:
                c += [("tr", r), ("det", r), ("inv", r)]
        for comp in idx.get(s.rank, []):
            c.append(("getitem", r) + comp)
        if s.rank == 0 and s.fid:
            for nm in sorted(s.fid):
                c.append(("as_tensor", r, nm))
        for b in partners:
            for op in bops:
                c.append((op, r, ("t", b)))
                c.append((op, ("t", b), r))
    l2 = level(c, 2, sample_every=1500)
    # diff / derivative on closed scalar states
    c = []
    # conditionals with tensor-valued branches, indexed and differentiated
    l3src = [s for s in l2 if s.recipe[0] == "conditional"]
    for s in l3src[: (40 if quick else 400)]:
        r = s.recipe
        c += [("grad", r), ("dx", r, 0)]
        for comp in idx.get(s.rank, []):
            c.append(("getitem", r) + comp)
    l3 = level(c, 3, sample_every=500)
    # the same index object bound in nested scopes: a complete sum over i inside another binding of i (an outer
    # sum or an as_tensor), next to siblings that read i before and after the inner sum is evaluated
    fi = sorted([s for s in l1 if s.rank == 0 and set(s.fid) == {"i"}], key=lambda s: (len(repr(s.recipe)), repr(s.recipe)))
    fi = fi[: (5 if quick else 12)]
    c = []
    for a, b, d in itertools.product(fi, repeat=3):
        inner = ("mul", a.recipe, b.recipe)
        c += [
            ("mul", ("mul", inner, d.recipe), ("div", d.recipe, ("num", 3))),
            ("mul", ("add", ("mul", inner, d.recipe), ("abs", d.recipe)), a.recipe),
            ("as_tensor", ("add", ("mul", inner, d.recipe), ("abs", d.recipe)), "i"),
            ("as_tensor", ("conditional", ("lt", inner, ("num", 0.5)), d.recipe, ("neg", d.recipe)), "i"),
            ("as_tensor", ("div", d.recipe, ("add", inner, ("num", 7))), "i"),
            ("mul", ("sin", inner), ("mul", d.recipe, a.recipe)),
        ]
    l4 = level(c, 4, sample_every=200)
    # conditionals guarding a singularity: the unselected branch has no value at the point (division by zero, ln / sqrt
    # outside the real domain); both orientations of every condition, scalar and tensor-valued
    rf, rg = ("t", "f"), ("t", "g")
    sing = [("div", ("num", 1), ("sub", rf, rf)), ("ln", ("neg", ("abs", rf))), ("sqrt", ("neg", ("abs", rg))), ("div", rg, ("sub", ("getitem", ("t", "x"), 0), ("getitem", ("t", "x"), 0)))]
    safe = [rf, ("mul", rf, rg), ("num", 2)]
    c = []
    for cnd in conds[: (6 if quick else 30)]:
        for sg in sing:
            for sf in safe:
                c.append(("conditional", cnd.recipe, sf, sg))
                c.append(("conditional", cnd.recipe, sg, sf))
                c.append(("mul", ("conditional", cnd.recipe, sf, sg), rg))
                c.append(("conditional", ("Not", cnd.recipe), sg, sf))
            c.append(("conditional", cnd.recipe, ("t", "v"), ("as_vector", sg, rf)))
            c.append(("conditional", cnd.recipe, ("as_vector", sg, rf), ("t", "v")))
    l5 = level(c, 5, sample_every=100)
    run.bounds.update(
        levels=[len(l0), len(l1), len(l2), len(l3), len(l4), len(l5)],
        terminals=sorted(U.t),
        envs=[e.name for e in envs],
        mapping="Constant -> number; Coefficient -> callable f(x, derivatives) (one coefficient uses the f(x) signature), generated from the environment polynomials",
    )
    run.rule = "every recipe of the grammar; states without free indices are evaluated for every component; non-trivial = model value non-zero"
    run.assumptions += ["values compared with relative tolerance 1e-8 (UFL evaluates in float64)"]
    run.finish()


def replay(run, U, envs):
    with open(run.args.replay) as f:
        rp = json.load(f)

    def tup(x):
        return tuple(tup(y) for y in x) if isinstance(x, list) else x

    recipe = tup(rp["witness"]["recipe"])
    part = Part()
    check_recipe(recipe, U, envs, part, PID, extra_check=eval_check, compare=False, check_undefined=True)
    run.merge(part.dict())
    run.states = 1
    run.finish()
