"""C27 helper: event alphabet.  Every event applies one public algorithm / form operator (or a small bundle
of calls of the same family) to ONE target object (the input or an earlier result) of the current history.

An event is  Event(name, kinds, fn, req, core)  with  fn(target, cx) -> result.
  kinds : which target kinds it accepts ("form", "expr", "integral")
  req   : facts the target must have for the event to be enabled (decided by a harness-owned DAG walk,
          never by calling UFL on the target, so deciding enabledness does not warm any cache)
  core  : member of the reduced alphabet used for the deepest level
Exceptions raised by UFL are accepted outcomes (the explorer counts them by type); the invariant is
checked after the event in any case.
"""

import copy
import pickle

import ufl
import ufl.algorithms.check_restrictions
import ufl.checks
import ufl.formatting.ufl2unicode
import ufl.sorting
from mc.props.c27_snap import bf_exprs, dag_nodes, kind_of
from ufl import algorithms as A
from ufl.algorithms import compute_form_data
from ufl.algorithms.analysis import (
    extract_constants,
    extract_terminals_with_domain,
    has_exact_type,
    has_type,
)
from ufl.algorithms.apply_algebra_lowering import apply_algebra_lowering
from ufl.algorithms.apply_derivatives import apply_coordinate_derivatives, apply_derivatives
from ufl.algorithms.apply_function_pullbacks import apply_function_pullbacks
from ufl.algorithms.apply_geometry_lowering import apply_geometry_lowering
from ufl.algorithms.apply_integral_scaling import apply_integral_scaling
from ufl.algorithms.apply_restrictions import apply_restrictions
from ufl.algorithms.balancing import balance_modifiers
from ufl.algorithms.cancel_jacobian_products import cancel_jacobian_products
from ufl.algorithms.check_arities import ArityMismatch, check_form_arity, check_integrand_arity
from ufl.algorithms.comparison_checker import ComplexComparisonError, do_comparison_check
from ufl.algorithms.compute_form_data import attach_estimated_degrees
from ufl.algorithms.remove_complex_nodes import remove_complex_nodes
from ufl.algorithms.remove_component_tensors import remove_component_tensors
from ufl.algorithms.renumbering import renumber_indices
from ufl.algorithms.signature import compute_expression_signature, compute_form_signature
from ufl.algorithms.transformer import CopyTransformer, ReuseTransformer, apply_transformer
from ufl.classes import (
    Argument,
    CellVolume,
    Coefficient,
    Constant,
    Expr,
    FacetArea,
    Form,
    Integral,
    Jacobian,
    Label,
    Measure,
    SpatialCoordinate,
    Variable,
)
from ufl.pullback import NonStandardPullbackException
from ufl.sorting import cmp_expr, sorted_expr

ACCEPTED_BASE = (ArityMismatch, ComplexComparisonError, NonStandardPullbackException)


class Event:
    def __init__(self, name, kinds, fn, req=(), core=False, first_only=False):
        self.name = name
        self.kinds = kinds
        self.fn = fn
        self.req = tuple(req)
        self.core = core
        self.first_only = first_only  # only meaningful on the input itself (target index 0)


F, E_, I_, B_ = "form", "expr", "integral", "baseform"
FEI = (F, E_, I_)
FEIB = (F, E_, I_, B_)
FI = (F, I_)


# -------------------------------------------------------------------------------------------------
# harness-owned inspection of a target (no UFL caches are touched)
# -------------------------------------------------------------------------------------------------
def roots_of(t):
    k = kind_of(t)
    if k == "form":
        return [i._integrand for i in t._integrals]
    if k == "integral":
        return [t._integrand]
    if k == "expr":
        return [t]
    if k == "baseform":
        return [r for r in bf_exprs(t) if isinstance(r, Expr)]
    return []


def find(t, cls):
    """Distinct nodes of class cls in t's DAG (distinct by repr), in deterministic order."""
    seen = {}
    for n in dag_nodes(roots_of(t)):
        if isinstance(n, cls):
            seen.setdefault(repr(n), n)
    return [seen[k] for k in sorted(seen)]


def coefficients_of(t):
    return sorted(find(t, Coefficient), key=lambda c: c.count())


def arguments_of(t):
    return sorted(find(t, Argument), key=lambda a: (a.number(), str(a.part())))


def facts(t):
    k = kind_of(t)
    fs = {k}
    cs = coefficients_of(t)
    if cs:
        fs.add("coef")
    if len([c for c in cs if c.ufl_shape == ()]) >= 2:
        fs.add("coef2s")
    args = arguments_of(t)
    if args:
        fs.add("arg")
    if find(t, Variable):
        fs.add("var")
    if k == "expr":
        try:
            if t.ufl_shape == () and t.ufl_free_indices == ():
                fs.add("scalar")
            if t.ufl_free_indices == ():
                fs.add("nofree")
            if t.ufl_shape != ():
                fs.add("tensor")
        except Exception:  # noqa: BLE001
            pass
    if k == "form" and len(t._integrals) > 0:
        fs.add("nonempty")
    if k in ("integral",):
        fs.add("nonempty")
    return fs


def integrals_of(t):
    return list(t._integrals) if isinstance(t, Form) else [t]


def mesh_of(t, cx):
    return cx.U.mesh


# -------------------------------------------------------------------------------------------------
# structural clone (harness-owned): new operator nodes, same terminals, same slot values
# -------------------------------------------------------------------------------------------------
def _all_slots(cls):
    out = []
    for k in cls.__mro__:
        s = k.__dict__.get("__slots__", ())
        if isinstance(s, str):
            s = (s,)
        for n in s:
            if n not in ("__weakref__", "__dict__") and n not in out:
                out.append(n)
    return out


def clone_expr(e, memo=None):
    memo = {} if memo is None else memo
    for n in dag_nodes([e]):
        if id(n) in memo:
            continue
        if n._ufl_is_terminal_ or not n.ufl_operands:
            memo[id(n)] = n
            continue
        new = object.__new__(type(n))
        for s in _all_slots(type(n)):
            try:
                v = getattr(n, s)
            except AttributeError:
                continue
            if s == "ufl_operands":
                v = tuple(memo[id(c)] if isinstance(c, Expr) else c for c in v)
            elif s == "_hash":
                v = None
            object.__setattr__(new, s, v)
        d = getattr(n, "__dict__", None)
        if d:
            new.__dict__.update(d)
        memo[id(n)] = new
    return memo[id(e)]


def clone(t, md_copy=False):
    k = kind_of(t)
    if k == "expr":
        return clone_expr(t)
    memo = {}

    def ci(itg):
        md = copy.deepcopy(itg._metadata) if md_copy else itg._metadata
        return Integral(
            clone_expr(itg._integrand, memo),
            itg._integral_type,
            itg._ufl_domain,
            itg._subdomain_id,
            md,
            itg._subdomain_data,
            extra_domain_integral_type_map=dict(itg._extra_domain_integral_type_map),
        )

    if k == "integral":
        return ci(t)
    return Form([ci(i) for i in t._integrals])


# -------------------------------------------------------------------------------------------------
# events
# -------------------------------------------------------------------------------------------------
def _cfd(**kw):
    def ev(t, cx):
        fd = compute_form_data(t, **kw)
        cx.step(lambda: str(fd))
        cx.step(lambda: (fd.rank, fd.num_coefficients, fd.max_subdomain_ids, fd.unique_sub_elements))
        return fd.preprocessed_form

    return ev


def ev_expand_derivatives(t, cx):
    return A.expand_derivatives(t)


def ev_expand_indices(t, cx):
    return A.expand_indices(t)


def ev_algebra_lowering(t, cx):
    return apply_algebra_lowering(t)


def ev_apply_derivatives(t, cx):
    return apply_derivatives(t)


def ev_coordinate_derivatives(t, cx):
    return apply_coordinate_derivatives(t)


def ev_function_pullbacks(t, cx):
    return apply_function_pullbacks(t)


def ev_geometry_lowering(t, cx):
    cx.secondary(cx.step(lambda: apply_geometry_lowering(t, (Jacobian, CellVolume, FacetArea))))
    return apply_geometry_lowering(t)


def ev_integral_scaling(t, cx):
    return apply_integral_scaling(t)


def ev_restrictions(t, cx):
    return apply_restrictions(t)


def ev_default_restrictions(t, cx):
    from ufl.algorithms.apply_restrictions import default_restriction_map

    m = mesh_of(t, cx)
    if isinstance(t, Expr):
        dr = {m: "+"}
        cx.guard("default_restrictions", dr)
        return apply_restrictions(t, default_restrictions=dr)
    out = []
    for itg in integrals_of(t):
        dr = {m: default_restriction_map.get(itg.integral_type())}
        cx.guard("default_restrictions", dr)
        out.append(apply_restrictions(itg, default_restrictions=dr))
    return out[0] if isinstance(t, Integral) else Form(out)


def ev_remove_complex_nodes(t, cx):
    return remove_complex_nodes(t)


def ev_renumber_indices(t, cx):
    return renumber_indices(t)


def ev_replace(t, cx):
    cs = coefficients_of(t)
    mapping = {}
    if cs:
        mapping[cs[0]] = 2 * cs[0]
    if len(cs) > 1:
        mapping[cs[-1]] = cs[-1] + cs[-1]
    consts = find(t, Constant)
    if consts and consts[0].ufl_shape == ():
        mapping[consts[0]] = 3.5
    cx.guard("mapping", mapping)
    return A.replace(t, mapping)


def ev_change_to_reference_grad(t, cx):
    if isinstance(t, Expr):
        return A.change_to_reference_grad(t)
    from ufl.algorithms.map_integrands import map_integrand_dags
    from ufl.algorithms.change_to_reference import ChangeToReferenceGrad

    cx.step(lambda: A.change_to_reference_grad(roots_of(t)[0]))
    return map_integrand_dags(ChangeToReferenceGrad(), t)


def ev_estimate_degree(t, cx):
    r = [cx.step(lambda: A.estimate_total_polynomial_degree(t))]
    erm = {}
    cx.guard("element_replace_map", erm)
    r.append(cx.step(lambda: A.estimate_total_polynomial_degree(t, 2, erm)))
    return ("value", r)


def ev_attach_estimated_degrees(t, cx):
    return attach_estimated_degrees(t)


def ev_analysis(t, cx):
    r = []
    for f in (
        A.extract_arguments,
        A.extract_coefficients,
        extract_constants,
        A.extract_base_form_operators,
            A.extract_elements,
        A.extract_unique_elements,
        extract_terminals_with_domain,
    ):
        r.append(cx.step(lambda f=f: repr(f(t))))
    r.append(cx.step(lambda: repr(A.extract_sub_elements(A.extract_elements(t)))))
    r.append(cx.step(lambda: repr(A.sort_elements(list(A.extract_unique_elements(t))))))
    r.append(cx.step(lambda: repr(sorted(map(repr, A.extract_type(t, (Coefficient, Argument, Label)))))))
    r.append(cx.step(lambda: (has_type(t, ufl.classes.Grad), has_exact_type(t, ufl.classes.Sum))))
    r.append(cx.step(lambda: [len(list(A.post_traversal(e))) for e in roots_of(t)]))
    r.append(cx.step(lambda: repr(ufl.domain.extract_domains(t))))
    return ("value", r)


def ev_signature(t, cx):
    r = []
    if isinstance(t, Form):
        r.append(cx.step(lambda: t.signature()))
        r.append(cx.step(lambda: compute_form_signature(t, t._compute_renumbering())))
        r.append(cx.step(lambda: A.compute_form_signature(t, t._compute_renumbering())))
    else:
        e = roots_of(t)[0]
        r.append(cx.step(lambda: compute_expression_signature(e, _renumbering(e))))
        r.append(cx.step(lambda: compute_expression_signature(e, _renumbering(e))))
    return ("value", r)


def _renumbering(e):
    from ufl.domain import extract_domains

    ren = {}
    for k, d in enumerate(extract_domains(e)):
        ren[d] = k
    for cls in (Coefficient, Constant, Label):
        for k, c in enumerate(sorted(find(e, cls), key=lambda c: c.count())):
            ren[c] = k
    return ren


def ev_form_accessors(t, cx):
    r = []
    for name in (
        "arguments",
        "coefficients",
        "constants",
        "ufl_domains",
        "domain_numbering",
        "subdomain_data",
        "terminal_numbering",
        "coefficient_numbering",
        "constant_numbering",
        "base_form_operators",
        "empty",
        "ufl_domain",
        "geometric_dimension",
        "ufl_cell",
        "geometric_quantities",
    ):
        r.append(cx.step(lambda name=name: repr(getattr(t, name)())))
    r.append(cx.step(lambda: hash(t)))
    r.append(cx.step(lambda: len(t.integrals_by_type("cell")) + len(t.integrals_by_domain(cx.U.mesh))))
    r.append(cx.step(lambda: [hash(i) for i in t.integrals()]))
    return ("value", r)


def ev_expr_accessors(t, cx):
    e = roots_of(t)[0]
    r = [
        cx.step(lambda: hash(e)),
        cx.step(lambda: (e.ufl_shape, e.ufl_free_indices, e.ufl_index_dimensions)),
        cx.step(lambda: repr(ufl.domain.extract_unique_domain(e))),
        cx.step(lambda: e.geometric_dimension() if hasattr(e, "geometric_dimension") else None),
        cx.step(lambda: ufl.checks.is_cellwise_constant(e)),
        cx.step(lambda: ufl.checks.is_true_ufl_scalar(e)),
        cx.step(lambda: ufl.checks.is_scalar_constant_expression(e)),
        cx.step(lambda: len({e, e})),
        cx.step(lambda: {e: 1}[e]),
    ]
    if isinstance(t, Integral):
        r.append(cx.step(lambda: hash(t)))
    return ("value", r)


def ev_lhs(t, cx):
    return ufl.lhs(t)


def ev_rhs(t, cx):
    return ufl.rhs(t)


def ev_system(t, cx):
    a, b = ufl.system(t)
    cx.secondary(b)
    return a


def ev_functional(t, cx):
    return ufl.functional(t)


def ev_action(t, cx):
    r = ufl.action(t)
    args = arguments_of(t)
    if args:
        w = Coefficient(args[-1].ufl_function_space())
        cx.secondary(cx.step(lambda: ufl.action(t, w)))
        cx.secondary(cx.step(lambda: t * w))
    return r


def ev_adjoint(t, cx):
    r = ufl.adjoint(t)
    args = arguments_of(t)
    if len(args) == 2:
        ra = (Argument(args[1].ufl_function_space(), 0), Argument(args[0].ufl_function_space(), 1))
        cx.guard("reordered_arguments", ra)
        cx.secondary(cx.step(lambda: ufl.adjoint(t, reordered_arguments=ra)))
    return r


def ev_energy_norm(t, cx):
    return ufl.energy_norm(t)


def ev_derivative(t, cx):
    cs = coefficients_of(t)
    r = ufl.derivative(t, cs[0])
    if len(cs) > 1 and isinstance(t, Form):
        cx.secondary(cx.step(lambda: ufl.derivative(t, [cs[0], cs[1]])))
    return r


def ev_derivative_cd(t, cx):
    cs = coefficients_of(t)
    nargs = len({a.number() for a in arguments_of(t)})
    du = Argument(cs[0].ufl_function_space(), nargs)
    sc = [c for c in cs if c.ufl_shape == ()]
    cd = {}
    if cs[0].ufl_shape == () and len(sc) >= 2:
        other = [c for c in sc if c is not cs[0]][0]
        cd[other] = 3 * cs[0] + 1
    cx.guard("coefficient_derivatives", cd)
    return ufl.derivative(t, cs[0], du, coefficient_derivatives=cd)


def ev_derivative_x(t, cx):
    m = mesh_of(t, cx)
    x = SpatialCoordinate(m)
    nargs = len({a.number() for a in arguments_of(t)})
    dX = Argument(ufl.FunctionSpace(m, m.ufl_coordinate_element()), nargs)
    return ufl.derivative(t, x, dX)


def ev_sensitivity_rhs(t, cx):
    vs = find(t, Variable)
    v = vs[0] if vs else cx.U.t.get("variable")
    cs = coefficients_of(t)
    if v is None:
        v = ufl.variable(cs[0])
    return ufl.sensitivity_rhs(t, cs[0], t, v)


def ev_extract_blocks(t, cx):
    r = ufl.extract_blocks(t)
    flat = []

    def fl(x):
        if isinstance(x, (tuple, list)):
            for y in x:
                fl(y)
        elif x is not None:
            flat.append(x)

    fl(r)
    for x in flat[1:4]:
        cx.secondary(x)
    cx.secondary(cx.step(lambda: ufl.extract_blocks(t, 0)))
    cx.step(lambda: A.FormSplitter().split(t, 0, 0))
    return flat[0] if flat else ("value", "no blocks")


def ev_strip_terminal_data(t, cx):
    s, mapping = A.strip_terminal_data(t)
    cx.secondary(s)
    cx.guard("mapping", mapping)
    return A.replace_terminal_data(s, mapping)


def ev_form_add(t, cx):
    r = t + t
    cx.secondary(cx.step(lambda: t - t))
    cx.secondary(cx.step(lambda: sum([t, t, t])))
    cx.step(lambda: t + 0)
    cx.step(lambda: 0 + t)
    return r


def ev_form_scale(t, cx):
    r = 2 * t
    cx.secondary(cx.step(lambda: -t))
    c = Constant(cx.U.mesh)
    cx.secondary(cx.step(lambda: c * t))
    cx.secondary(cx.step(lambda: 0.5 * t - 3 * t))
    return r


def ev_form_call(t, cx):
    cs = coefficients_of(t)
    repl = {}
    if cs:
        repl[cs[0]] = cs[0] + cs[0]
    cx.guard("coefficients", repl)
    r = t(coefficients=repl)
    args = arguments_of(t)
    if args:
        ws = [Coefficient(a.ufl_function_space()) for a in args]
        cx.secondary(cx.step(lambda: t(*ws)))
        cx.secondary(cx.step(lambda: t(*ws, coefficients=repl)))
    cx.step(lambda: t())
    return r


def ev_measure_reconf(t, cx):
    forms = []
    user_md = {"quadrature_degree": 1, "extra": [1, 2, {"k": [3]}]}
    cx.guard("user_md", user_md)
    for itg in integrals_of(t)[:3]:
        m = Measure(
            itg.integral_type(),
            domain=itg.ufl_domain(),
            subdomain_id=itg.subdomain_id(),
            metadata=itg.metadata(),
            subdomain_data=itg.subdomain_data(),
        )
        e = itg.integrand()
        variants = [
            lambda m=m: m(1),
            lambda m=m: m(degree=3),
            lambda m=m: m(2, metadata=user_md),
            lambda m=m: m(scheme="vertex", degree=1),
            lambda m=m: m((1, 2)),
            lambda m=m: m(),
            lambda m=m: m(metadata=user_md, degree=7),
            lambda m=m: m(m.ufl_domain()),
            lambda m=m: m.reconstruct(metadata=user_md),
            lambda m=m: m.reconstruct(subdomain_id=5),
        ]
        for v in variants:
            mm = cx.step(v)
            if isinstance(mm, Measure):
                fr = cx.step(lambda mm=mm: e * mm)
                if isinstance(fr, Form):
                    forms.append(fr)
                cx.step(lambda mm=mm: (hash(mm), mm == m, str(mm), repr(mm)))
    for name, w in cx.U.watch.items():
        if isinstance(w, Measure):
            for v in (lambda w=w: w(4), lambda w=w: w(degree=9), lambda w=w: w(metadata=user_md), lambda w=w: w(scheme="s")):
                mm = cx.step(v)
                if isinstance(mm, Measure):
                    cx.step(lambda mm=mm: (hash(mm), mm == w, str(mm)))
                    if forms:
                        e0 = forms[0].integrals()[0].integrand()
                        fr = cx.step(lambda mm=mm: e0 * mm)
                        if isinstance(fr, Form):
                            forms.append(fr)
    if not forms:
        return ("value", "no measures")
    out = forms[0]
    for fr in forms[1:]:
        out = out + fr
    return out


def ev_integral_reconstruct(t, cx):
    new = []
    user_md = {"quadrature_degree": 6, "nested": {"l": [1, 2]}}
    cx.guard("user_md", user_md)
    for itg in integrals_of(t):
        new.append(itg.reconstruct())
        new.append(itg.reconstruct(integrand=2 * itg.integrand()))
        x = cx.step(lambda: itg.reconstruct(metadata=user_md))
        if isinstance(x, Integral):
            new.append(x)
        x = cx.step(lambda: itg.reconstruct(subdomain_id=7, subdomain_data=None))
        if isinstance(x, Integral):
            new.append(x)
        for f in (lambda: -itg, lambda: 2 * itg, lambda: itg * 3.0, lambda: Constant(cx.U.mesh) * itg):
            x = cx.step(f)
            if isinstance(x, Integral):
                new.append(x)
        cx.step(lambda: (str(itg), repr(itg), hash(itg), itg == itg))
    if isinstance(t, Integral):
        return new[1]
    return Form(new)


def _eq_steps(t, c, cx):
    r = []
    if isinstance(t, Form):
        r.append(cx.step(lambda: t.equals(c)))
        r.append(cx.step(lambda: bool(t == c)))
        r.append(cx.step(lambda: t != c))
        r.append(cx.step(lambda: hash(t) == hash(c)))
        r.append(cx.step(lambda: [a == b for a, b in zip(t.integrals(), c.integrals())]))
        r.append(cx.step(lambda: [a.integrand() == b.integrand() for a, b in zip(t.integrals(), c.integrals())]))
        r.append(cx.step(lambda: c.equals(t)))
        r.append(cx.step(lambda: len({t, c})))
    elif kind_of(t) == "baseform":
        r.append(cx.step(lambda: t.equals(c)))
        r.append(cx.step(lambda: bool(t == c)))
        r.append(cx.step(lambda: t != c))
        r.append(cx.step(lambda: hash(t) == hash(c)))
        r.append(cx.step(lambda: c.equals(t)))
        r.append(cx.step(lambda: len({t, c})))
    elif isinstance(t, Integral):
        r.append(cx.step(lambda: t == c))
        r.append(cx.step(lambda: t.integrand() == c.integrand()))
        r.append(cx.step(lambda: c == t))
        r.append(cx.step(lambda: len({t, c})))
    else:
        r.append(cx.step(lambda: t == c))
        r.append(cx.step(lambda: t.equals(c) if hasattr(t, "equals") else None))
        r.append(cx.step(lambda: c == t))
        r.append(cx.step(lambda: len({t, c})))
        r.append(cx.step(lambda: {c: 1}.get(t)))
        # partial sharing: compare operands pairwise (different order of DAG sharing)
        r.append(cx.step(lambda: [a == b for a, b in zip(t.ufl_operands, c.ufl_operands)]))
    return r


def ev_eq_clone(t, cx):
    c = clone(t)
    cx.secondary(c)
    r = _eq_steps(t, c, cx)
    if not isinstance(t, Expr):
        c2 = clone(t, md_copy=True)
        cx.secondary(c2)
        r += _eq_steps(t, c2, cx)
    return ("value", r)


def ev_eq_rewritten(t, cx):
    """Compare the target with UNEQUAL near-copies of itself: the outputs of label-preserving rewriting passes (they
    rebuild Variable nodes with the old label around a new expression).  An unsuccessful comparison must leave both
    operands alone, too."""
    r = []
    passes = (apply_algebra_lowering, renumber_indices, apply_derivatives, remove_complex_nodes)
    for fn in passes:
        c = cx.step(lambda fn=fn: fn(t))
        if isinstance(c, str) or c is None or kind_of(c) != kind_of(t):
            continue
        cx.secondary(c)
        r += _eq_steps(t, c, cx)
        if isinstance(t, Expr) and t.ufl_shape == c.ufl_shape and not t.ufl_free_indices:
            # the two trees under one root (sorting and sharing happen inside the constructor and in the estimators)
            r.append(cx.step(lambda c=c: str(t - c)))
            r.append(cx.step(lambda c=c: A.estimate_total_polynomial_degree(t - c)))
    return ("value", r)


def ev_eq_rebuild(t, cx):
    c = cx.U.make()
    cx.secondary(c)
    return ("value", _eq_steps(t, c, cx))


def ev_sorted_expr(t, cx):
    rs = roots_of(t)
    seq = []
    for e in rs:
        seq.append(e)
        seq.extend(e.ufl_operands)
        for o in e.ufl_operands:
            seq.extend(o.ufl_operands)
    seq = seq[:12] + [clone_expr(e) for e in rs[:2]]
    cx.guard("sequence", seq)
    s1 = sorted_expr(seq)
    s2 = cx.step(lambda: sorted_expr(reversed(seq)))
    r = [len(s1), cx.step(lambda: [repr(a) for a in s1] == [repr(a) for a in s2])]
    r.append(cx.step(lambda: [cmp_expr(a, b) for a in seq[:5] for b in seq[:5]]))
    r.append(cx.step(lambda: repr(ufl.sorting.sorted_expr_sum(seq[:3])) if hasattr(ufl.sorting, "sorted_expr_sum") else None))
    for e in rs[:2]:
        ops = e.ufl_operands
        cx.step(lambda ops=ops: sorted_expr(ops))
    return ("value", r)


def ev_str_repr(t, cx):
    r = [cx.step(lambda: len(str(t))), cx.step(lambda: len(repr(t)))]
    r.append(cx.step(lambda: len(A.tree_format(t))))
    r.append(cx.step(lambda: len(ufl.formatting.ufl2unicode.ufl2unicode(t))))
    r.append(cx.step(lambda: len(ufl.core.expr.ufl_err_str(t))))
    return ("value", r)


def ev_pickle(t, cx):
    r = pickle.loads(pickle.dumps(t))
    cx.secondary(cx.step(lambda: copy.deepcopy(t)))
    cx.secondary(cx.step(lambda: copy.copy(t)))
    return r


def ev_validate(t, cx):
    r = [cx.step(lambda: A.validate_form(t))]
    r.append(cx.step(lambda: repr(A.compute_form_arities(t))))
    args = tuple(arguments_of(t))
    r.append(cx.step(lambda: check_form_arity(t, args)))
    r.append(cx.step(lambda: check_form_arity(t, args, complex_mode=True)))
    return ("value", r)


def ev_check_integrand(t, cx):
    e = roots_of(t)[0]
    args = tuple(arguments_of(t))
    r = [cx.step(lambda: check_integrand_arity(e, args)), cx.step(lambda: check_integrand_arity(e, args, True))]
    r.append(cx.step(lambda: ufl.algorithms.check_restrictions.check_restrictions(e, False)))
    return ("value", r)


def ev_comparison_check(t, cx):
    return do_comparison_check(t)


def ev_remove_component_tensors(t, cx):
    return remove_component_tensors(t)


def ev_cancel_jacobian_products(t, cx):
    return cancel_jacobian_products(t)


def ev_strip_variables(t, cx):
    return A.strip_variables(t)


def ev_transformers(t, cx):
    cx.secondary(cx.step(lambda: apply_transformer(t, ReuseTransformer())))
    return apply_transformer(t, CopyTransformer())


def ev_balance_modifiers(t, cx):
    if isinstance(t, Expr):
        return balance_modifiers(t)
    from ufl.algorithms.map_integrands import map_integrands

    return map_integrands(balance_modifiers, t)


def ev_preprocess_form(t, cx):
    cx.secondary(cx.step(lambda: A.preprocess_form(t, True)))
    return A.preprocess_form(t, False)


def ev_group_integrals(t, cx):
    from ufl.algorithms.domain_analysis import build_integral_data, group_form_integrals

    g = group_form_integrals(t, t.ufl_domains())
    cx.secondary(cx.step(lambda: group_form_integrals(t, t.ufl_domains(), do_append_everywhere_integrals=False)))
    cx.step(lambda: [str(d) for d in build_integral_data(g.integrals())])
    return g


# ---- base form events -----------------------------------------------------------------------------
def _arg_spaces(t, cx):
    try:
        args = t.arguments()
    except Exception:  # noqa: BLE001
        args = ()
    return [a.ufl_function_space() for a in args]


def ev_action_identity(t, cx):
    """Identity simplifications: Action(Coargument, X) -> X and Action(X, Argument) -> X."""
    from ufl.classes import Coargument

    V = cx.U.t.get("V") or (_arg_spaces(t, cx) or [None])[0]
    if V is None:
        m = cx.U.mesh
        V = ufl.FunctionSpace(m, m.ufl_coordinate_element())
    r = ufl.action(Coargument(V.dual(), 0), t)
    cx.secondary(cx.step(lambda: ufl.action(t, Argument(V, 0))))
    cx.secondary(cx.step(lambda: ufl.classes.Action(Coargument(V.dual(), 1), t)))
    return r


def ev_bf_action(t, cx):
    sp = _arg_spaces(t, cx)
    w = Coefficient(sp[-1])
    r = ufl.action(t, w)
    cx.secondary(cx.step(lambda: t * w))
    cx.secondary(cx.step(lambda: t @ w))
    cx.secondary(cx.step(lambda: t(w)))
    return r


def ev_bf_adjoint(t, cx):
    r = ufl.adjoint(t)
    cx.secondary(cx.step(lambda: ufl.adjoint(r)))
    cx.secondary(cx.step(lambda: ufl.classes.Adjoint(ufl.classes.Adjoint(t))))
    return r


def ev_bf_arith(t, cx):
    from ufl.classes import FormSum

    r = t + t
    cx.secondary(cx.step(lambda: t - t))
    cx.secondary(cx.step(lambda: 2 * t))
    cx.secondary(cx.step(lambda: -t))
    cx.secondary(cx.step(lambda: FormSum((t, 1))))
    cx.secondary(cx.step(lambda: FormSum((t, 1), (t, 2.5))))
    cx.secondary(cx.step(lambda: sum([t, t])))
    cx.secondary(cx.step(lambda: t + 0))
    c = cx.U.t.get("c")
    if c is not None:
        cx.secondary(cx.step(lambda: t + c))
        cx.secondary(cx.step(lambda: c - t))
    return r


def ev_bf_accessors(t, cx):
    r = []
    for name in ("arguments", "coefficients", "ufl_domains", "ufl_domain", "empty"):
        r.append(cx.step(lambda name=name: repr(getattr(t, name)())))
    r.append(cx.step(lambda: hash(t)))
    r.append(cx.step(lambda: t.equals(t)))
    r.append(cx.step(lambda: bool(t == t)))
    r.append(cx.step(lambda: (str(t), repr(t))))
    r.append(cx.step(lambda: repr(t.ufl_operands)))
    return ("value", r)


# ---- expression constructors (operators applied to an existing expression) -----------------------
def ev_op_abs(t, cx):
    r = abs(t)
    cx.secondary(cx.step(lambda: abs(r)))
    cx.secondary(cx.step(lambda: ufl.sign(t)))
    cx.secondary(cx.step(lambda: ufl.sqrt(t)))
    return r


def ev_op_complex(t, cx):
    r = ufl.conj(t)
    cx.secondary(cx.step(lambda: ufl.conj(r)))
    cx.secondary(cx.step(lambda: ufl.real(ufl.real(t))))
    cx.secondary(cx.step(lambda: ufl.imag(ufl.real(t))))
    cx.secondary(cx.step(lambda: ufl.real(ufl.imag(t))))
    return r


def ev_op_arith(t, cx):
    r = t + t
    cx.secondary(cx.step(lambda: -t))
    cx.secondary(cx.step(lambda: -(-t)))
    cx.secondary(cx.step(lambda: 2 * t - t / 3))
    cx.secondary(cx.step(lambda: ufl.inner(t, t)))
    cx.secondary(cx.step(lambda: t * t))
    cx.secondary(cx.step(lambda: t**2))
    cx.secondary(cx.step(lambda: ufl.outer(t, t)))
    cx.secondary(cx.step(lambda: 0 * t))
    cx.secondary(cx.step(lambda: 1 * t))
    return r


def ev_op_tensor(t, cx):
    i, j = ufl.Index(), ufl.Index()
    r = None
    sh = t.ufl_shape
    if len(sh) == 0:
        r = ufl.as_vector([t, 2 * t])
        cx.secondary(cx.step(lambda: ufl.as_vector([t, t])[0]))
    elif len(sh) == 1:
        r = ufl.as_tensor(t[i], (i,))
        cx.secondary(cx.step(lambda: t[0]))
        cx.secondary(cx.step(lambda: ufl.as_vector([t[k] for k in range(sh[0])])))
        cx.secondary(cx.step(lambda: ufl.dot(t, t)))
        cx.secondary(cx.step(lambda: ufl.perp(t)))
    else:
        r = ufl.as_tensor(t[i, j], (j, i)) if len(sh) == 2 else t[0]
        cx.secondary(cx.step(lambda: t.T))
        cx.secondary(cx.step(lambda: t.T.T))
        cx.secondary(cx.step(lambda: ufl.transpose(ufl.transpose(t))))
        cx.secondary(cx.step(lambda: ufl.sym(t) + ufl.skew(t)))
        cx.secondary(cx.step(lambda: ufl.tr(t)))
        cx.secondary(cx.step(lambda: ufl.det(ufl.det(t))))
        cx.secondary(cx.step(lambda: t[0, :]))
    cx.secondary(cx.step(lambda: ufl.variable(t)))
    return r


def ev_op_diff(t, cx):
    r = ufl.grad(t)
    cx.secondary(cx.step(lambda: ufl.grad(r)))
    cx.secondary(cx.step(lambda: t.dx(0)))
    cx.secondary(cx.step(lambda: ufl.div(r)))
    cs = coefficients_of(t)
    if cs:
        cx.secondary(cx.step(lambda: ufl.diff(t, cs[0])))
    vs = find(t, Variable)
    if vs:
        cx.secondary(cx.step(lambda: ufl.diff(t, vs[0])))
    cx.secondary(cx.step(lambda: ufl.nabla_grad(t)))
    return r


def ev_op_restrict(t, cx):
    r = t("+")
    cx.secondary(cx.step(lambda: t("-")))
    cx.secondary(cx.step(lambda: ufl.jump(t)))
    cx.secondary(cx.step(lambda: ufl.avg(t)))
    cx.secondary(cx.step(lambda: r("+")))
    return r


def ev_op_conditional(t, cx):
    r = ufl.conditional(ufl.gt(t, 0), t, -t)
    cx.secondary(cx.step(lambda: ufl.max_value(t, 1)))
    cx.secondary(cx.step(lambda: ufl.conditional(ufl.And(ufl.lt(t, 1), ufl.Not(ufl.eq(t, 0))), 1, t)))
    return r


def ev_integrate(t, cx):
    md = {"quadrature_degree": 2, "pts": [[0.0, 1.0]]}
    cx.guard("md", md)
    e = t
    if t.ufl_shape != () or t.ufl_free_indices != ():
        if t.ufl_free_indices != ():
            raise ValueError("harness: cannot integrate an expression with free indices")
        e = ufl.inner(t, t)
    r = e * ufl.dx(domain=cx.U.mesh, metadata=md)
    cx.secondary(cx.step(lambda: e * ufl.ds(cx.U.mesh) + e * ufl.dx(cx.U.mesh)))
    cx.secondary(cx.step(lambda: e("+") * ufl.dS(cx.U.mesh)))
    return r


def ev_integral_to_form(t, cx):
    r = Form([t])
    cx.secondary(cx.step(lambda: Form([t, t])))
    return r


EVENTS = [
    # --- compute_form_data option sets
    Event("cfd_default", (F,), _cfd()),
    Event("cfd_pull", (F,), _cfd(do_apply_function_pullbacks=True)),
    Event("cfd_scale", (F,), _cfd(do_apply_function_pullbacks=True, do_apply_integral_scaling=True)),
    Event("cfd_geom", (F,), _cfd(do_apply_geometry_lowering=True, preserve_geometry_types=(Jacobian,))),
    Event(
        "cfd_ffcx",
        (F,),
        _cfd(
            do_apply_function_pullbacks=True,
            do_apply_integral_scaling=True,
            do_apply_geometry_lowering=True,
            preserve_geometry_types=(Jacobian,),
            do_apply_restrictions=True,
            do_append_everywhere_integrals=False,
        ),
        core=True,
    ),
    Event(
        "cfd_tsfc_complex",
        (F,),
        _cfd(
            do_apply_function_pullbacks=True,
            do_apply_integral_scaling=True,
            do_apply_geometry_lowering=True,
            preserve_geometry_types=(CellVolume, FacetArea),
            do_apply_restrictions=True,
            do_estimate_degrees=True,
            complex_mode=True,
        ),
    ),
    Event(
        "cfd_noest",
        (F,),
        _cfd(do_estimate_degrees=False, do_apply_default_restrictions=False, do_apply_restrictions=False),
    ),
    Event(
        "cfd_cancel",
        (F,),
        _cfd(
            do_apply_function_pullbacks=True,
            do_apply_geometry_lowering=True,
            do_cancel_jacobian_products=True,
            do_remove_component_tensors=True,
        ),
    ),
    Event("cfd_replace", (F,), _cfd(do_replace_functions=True, complex_mode=True)),
    # --- single algorithms
    Event("expand_derivatives", FEIB, ev_expand_derivatives, core=True),
    Event("expand_indices", FEI, ev_expand_indices),
    Event("apply_algebra_lowering", FEIB, ev_algebra_lowering),
    Event("apply_derivatives", FEIB, ev_apply_derivatives),
    Event("apply_coordinate_derivatives", FEI, ev_coordinate_derivatives),
    Event("apply_function_pullbacks", FEI, ev_function_pullbacks),
    Event("apply_geometry_lowering", FEI, ev_geometry_lowering),
    Event("apply_integral_scaling", FI, ev_integral_scaling, core=True),
    Event("apply_restrictions", FEI, ev_restrictions),
    Event("apply_default_restrictions", FEI, ev_default_restrictions),
    Event("remove_complex_nodes", FEIB, ev_remove_complex_nodes),
    Event("renumber_indices", FEIB, ev_renumber_indices),
    Event("replace", FEIB, ev_replace, core=True),
    Event("change_to_reference_grad", FEI, ev_change_to_reference_grad),
    Event("estimate_degree", FEI, ev_estimate_degree),
    Event("attach_estimated_degrees", (F,), ev_attach_estimated_degrees, core=True),
    Event("remove_component_tensors", FEI, ev_remove_component_tensors),
    Event("cancel_jacobian_products", FEI, ev_cancel_jacobian_products),
    Event("strip_variables", FEI, ev_strip_variables),
    Event("transformers", FEI, ev_transformers),
    Event("balance_modifiers", FEI, ev_balance_modifiers),
    Event("comparison_check", FEI, ev_comparison_check),
    Event("preprocess_form", (F,), ev_preprocess_form),
    Event("group_form_integrals", (F,), ev_group_integrals),
    # --- analysis
    Event("analysis", FEIB, ev_analysis),
    Event("signature", FEI, ev_signature, core=True),
    Event("form_accessors", (F,), ev_form_accessors, core=True),
    Event("expr_accessors", (E_, I_), ev_expr_accessors, core=True),
    Event("validate", (F,), ev_validate),
    Event("check_integrand", (E_, I_), ev_check_integrand),
    Event("sorted_expr", FEI, ev_sorted_expr),
    Event("str_repr", FEIB, ev_str_repr),
    Event("pickle", FEIB, ev_pickle),
    Event("eq_clone", FEI, ev_eq_clone, core=True),
    Event("eq_rebuild", FEIB, ev_eq_rebuild, core=True, first_only=True),
    Event("eq_rewritten", FEI, ev_eq_rewritten, core=True),
    # --- form operators
    Event("lhs", (F,), ev_lhs),
    Event("rhs", (F,), ev_rhs),
    Event("system", (F,), ev_system),
    Event("functional", (F,), ev_functional),
    Event("action", (F,), ev_action, req=("arg",)),
    Event("adjoint", (F,), ev_adjoint, req=("arg",)),
    Event("energy_norm", (F,), ev_energy_norm, req=("arg",)),
    Event("derivative", (F, E_, B_), ev_derivative, req=("coef",), core=True),
    Event("derivative_cd", (F, E_), ev_derivative_cd, req=("coef",)),
    Event("derivative_x", (F,), ev_derivative_x),
    Event("sensitivity_rhs", (F,), ev_sensitivity_rhs, req=("coef",)),
    Event("extract_blocks", (F,), ev_extract_blocks, req=("arg",)),
    Event("strip_terminal_data", FI, ev_strip_terminal_data),
    Event("form_add", (F,), ev_form_add),
    Event("form_scale", (F,), ev_form_scale),
    Event("form_call", (F,), ev_form_call),
    Event("measure_reconf", FI, ev_measure_reconf, req=("nonempty",), core=True),
    Event("integral_reconstruct", FI, ev_integral_reconstruct, req=("nonempty",), core=True),
    Event("integral_to_form", (I_,), ev_integral_to_form, core=True),
    # --- base forms
    Event("action_identity", (B_,), ev_action_identity, core=True),
    Event("bf_action", (B_,), ev_bf_action, core=True),
    Event("bf_adjoint", (B_,), ev_bf_adjoint, core=True),
    Event("bf_arith", (B_,), ev_bf_arith, core=True),
    Event("bf_accessors", (B_,), ev_bf_accessors, core=True),
    # --- expression constructors
    Event("op_abs", (E_,), ev_op_abs, core=True),
    Event("op_complex", (E_,), ev_op_complex),
    Event("op_arith", (E_,), ev_op_arith, core=True),
    Event("op_tensor", (E_,), ev_op_tensor, req=("nofree",)),
    Event("op_diff", (E_,), ev_op_diff),
    Event("op_restrict", (E_,), ev_op_restrict),
    Event("op_conditional", (E_,), ev_op_conditional, req=("scalar",)),
    Event("integrate", (E_,), ev_integrate, req=("nofree",), core=True),
]

BY_NAME = {e.name: e for e in EVENTS}
