"""C16 lhs/rhs/system/action/adjoint/energy_norm/functional respect the algebra.

All forms F = sum of <= 3 weighted terms from a term alphabet that covers every PartExtracter handler
(bilinear, linear and functional terms; sums inside terms; list tensors; index sums; division; variables;
conditionals; restricted; conj) x measures (dx, dx(1), ds, dS) x spaces (scalar, vector).  The real form
operators are compared, per (integral type, subdomain id), with the multi-affine decomposition of the
model value of F in its arguments:  a(u,v) = F(u,v)-F(u,0)-F(0,v)+F(0,0),  L(v) = F(0,v)-F(0,0):
  lhs(F) == a,  rhs(F) == -L,  functional(F) == F(0,0),
  action(a, f)(v) == a(u:=f, v),  adjoint(a)(u', v') == conj(a(u:=v', v:=u')),  energy_norm(a, f) == a(f, f).
Exceptions are accepted outcomes (PartExtracter refuses some shapes by design) and counted.
"""

import copy
import itertools
import json

import mpmath

import ufl
from mc import elements as E
from mc import envs as EV
from mc import formsem as FS
from mc.runner import Part, Run, pmap
from mc.sem import sem as M
from mc.sem.jet import Ambiguous, Undefined, mpf, set_order

PID = "C16"


class World:
    def __init__(self, kind):
        self.kind = kind
        m = EV.mesh("triangle")
        self.mesh = m
        el = E.P("triangle", 1) if kind == "scalar" else E.P("triangle", 2, (2,))
        self.V = ufl.FunctionSpace(m, el)
        self.u = ufl.TrialFunction(self.V)
        self.v = ufl.TestFunction(self.V)
        self.k = ufl.Coefficient(self.V)
        S = ufl.FunctionSpace(m, E.P("triangle", 2))
        self.f = ufl.Coefficient(S)
        self.g = ufl.Coefficient(S)
        self.w = ufl.Coefficient(ufl.FunctionSpace(m, E.P("triangle", 2, (2,))))
        self.c = ufl.Constant(m)
        self.n = ufl.FacetNormal(m)


def terms(W, inter):
    """dict name -> (arity, builder)."""
    u, v, k, f, g, w, c, n = W.u, W.v, W.k, W.f, W.g, W.w, W.c, W.n
    i = ufl.Index()

    def R(e, s="+"):
        return e(s) if inter else e

    T = {}
    if W.kind == "scalar":
        T["uv"] = (2, lambda: R(u) * R(v))
        T["fuv"] = (2, lambda: R(f) * R(u) * R(v))
        T["grad"] = (2, lambda: ufl.inner(ufl.grad(R(u)), ufl.grad(R(v))))
        T["inner"] = (2, lambda: ufl.inner(R(u), R(v)))
        T["affine(u+f)v"] = (12, lambda: (R(u) + R(f)) * R(v))
        T["affine_nested"] = (12, lambda: (2 * R(u) - R(f) * R(g) + R(u) * R(f)) * R(v) * R(g))
        T["list"] = (2, lambda: ufl.as_vector([R(u), R(f) * R(u)])[i] * ufl.grad(R(v))[i])
        T["div_f"] = (2, lambda: R(u) * R(v) / R(f))
        T["variable"] = (2, lambda: ufl.variable(R(u)) * R(v))
        T["dx0"] = (2, lambda: R(u).dx(0) * R(v))
        T["cond"] = (2, lambda: ufl.conditional(ufl.lt(R(f), R(g)), R(u), 2 * R(u)) * R(v))
        T["advect"] = (2, lambda: ufl.dot(ufl.grad(R(u)), R(w)) * R(v))
        T["conj_u"] = (2, lambda: ufl.conj(R(u)) * ufl.conj(R(v)))
        T["fv"] = (1, lambda: R(f) * R(v))
        T["gv"] = (1, lambda: R(g) * ufl.conj(R(v)))
        T["gradf_gradv"] = (1, lambda: ufl.inner(ufl.grad(R(f)), ufl.grad(R(v))))
        T["cv"] = (1, lambda: c * R(v))
        T["sinf_v"] = (1, lambda: ufl.sin(R(f)) * R(v) / R(g))
        T["kv"] = (1, lambda: R(k) * R(v))
        T["list_v"] = (1, lambda: ufl.as_vector([R(f), R(g)])[i] * ufl.grad(R(v))[i])
        if inter:
            # restrictions wrapping sums of mixed arity: the argument-free part must be dropped INSIDE the restriction
            T["restr_affine"] = (12, lambda: (u - g)("+") * v("+"))
            T["jump_affine"] = (12, lambda: ufl.jump(u - f * g) * ufl.avg(v))
            T["jump"] = (2, lambda: ufl.jump(u) * ufl.jump(v))
            T["avg_flux"] = (2, lambda: ufl.dot(ufl.avg(ufl.grad(u)), n("+")) * ufl.jump(v))
    else:
        T["inner"] = (2, lambda: ufl.inner(R(u), R(v)))
        T["grad"] = (2, lambda: ufl.inner(ufl.grad(R(u)), ufl.grad(R(v))))
        T["divdiv"] = (2, lambda: ufl.div(R(u)) * ufl.div(R(v)))
        T["index"] = (2, lambda: R(u)[i] * R(v)[i] * R(f))
        T["comp"] = (2, lambda: R(u)[0] * R(v)[1] + R(u)[1] * R(v)[0])
        T["affine"] = (12, lambda: ufl.inner(R(u) + R(w), R(v)))
        T["sym"] = (2, lambda: ufl.inner(ufl.sym(ufl.grad(R(u))), ufl.grad(R(v))))
        T["wv"] = (1, lambda: ufl.dot(R(w), R(v)))
        T["fwv"] = (1, lambda: R(f) * ufl.dot(R(w), R(v)))
        T["kv"] = (1, lambda: ufl.inner(R(k), R(v)))
        if inter:
            T["jump"] = (2, lambda: ufl.inner(ufl.jump(u), ufl.jump(v)))
    T["fg"] = (0, lambda: R(f) * R(g))
    T["f2"] = (0, lambda: R(f) ** 2 + c)
    return T


MEASURES = {
    "dx": (FS.CELL, lambda m: ufl.dx(domain=m)),
    "dx(1)": (FS.CELL, lambda m: ufl.dx(1, domain=m)),
    "ds": (FS.EXT, lambda m: ufl.ds(domain=m)),
    "dS": (FS.INT, lambda m: ufl.dS(domain=m)),
}
WEIGHTS = [1, -1, 2]


def form_values(form, envs_by_type, variant=None, key_alias=None, conj=False):
    """dict (integral type, subdomain id) -> list of values (one per env)."""
    out = {}
    for itg in form.integrals():
        it = itg.integral_type()
        vals = []
        for env in envs_by_type[it]:
            e2 = copy.copy(env)
            e2.fields = copy.copy(env.fields)
            e2.fields.variant = dict(variant or {})
            e2.key_alias = dict(key_alias or {})
            v = M.sem(itg.integrand(), M.Ctx(e2), {})
            vals.append(mpmath.conj(M.const_of(v)) if conj else M.const_of(v))
        k = (it, str(itg.subdomain_id()))
        if k in out:
            out[k] = [a + b for a, b in zip(out[k], vals)]
        else:
            out[k] = vals
    return out


def combine(*pairs):
    """Linear combination of value dicts: pairs of (coefficient, dict)."""
    keys = set()
    for _, d in pairs:
        keys |= set(d)
    out = {}
    for k in keys:
        n = max(len(d[k]) for _, d in pairs if k in d)
        out[k] = [sum((cf * d[k][j] for cf, d in pairs if k in d), mpf(0)) for j in range(n)]
    return out


def same(d1, d2, tol=mpf("1e-10")):
    for k in set(d1) | set(d2):
        a = d1.get(k)
        b = d2.get(k)
        if a is None:
            a = [mpf(0)] * len(b)
        if b is None:
            b = [mpf(0)] * len(a)
        for x, y in zip(a, b):
            if not M.values_close(x, y, tol):
                return (k, x, y)
    return None


def check_form(item, part, envs_by_type_r, envs_by_type_c):
    kind, spec = item
    W = World(kind)
    inter_needed = any(m == "dS" for _, _, m in spec)
    name = " + ".join(f"{wt}*{t}*{m}" for wt, t, m in spec)
    key0 = f"{kind}:{name}"
    try:
        F = None
        arities = set()
        for wt, t, m in spec:
            it, mk = MEASURES[m]
            T = terms(W, it == FS.INT)
            if t not in T:
                return
            ar, b = T[t]
            arities.add(ar)
            term = wt * b() * mk(W.mesh)
            F = term if F is None else F + term
    except BaseException as e:  # noqa: BLE001
        if isinstance(e, (KeyboardInterrupt, SystemExit, MemoryError)):
            raise
        part.error("build:" + type(e).__name__)
        return
    part.inc("states")
    ukey = ("arg", 1, None)
    vkey = ("arg", 0, None)
    Z = lambda key: {key: [(0, 0)]}  # noqa: E731
    for cm, ebt in ((False, envs_by_type_r), (True, envs_by_type_c)):
        tag = "complex" if cm else "real"
        try:
            Fuv = form_values(F, ebt)
            Fu0 = form_values(F, ebt, {**Z(vkey)})
            F0v = form_values(F, ebt, {**Z(ukey)})
            F00 = form_values(F, ebt, {**Z(ukey), **Z(vkey)})
        except (Ambiguous, Undefined):
            part.count("model_undefined")
            continue
        a_ref = combine((1, Fuv), (-1, Fu0), (-1, F0v), (1, F00))
        L_ref = combine((1, F0v), (-1, F00))
        nargs = len(F.arguments())
        wit = {"form": key0, "mode": tag}

        def run_op(opname, fn):
            part.inc("transitions")
            try:
                return fn()
            except BaseException as e:  # noqa: BLE001
                if isinstance(e, (KeyboardInterrupt, SystemExit, MemoryError)):
                    raise
                part.error(f"{opname}:{type(e).__name__}")
                return None

        def compare(opname, res, ref, **kw):
            if res is None:
                return
            if not isinstance(res, ufl.Form):
                if res == 0 or getattr(res, "empty", lambda: False)():
                    vals = {}
                else:
                    part.count("non_form_result:" + opname)
                    return
            else:
                try:
                    vals = form_values(res, ebt, **kw)
                except (Ambiguous, Undefined):
                    part.count("model_undefined")
                    return
            part.inc("validated")
            bad = same(vals, ref)
            if bad:
                part.violation(
                    f"{PID}:{opname}:{tag}:{key0}",
                    f"{opname} of [{name}] ({kind} space, {tag}) differs from the algebraic definition on {bad[0]}",
                    dict(wit, op=opname, where=str(bad[0]), ufl=M.show(bad[1]), expected=M.show(bad[2]), result=str(res)[:800]),
                )
            else:
                part.count("ok:" + opname)

        if nargs == 2:
            compare("lhs", run_op("lhs", lambda: ufl.lhs(F)), a_ref)
            compare("rhs", run_op("rhs", lambda: ufl.rhs(F)), combine((-1, L_ref)))
            sysr = run_op("system", lambda: ufl.system(F))
            if sysr is not None:
                compare("system[0]", sysr[0], a_ref)
                compare("system[1]", sysr[1], combine((-1, L_ref)))
        if nargs >= 1:
            compare("functional", run_op("functional", lambda: ufl.functional(F)), F00)
        if arities == {2} and nargs == 2:
            # pure bilinear form: action, adjoint, energy norm
            kkey = ("coef", W.k.count())
            act = run_op("action", lambda: ufl.action(F, W.k))
            compare("action", act, form_values(F, ebt, key_alias={ukey: kkey}))
            adj = run_op("adjoint", lambda: ufl.adjoint(F))
            try:
                ref = form_values(F, ebt, key_alias={ukey: vkey, vkey: ukey}, conj=True)
                compare("adjoint", adj, ref)
            except (Ambiguous, Undefined):
                part.count("model_undefined")
            en = run_op("energy_norm", lambda: ufl.energy_norm(F, W.k))
            compare("energy_norm", en, form_values(F, ebt, key_alias={ukey: kkey, vkey: kkey}))
            # operator results as operator inputs (label-preserving rebuilds of variables, renumbered arguments):
            # G = a - action(a, k) is affine, H = a + adjoint(a) is bilinear; decomposed by the model like any F
            for gname, G in (
                ("a-action(a,k)", (F - act) if isinstance(act, ufl.Form) else None),
                ("a+adjoint(a)", (F + adj) if isinstance(adj, ufl.Form) else None),
            ):
                if G is None:
                    continue
                try:
                    Guv = form_values(G, ebt)
                    Gu0 = form_values(G, ebt, {**Z(vkey)})
                    G0v = form_values(G, ebt, {**Z(ukey)})
                    G00 = form_values(G, ebt, {**Z(ukey), **Z(vkey)})
                except (Ambiguous, Undefined):
                    part.count("model_undefined")
                    continue
                ga = combine((1, Guv), (-1, Gu0), (-1, G0v), (1, G00))
                gl = combine((1, G0v), (-1, G00))
                compare(f"lhs[{gname}]", run_op("lhs2", lambda G=G: ufl.lhs(G)), ga)
                compare(f"rhs[{gname}]", run_op("rhs2", lambda G=G: ufl.rhs(G)), combine((-1, gl)))
        if arities == {1} and nargs == 1:
            kkey = ("coef", W.k.count())
            act = run_op("action1", lambda: ufl.action(F, W.k))
            compare("action1", act, form_values(F, ebt, key_alias={vkey: kkey}))
    part.inc("nontrivial")
    part.outcome((kind, tuple(sorted(arities))))
    part.sample({"form": key0}, limit=2)


# ---------------------------------------------------------------------------------------------------
# MixedFunctionSpace (argument parts)
# ---------------------------------------------------------------------------------------------------


class PartsWorld:
    def __init__(self):
        m = EV.mesh("triangle")
        self.mesh = m
        self.V0 = ufl.FunctionSpace(m, E.P("triangle", 1))
        self.V1 = ufl.FunctionSpace(m, E.P("triangle", 2))
        self.Vm = ufl.MixedFunctionSpace(self.V0, self.V1)
        self.us = list(ufl.TrialFunctions(self.Vm))
        self.vs = list(ufl.TestFunctions(self.Vm))
        self.cs = [ufl.Coefficient(self.V0), ufl.Coefficient(self.V1)]
        self.f = ufl.Coefficient(ufl.FunctionSpace(m, E.P("triangle", 2)))


def parts_items():
    """Forms on a two-part MixedFunctionSpace: every non-empty subset of {B_ab} (<= 2 terms) optionally plus linear terms."""
    B = [("B", a, b, how) for a in (0, 1) for b in (0, 1) for how in ("mass", "grad")]
    Lt = [("L", None, b, "mass") for b in (0, 1)]
    items = []
    for t in B:
        items.append(("parts", (t,)))
    for t1, t2 in itertools.combinations(B, 2):
        items.append(("parts", (t1, t2)))
    for t in B:
        for l in Lt:
            items.append(("parts", (t, l)))
    for l in Lt:
        items.append(("parts", (l,)))
    return items


def check_parts(item, part, ebt):
    _, spec = item
    W = PartsWorld()
    key0 = "parts:" + "+".join(f"{k}{a if a is not None else ''}{b}{how}" for k, a, b, how in spec)
    F = None
    for k, a, b, how in spec:
        if k == "B":
            e = W.f * W.us[a] * W.vs[b] if how == "mass" else ufl.inner(ufl.grad(W.us[a]), ufl.grad(W.vs[b]))
        else:
            e = W.f * W.vs[b]
        F = e * ufl.dx(domain=W.mesh) if F is None else F + e * ufl.dx(domain=W.mesh)
    part.inc("states")
    ukeys = [("arg", 1, 0), ("arg", 1, 1)]
    vkeys = [("arg", 0, 0), ("arg", 0, 1)]
    Zu = {k: [(0, 0)] for k in ukeys}
    Zv = {k: [(0, 0)] for k in vkeys}
    try:
        Fuv = form_values(F, ebt)
        Fu0 = form_values(F, ebt, dict(Zv))
        F0v = form_values(F, ebt, dict(Zu))
        F00 = form_values(F, ebt, {**Zu, **Zv})
    except (Ambiguous, Undefined):
        part.count("model_undefined")
        return
    a_ref = combine((1, Fuv), (-1, Fu0), (-1, F0v), (1, F00))
    L_ref = combine((1, F0v), (-1, F00))
    has_b = any(k == "B" for k, *_ in spec)
    has_l = any(k == "L" for k, *_ in spec)

    def run_op(opname, fn):
        part.inc("transitions")
        try:
            return fn()
        except BaseException as e:  # noqa: BLE001
            if isinstance(e, (KeyboardInterrupt, SystemExit, MemoryError)):
                raise
            part.error(f"{opname}:{type(e).__name__}")
            return None

    def compare(opname, res, ref, **kw):
        if res is None:
            return
        if not isinstance(res, ufl.Form):
            if res == 0 or getattr(res, "empty", lambda: False)():
                vals = {}
            else:
                part.count("non_form_result:" + opname)
                return
        else:
            try:
                vals = form_values(res, ebt, **kw)
            except (Ambiguous, Undefined):
                part.count("model_undefined")
                return
        part.inc("validated")
        bad = same(vals, ref)
        if bad:
            part.violation(
                f"{PID}:{opname}:{key0}",
                f"{opname} of [{key0}] (MixedFunctionSpace parts) differs from the algebraic definition on {bad[0]}",
                {"form": key0, "parts_spec": [list(t) for t in spec], "op": opname, "where": str(bad[0]), "ufl": M.show(bad[1]), "expected": M.show(bad[2]), "result": str(res)[:800]},
            )
        else:
            part.count("ok:" + opname)

    if has_b:
        compare("lhs[parts]", run_op("lhs", lambda: ufl.lhs(F)), a_ref)
        # action replaces the trial function of every part by the coefficient of THAT part
        alias = {("arg", 1, p): ("coef", W.cs[p].count()) for p in (0, 1)}
        if not has_l:
            compare("action[parts]", run_op("action", lambda: ufl.action(F, W.cs)), form_values(F, ebt, key_alias=alias))
    if has_l and has_b:
        compare("rhs[parts]", run_op("rhs", lambda: ufl.rhs(F)), combine((-1, L_ref)))
    if has_l and not has_b:
        alias = {("arg", 0, p): ("coef", W.cs[p].count()) for p in (0, 1)}
        compare("action1[parts]", run_op("action1", lambda: ufl.action(F, W.cs)), form_values(F, ebt, key_alias=alias))
    part.inc("nontrivial")
    part.outcome(("parts", has_b, has_l))


def main(argv):
    run = Run(PID, argv)
    quick = not run.thorough()
    set_order(2)
    if run.args.replay:
        return replay(run)
    items = parts_items()
    for kind in ("scalar", "vector"):
        W = World(kind)
        tn = sorted(set(terms(W, False)) | set(terms(W, True)))
        meas = list(MEASURES)
        singles = [(1, t, m) for t in tn for m in meas]
        for s in singles:
            items.append((kind, (s,)))
        # pairs: every ordered pair of terms on a few measure pairs and weights
        mpairs = [("dx", "dx"), ("dx", "ds"), ("dx(1)", "dx"), ("dS", "dx")] if not quick else [("dx", "dx"), ("dx", "ds"), ("dS", "dx")]
        for t1, t2 in itertools.product(tn, repeat=2):
            for m1, m2 in mpairs:
                for w2 in WEIGHTS if not quick else WEIGHTS[:2]:
                    items.append((kind, ((1, t1, m1), (w2, t2, m2))))
        # triples: bilinear + linear + functional
        T = terms(W, False)
        bil = [t for t in tn if t in T and T[t][0] in (2, 12)]
        lin = [t for t in tn if t in T and T[t][0] == 1]
        fun = [t for t in tn if t in T and T[t][0] == 0]
        for b, l, f0 in itertools.product(bil if not quick else bil[:6], lin if not quick else lin[:4], fun[:1] if quick else fun):
            items.append((kind, ((1, b, "dx"), (-1, l, "dx"), (2, f0, "dx"))))
            items.append((kind, ((2, b, "ds"), (1, l, "dx"), (1, f0, "dS"))))
    if run.smoke:
        items = items[:: max(1, len(items) // 60)]
        run.exhaustive = False
    run.bounds.update(forms=len(items), measures=list(MEASURES), weights=WEIGHTS, spaces=["scalar P1", "vector P2"])

    def work(chunk):
        part = Part()
        set_order(2)
        ebt_r = {it: FS.envs_for(it, "triangle", 2, complex_mode=False, n=1) for it in (FS.CELL, FS.EXT, FS.INT)}
        ebt_c = {it: FS.envs_for(it, "triangle", 2, complex_mode=True, n=1, salt=5) for it in (FS.CELL, FS.EXT, FS.INT)}
        for item in chunk:
            if item[0] == "parts":
                check_parts(item, part, ebt_r)
            else:
                check_form(item, part, ebt_r, ebt_c)
        return part.dict()

    for d in pmap(work, items, seed=run.seed):
        run.merge(d)
    run.rule = "all single terms, all ordered pairs of terms (selected measure pairs x weights) and bilinear+linear+functional triples; non-trivial = form built and compared"
    run.assumptions += [
        "arguments take generic polynomial data; a, L, F(0,0) are obtained from the model value of F by multi-affine decomposition (requires F affine in each argument, true for the alphabet)",
        "mixed function space parts are covered by C22",
    ]
    run.finish()


def replay(run):
    with open(run.args.replay) as f:
        w = json.load(f)["witness"]
    if "parts_spec" in w:
        part = Part()
        set_order(2)
        ebt_r = {it: FS.envs_for(it, "triangle", 2, complex_mode=False, n=1) for it in (FS.CELL, FS.EXT, FS.INT)}
        check_parts(("parts", tuple(tuple(t) for t in w["parts_spec"])), part, ebt_r)
        run.merge(part.dict())
        return run.finish()
    kind, name = w["form"].split(":", 1)
    spec = []
    for piece in name.split(" + "):
        wt, t, m = piece.split("*", 2)
        spec.append((int(wt), t, m))
    part = Part()
    set_order(2)
    ebt_r = {it: FS.envs_for(it, "triangle", 2, complex_mode=False, n=1) for it in (FS.CELL, FS.EXT, FS.INT)}
    ebt_c = {it: FS.envs_for(it, "triangle", 2, complex_mode=True, n=1, salt=5) for it in (FS.CELL, FS.EXT, FS.INT)}
    check_form((kind, tuple(spec)), part, ebt_r, ebt_c)
    run.merge(part.dict())
    run.finish()
