"""C17 Restriction propagation preserves two-sided integrands.

BFS over interior-facet integrand recipes with every placement of restrictions (none, '+', '-', jump, avg,
on terminals, on sub-expressions, doubled).  The real apply_restrictions (with and without default
restrictions) is executed on every state and
 * if it returns: the value on every two-cell environment (shared facet, continuous H1 data, n- = -n+)
   equals the original's, every side-dependent terminal ends up restricted exactly once directly above
   its terminal/derivative chain, nothing is restricted twice;
 * if the input restricts something twice it must raise; if (with default restrictions) it leaves a
   discontinuous quantity unrestricted it must raise.
"""

import json

import ufl
from mc import elements as E
from mc import envs as EV
from mc import passes as P
from mc.explore import check_recipe, dedup, run_level
from mc.runner import Part, Run
from mc.sem import lang as L
from mc.sem.jet import set_order

PID = "C17"


def universe(gdim=2):
    m = EV.mesh("triangle", gdim)
    SH = ufl.FunctionSpace(m, E.P("triangle", 2))
    SD = ufl.FunctionSpace(m, E.DG("triangle", 1))
    VH = ufl.FunctionSpace(m, E.P("triangle", 1, (gdim,)))
    RT = ufl.FunctionSpace(m, E.RT("triangle", 1))
    t = {
        "fH": ufl.Coefficient(SH),
        "fD": ufl.Coefficient(SD),
        "wH": ufl.Coefficient(VH),
        "r": ufl.Coefficient(RT),
        "u": ufl.Argument(SH, 0),
        "x": ufl.SpatialCoordinate(m),
        "n": ufl.FacetNormal(m),
        "fa": ufl.FacetArea(m),
        "cv": ufl.CellVolume(m),
        "c": ufl.Constant(m),
        "two": ufl.as_ufl(2),
    }
    U = L.Universe(t)
    U.mesh = m
    return U


IGNORE = {"QuadratureWeight", "ReferenceCellVolume", "ReferenceFacetVolume", "FacetCoordinate"}
DEFAULTED = {
    "SpatialCoordinate",
    "FacetJacobian",
    "FacetJacobianDeterminant",
    "FacetJacobianInverse",
    "FacetArea",
    "MinFacetEdgeLength",
    "MaxFacetEdgeLength",
    "FacetOrigin",
}


def _in_h1(el):
    subs = list(el.sub_elements)
    if subs:
        return all(_in_h1(s) for s in subs)
    return str(el.sobolev_space) in ("H1", "H2", "H3", "HInf", "H1Div", "H1Curl")


def needs_restriction(o):
    """'require' / 'default' / 'none' for a terminal or a Grad/ReferenceValue chain top (model's own table)."""
    from ufl.classes import Argument, Coefficient, ConstantValue, Constant, GeometricQuantity, Grad, ReferenceGrad, ReferenceValue, Label, MultiIndex

    if isinstance(o, (Grad, ReferenceGrad)):
        return "require"
    if isinstance(o, ReferenceValue):
        return needs_restriction(o.ufl_operands[0])
    if isinstance(o, Argument):
        return "require"
    if isinstance(o, Coefficient):
        el = o.ufl_element()
        ident = type(el.pullback).__name__ == "IdentityPullback"
        return "default" if (ident and _in_h1(el)) else "require"
    if isinstance(o, GeometricQuantity):
        n = type(o).__name__
        if n in IGNORE:
            return "none"
        if n in DEFAULTED:
            return "default"
        return "require"
    return "none"


def analyse(obj):
    """Walk the DAG with restriction depth. Returns dict(double=bool, missing=[names], chains=[(terminal chain top, depth)])."""
    from ufl.classes import Grad, ReferenceGrad, ReferenceValue, Restricted, Terminal

    out = {"double": False, "missing": [], "unrestricted_default": [], "bad_position": []}
    seen = set()

    def rec(o, depth, under_restricted_directly):
        k = (id(o), depth)
        if k in seen:
            return
        seen.add(k)
        if isinstance(o, Restricted):
            if depth >= 1:
                out["double"] = True
            child = o.ufl_operands[0]
            rec(child, depth + 1, True)
            return
        is_chain = isinstance(o, (Terminal, Grad, ReferenceGrad, ReferenceValue))
        if is_chain:
            kind = needs_restriction(o)
            if depth == 0 and kind == "require":
                out["missing"].append(type(o).__name__)
            if depth == 0 and kind == "default":
                out["unrestricted_default"].append(type(o).__name__)
            if depth >= 1 and not under_restricted_directly and kind != "none":
                # restricted, but the Restricted node is not directly above this chain
                out["bad_position"].append(type(o).__name__)
            if isinstance(o, (Grad, ReferenceGrad, ReferenceValue)):
                # do not descend: the chain is one unit
                return
            return
        if under_restricted_directly:
            out["bad_position"].append("Restricted(" + type(o).__name__ + ")")
        for op in o.ufl_operands:
            rec(op, depth, False)

    rec(obj, 0, False)
    return out


def restr_check(recipe, obj, lts, ctxs, envs, part, U):
    from ufl.algorithms.apply_restrictions import apply_restrictions

    key = L.show_recipe(recipe)
    wit = {"recipe": recipe, "show": key, "before": repr(obj)[:1000]}
    a0 = analyse(obj)
    ok = True
    for mode, defaults in (("propagate", None), ("defaults", {U.mesh: "+"})):
        part.inc("transitions")
        raised = None
        try:
            res = apply_restrictions(obj, default_restrictions=defaults)
        except BaseException as e:  # noqa: BLE001
            if isinstance(e, (KeyboardInterrupt, SystemExit, MemoryError)):
                raise
            raised = e
            part.error(f"{mode}:{type(e).__name__}")
        if a0["double"]:
            if raised is None:
                part.violation(f"{PID}:double-accepted:{mode}:{key}", f"doubly restricted input accepted by apply_restrictions ({mode}): {key}", dict(wit, after=repr(res)[:800]))
                ok = False
            continue
        if mode == "defaults" and a0["missing"]:
            if raised is None:
                part.violation(
                    f"{PID}:missing-accepted:{key}",
                    f"input with unrestricted {sorted(set(a0['missing']))} accepted by apply_restrictions with default restrictions: {key}",
                    dict(wit, after=repr(res)[:800]),
                )
                ok = False
            continue
        if raised is not None:
            # well-formed input rejected: counted, not an alarm
            part.count(f"wellformed_rejected:{mode}")
            continue
        # value
        good = P.check_pass(f"apply_restrictions[{mode}]", obj, res, envs, part, PID, key, wit)
        ok &= good
        if not good:
            continue
        # structure
        a1 = analyse(res)
        if a1["double"] or a1["bad_position"] or (mode == "defaults" and (a1["missing"] or a1["unrestricted_default"])):
            part.violation(
                f"{PID}:structure:{mode}:{key}",
                f"after apply_restrictions ({mode}) of {key}: double={a1['double']} misplaced={a1['bad_position'][:3]} "
                f"unrestricted={(a1['missing'] + a1['unrestricted_default'])[:3] if mode == 'defaults' else []}",
                dict(wit, after=repr(res)[:1200]),
            )
            ok = False
        else:
            part.count("ok:" + mode)
    return None if ok else "VIOLATION"


def double_hook(recipe, obj, envs, part, U):
    """Recipes the language rejects: only doubly restricted ones are submitted (they must be rejected)."""
    import ufl

    if isinstance(obj, ufl.core.expr.Expr) and analyse(obj)["double"]:
        part.count("double_restricted_inputs")
        restr_check(recipe, obj, None, None, envs, part, U)


def main(argv):
    run = Run(PID, argv)
    quick = not run.thorough()
    set_order(2)
    U = universe()
    envs = EV.interior_facet_envs("triangle", facets=[0, 1] if quick else [0, 1, 2], perms=None if not quick else [None])
    if run.args.replay:
        return replay(run, U, envs)
    seen = set()

    def level(cands, lvl, sample_every=0):
        import sys
        import time

        cands = sorted(set(cands), key=repr)
        if run.smoke:
            cands = cands[:: max(1, len(cands) // 100)]
            run.exhaustive = False
        print(f"[{PID}] level {lvl}: {len(cands)} candidates t={time.time() - run.t0:.0f}s", file=sys.stderr)
        run.bounds[f"level{lvl}_candidates"] = len(cands)
        new = run_level(
            cands, U, envs, PID, run, run.seed, extra_check=restr_check, compare=False, sample_every=sample_every, ill_typed_hook=double_hook,
            check_undefined=True,
        )
        sts, _ = dedup(new, seen, lvl, run)
        return sts

    def sides(r):
        return [("side", r, "+"), ("side", r, "-"), ("jump", r), ("avg", r)]

    names = list(U.t)
    l0 = level([("t", n) for n in names], 0)
    c = []
    for s in l0:
        r = s.recipe
        c += sides(r) + [("grad", r), ("neg", r), ("abs", r)]
        if s.rank == 0:
            c += [("exp", r), ("sqrt", r), ("pow", r, ("num", 2)), ("variable_of", r)] if False else [("exp", r), ("sqrt", r), ("pow", r, ("num", 2))]
        if s.rank == 1:
            c += [("getitem", r, 0), ("getitem", r, "i"), ("divg", r)]
    for a in names:
        for b in names:
            for op in ("add", "mul", "div", "dot", "inner", "max_value", "lt"):
                c.append((op, ("t", a), ("t", b)))
    # reference values of form arguments (what the integrand holds after apply_function_pullbacks): restricted and not
    for a in ("fH", "fD", "wH", "r", "u"):
        c.append(("refval", ("t", a)))
    l1 = level(c, 1, sample_every=30)
    conds = [s for s in l1 if s.cond]
    c = []
    partners = names if not quick else ["fH", "fD", "u", "n", "wH", "cv"]
    for s in l1:
        if s.cond:
            continue
        r = s.recipe
        c += sides(r)
        if not s.fid:
            c += [("grad", r)]
        if s.rank == 1:
            c += [("getitem", r, 0), ("getitem", r, "i")]
        if s.rank == 2:
            c += [("getitem", r, 0, 1), ("getitem", r, "i", "i")]
        for b in partners:
            rb = ("t", b)
            for op in ("mul", "add", "dot", "inner"):
                c.append((op, r, rb))
                for sd in ("+", "-"):
                    c.append((op, r, ("side", rb, sd)))
    for cnd in conds[: (4 if quick else 20)]:
        for a in ("fH", "fD", "u"):
            c.append(("conditional", cnd.recipe, ("t", a), ("t", "c")))
            c.append(("conditional", ("side", cnd.recipe, "+") if False else cnd.recipe, ("side", ("t", a), "+"), ("t", "c")))
    l2 = level(c, 2, sample_every=1000)
    # level 3 comb: restrict / jump / avg level-2 states; multiply with restricted terminals
    c = []
    src = [s for s in l2 if not s.cond]
    if quick:
        src = sorted(src, key=lambda s: (len(repr(s.recipe)), repr(s.recipe)))[:1500]
    for s in src:
        r = s.recipe
        c += sides(r)
        for b in ("fD", "u", "n") if quick else ("fH", "fD", "u", "n", "cv", "x"):
            for sd in ("+", "-"):
                c.append(("mul", r, ("side", ("t", b), sd)))
                if s.rank == 1 and b == "n":
                    c.append(("dot", r, ("side", ("t", b), sd)))
    l3 = level(c, 3, sample_every=8000)
    # immersed manifold (triangles in 3D, neighbour cell not coplanar): the facet normal must NOT be rewritten
    # n('-') -> -n('+') there; reduced grammar (depth 2) around the side-dependent geometric terminals
    U3 = universe(3)
    envs3 = EV.interior_facet_envs("triangle", 3, facets=[0, 1], perms=[None])
    seen3 = set()
    names3 = ["n", "wH", "fH", "fD", "x", "cv", "u"]
    c = []
    for a in names3:
        ra = ("t", a)
        c += sides(ra)
        for b in names3:
            rb = ("t", b)
            for op in ("mul", "add", "dot", "inner"):
                for sa in ("+", "-"):
                    for sb in ("+", "-"):
                        c.append((op, ("side", ra, sa), ("side", rb, sb)))
                c.append((op, ra, rb))
                c += sides((op, ra, rb))
    cands3 = sorted(set(c), key=repr)
    if run.smoke:
        cands3 = cands3[:: max(1, len(cands3) // 60)]
    run.bounds["manifold_candidates"] = len(cands3)
    new3 = run_level(cands3, U3, envs3, PID, run, run.seed, extra_check=restr_check, compare=False, ill_typed_hook=double_hook, check_undefined=True)
    m3, _ = dedup(new3, seen3, 1, run)
    run.bounds["manifold_states"] = len(m3)
    run.bounds.update(
        levels=[len(l0), len(l1), len(l2), len(l3)],
        terminals=sorted(U.t),
        envs=[e.name for e in envs],
        modes=["propagate only", "default restrictions {mesh: '+'}"],
    )
    run.rule = (
        "every recipe of the grammar (restrictions at every position); state = distinct repr; each state is run through apply_restrictions in both modes; "
        "non-trivial = built and evaluated by the model"
    )
    run.assumptions += [
        "H1 (identity pullback) coefficients and x are single-valued on the facet, their gradients and everything else are not; n- = -n+ on affine non-manifold meshes",
        "which terminals require / default / ignore restrictions is the table in the driver (from the statement and the module docstrings)",
    ]
    run.finish()


def replay(run, U, envs):
    with open(run.args.replay) as f:
        rp = json.load(f)

    def tup(x):
        return tuple(tup(y) for y in x) if isinstance(x, list) else x

    recipe = tup(rp["witness"]["recipe"])
    part = Part()
    check_recipe(recipe, U, envs, part, PID, extra_check=restr_check, compare=False, ill_typed_hook=double_hook, check_undefined=True)
    # the same recipe on the immersed manifold universe
    U3 = universe(3)
    envs3 = EV.interior_facet_envs("triangle", 3, facets=[0, 1], perms=[None])
    check_recipe(recipe, U3, envs3, part, PID, extra_check=restr_check, compare=False, ill_typed_hook=double_hook, check_undefined=True)
    run.merge(part.dict())
    run.states = 1
    run.finish()
