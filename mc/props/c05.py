"""C05 Operators build expressions with the mathematically intended value.

Bounded exhaustive exploration of public-language recipes; every constructed object is compared
(shape, free indices, value in every environment) with the recipe's meaning under the reference
interpreter L.
"""

import itertools

import ufl
from mc import elements as E
from mc import envs as EV
from mc.explore import dedup, run_level
from mc.runner import Run
from mc.sem import lang as L
from mc.sem.jet import set_order

PID = "C05"


def universe():
    m = EV.mesh("triangle")
    S = ufl.FunctionSpace(m, E.P("triangle", 2))
    V = ufl.FunctionSpace(m, E.P("triangle", 1, (2,)))
    T = ufl.FunctionSpace(m, E.P("triangle", 1, (2, 2)))
    T3 = ufl.FunctionSpace(m, E.P("triangle", 1, (2, 2, 2)))
    t = {
        "f": ufl.Coefficient(S),
        "g": ufl.Coefficient(S),
        "c": ufl.Constant(m),
        "v": ufl.Coefficient(V),
        "w": ufl.Coefficient(V),
        "x": ufl.SpatialCoordinate(m),
        "A": ufl.Coefficient(T),
        "B": ufl.Coefficient(T3),
        "I": ufl.Identity(2),
        "z": ufl.constantvalue.Zero(),
        "zv": ufl.constantvalue.Zero((2,)),
        "zA": ufl.constantvalue.Zero((2, 2)),
        "one": ufl.as_ufl(1),
        "two": ufl.as_ufl(2),
        "half": ufl.as_ufl(0.5),
        "mone": ufl.as_ufl(-1),
    }
    return L.Universe(t)


UNARY_ANY = ["neg", "abs", "conj", "real", "imag", "pos2"]
UNARY_SCALAR = ["sqrt", "exp", "ln", "sin", "cos", "tan", "sinh", "cosh", "tanh", "asin", "acos", "atan", "erf", "sign"]
UNARY_SCALAR_QUICK = ["sqrt", "exp", "ln", "sin", "sign"]
UNARY_MATRIX = ["transpose", "T", "tr", "det", "inv", "cofac", "dev", "sym", "skew", "diag", "diag_vector"]
UNARY_VECTOR = ["perp", "diag"]
BIN_ARITH = ["add", "sub", "mul", "div", "pow"]
BIN_TENSOR = ["dot", "inner", "outer", "elem_mult", "elem_div", "elem_pow"]
BIN_COND = ["lt", "le", "gt", "ge", "eq", "ne", "max_value", "min_value"]
NUMS = [("num", 0), ("num", 1), ("num", -1), ("num", 2), ("num", 0.5)]

IDX1 = [(0,), (1,), ("i",), ("j",), (":",), ("...",)]
IDX2 = [
    (0, 0),
    (0, 1),
    (1, 0),
    ("i", "j"),
    ("j", "i"),
    ("i", "i"),
    (0, "i"),
    ("i", 0),
    (1, "j"),
    (":", 0),
    (0, ":"),
    ("...", 0),
    ("i", "..."),
    ("i", ":"),
    (":", "i"),
    (":", ":"),
    ("j", "k"),
]
IDX3 = [
    (0, "i", "j"),
    (1, "i", "j"),
    ("i", "j", "k"),
    ("k", "j", "i"),
    ("i", "i", "j"),
    ("i", "j", "i"),
    (0, "..."),
    ("...", 0),
    ("i", "j", 0),
    ("i", 0, "j"),
    (0, 0, "i"),
    (1, ":", ":"),
    ("i", ":", "j"),
]
IDX_BY_RANK = {1: IDX1, 2: IDX2, 3: IDX3}


def unary_candidates(st, quick):
    r = st.recipe
    out = []
    if st.cond:
        out.append(("Not", r))
        return out
    for op in UNARY_ANY:
        out.append((op, r))
    if st.rank == 0:
        for op in UNARY_SCALAR_QUICK if quick else UNARY_SCALAR:
            out.append((op, r))
    if st.rank == 2:
        for op in UNARY_MATRIX:
            out.append((op, r))
    if st.rank == 1:
        for op in UNARY_VECTOR:
            out.append((op, r))
    if st.rank in IDX_BY_RANK:
        for comp in IDX_BY_RANK[st.rank]:
            out.append(("getitem", r) + comp)
    if st.rank == 0 and st.fid:
        names = sorted(st.fid)
        for k in range(1, min(len(names), 3) + 1):
            for sel in itertools.permutations(names, k):
                out.append(("as_tensor", r) + sel)
    return out


def binary_candidates(a, b, quick, with_cond=True):
    ra, rb = a.recipe, b.recipe
    out = []
    if a.cond or b.cond:
        if a.cond and b.cond:
            out.append(("And", ra, rb))
            out.append(("Or", ra, rb))
        return out
    for op in BIN_ARITH:
        out.append((op, ra, rb))
    if a.rank or b.rank:
        for op in BIN_TENSOR[:3] if quick else BIN_TENSOR:
            out.append((op, ra, rb))
        if a.rank == 1 and b.rank == 1 and a.shape == (3,):
            out.append(("cross", ra, rb))
    else:
        out.append(("inner", ra, rb))
        out.append(("outer", ra, rb))
        if with_cond and not a.fid and not b.fid:
            for op in BIN_COND[:3] if quick else BIN_COND:
                out.append((op, ra, rb))
    if a.shape == b.shape and set(a.fid) == set(b.fid):
        out.append(("as_vector", ra, rb))
    return out


def siblings(st):
    """Recipes equal to st.recipe except that one integer 0 parameter of a getitem is replaced by 1."""
    out = []

    def rec(r):
        if not isinstance(r, tuple) or not r or r[0] in ("t", "num"):
            return []
        res = []
        for pos in range(1, len(r)):
            x = r[pos]
            if isinstance(x, tuple):
                for alt in rec(x):
                    res.append(r[:pos] + (alt,) + r[pos + 1 :])
            elif r[0] == "getitem" and isinstance(x, int) and not isinstance(x, bool) and x == 0:
                res.append(r[:pos] + (1,) + r[pos + 1 :])
        return res

    return rec(st.recipe)


def main(argv):
    run = Run(PID, argv)
    set_order(0)
    U = universe()
    quick = not run.thorough()
    envs = EV.cell_envs("triangle", complex_too=True, n=1 if quick else 2)
    if run.args.replay:
        return replay(run, U, envs)
    seen = set()
    # level 0
    terms = [("t", n) for n in U.t]
    lvl0, _ = dedup(run_level(terms, U, envs, PID, run, run.seed), seen, 0, run)
    nums = NUMS
    # level 1: unary on terminals, binary on terminal pairs (and python numbers on either side)
    cands = []
    for s in lvl0:
        cands += unary_candidates(s, quick=False)
    for a in lvl0:
        for b in lvl0:
            cands += binary_candidates(a, b, quick=False)
    for a in lvl0:
        for n in nums:
            for op in BIN_ARITH:
                cands.append((op, a.recipe, n))
                cands.append((op, n, a.recipe))
    cands = sorted(set(cands), key=repr)
    lvl1, _ = dedup(run_level(cands, U, envs, PID, run, run.seed, sample_every=40), seen, 1, run)
    run.bounds["level1_candidates"] = len(cands)
    # conditionals at level 2 over level<=1 conditions and terminal branches
    conds = [s for s in lvl1 if s.cond]
    cands = []
    base = lvl0 + lvl1
    for s in lvl1:
        cands += unary_candidates(s, quick)
    # binary: level-1 state with a terminal (both orders); thorough: also with python numbers
    small = lvl0 if not quick else [s for s in lvl0 if s.recipe[1] in ("f", "c", "v", "A", "z", "zv", "two", "I")]
    for a in lvl1:
        if quick and a.cond:
            continue
        for b in small:
            cands += binary_candidates(a, b, quick)
            cands += binary_candidates(b, a, quick)
        for n in nums if not quick else NUMS[:1] + NUMS[3:4]:
            for op in BIN_ARITH:
                cands.append((op, a.recipe, n))
                cands.append((op, n, a.recipe))
    # siblings: list tensors of recipes differing in one fixed index (the ListTensor shortcuts)
    by_recipe = {s.recipe: s for s in base}
    for s in lvl1:
        for sib in siblings(s):
            if sib in by_recipe:
                cands.append(("as_vector", s.recipe, sib))
                cands.append(("as_vector", sib, s.recipe))
    for c in conds[: (6 if quick else len(conds))]:
        for tb in lvl0:
            for fb in lvl0:
                if tb.shape == fb.shape and not tb.fid and not fb.fid:
                    cands.append(("conditional", c.recipe, tb.recipe, fb.recipe))
    cands = sorted(set(cands), key=repr)
    run.bounds["level2_candidates"] = len(cands)
    lvl2, _ = dedup(run_level(cands, U, envs, PID, run, run.seed, sample_every=400), seen, 2, run)
    # level 3 (comb): indexing / as_tensor / list-of-siblings over level-2 states
    cands = []
    by_recipe.update({s.recipe: s for s in lvl2})
    for s in lvl2:
        if quick and s.rank == 0 and not s.fid:
            continue
        for c in unary_candidates(s, quick):
            if c[0] in ("getitem", "as_tensor", "transpose", "tr") or not quick:
                cands.append(c)
        for sib in siblings(s):
            if sib in by_recipe:
                cands.append(("as_vector", s.recipe, sib))
                cands.append(("as_vector", sib, s.recipe))
    if not quick:
        for a in lvl2:
            for b in [s for s in lvl0 if s.recipe[1] in ("f", "v", "A", "z", "two")]:
                for c in binary_candidates(a, b, True, with_cond=False):
                    cands.append(c)
    cands = sorted(set(cands), key=repr)
    run.bounds["level3_candidates"] = len(cands)
    lvl3, _ = dedup(run_level(cands, U, envs, PID, run, run.seed, sample_every=2000), seen, 3, run)
    # untangling pipelines (depth 5, own comb): list tensors of indexed components, indexed by a pool index,
    # rewrapped as component tensor in every index order, then indexed with every fixed/free pattern; and products
    # of two index-carrying level-1 states (tensor-valued index sums) indexed again with the pool indices
    cands = []
    pool = sorted(U.idx)
    from mc.explore import StateInfo

    comp1 = [s for s in lvl1 if s.fid and s.rank == 0 and s.recipe[0] == "getitem" and len(s.fid) == 1]
    lists = []
    for a in comp1:
        for b in comp1:
            if set(a.fid) == set(b.fid) and a.fid == b.fid and (not quick or (a.recipe[1][1] in ("v", "w", "A") and b.recipe[1][1] in ("v", "w", "A"))):
                r = ("as_vector", a.recipe, b.recipe)
                cands.append(r)
                lists.append(StateInfo(r, (2,), a.fid, False, 2, None))
    for s in lists:
        for k in pool:
            if k in s.fid:
                continue
            inner = ("getitem", s.recipe, k)
            names = sorted(set(s.fid) | {k})
            for perm in itertools.permutations(names, 2):
                if len(names) > 2:
                    continue
                ct = ("as_tensor", inner) + perm
                cands.append(ct)
                for comp in IDX2:
                    cands.append(("getitem", ct) + comp)
    idx1 = [s for s in lvl1 if s.fid and s.recipe[0] == "getitem"]
    for a in idx1:
        for b in idx1:
            if not (set(a.fid) & set(b.fid)) or (a.rank == 0 and b.rank == 0):
                continue
            pr = ("mul", a.recipe, b.recipe)
            cands.append(pr)
            for comp in IDX1 if max(a.rank, b.rank) == 1 else IDX2:
                cands.append(("getitem", pr) + comp)
    cands = sorted(set(cands), key=repr)
    run.bounds["pipeline_candidates"] = len(cands)
    lvlp, _ = dedup(run_level(cands, U, envs, PID, run, run.seed, sample_every=2000), seen, 4, run)
    run.bounds["pipeline_states"] = len(lvlp)
    run.bounds.update(
        depth=3,
        terminals=sorted(U.t),
        index_pool=sorted(U.idx),
        envs=[e.name for e in envs],
        levels=[len(lvl0), len(lvl1), len(lvl2), len(lvl3)],
        comb="level 2: level-1 state x terminal (both orders); level 3: unary/indexing/as_tensor/sibling lists over level-2 states"
        + ("" if quick else " + level-2 x 5 terminals binary"),
    )
    run.rule = (
        "all recipes of the stated grammar up to the stated depth; a state is a distinct repr of the constructed object; "
        "non-trivial = model value not identically zero in some environment"
    )
    run.assumptions += [
        "lexical scoping of free indices; principal branches; float64 rounding of folded literals tolerated (rel 1e-10)",
        "field values: fixed generic polynomial data, %d environments (one complex)" % len(envs),
    ]
    run.finish()


def replay(run, U, envs):
    import json

    from mc.explore import check_recipe
    from mc.runner import Part

    with open(run.args.replay) as f:
        rp = json.load(f)

    def tup(x):
        return tuple(tup(y) for y in x) if isinstance(x, list) else x

    recipe = tup(rp["witness"]["recipe"])
    part = Part()
    res = check_recipe(recipe, U, envs, part, PID)
    print("recipe:", L.show_recipe(recipe))
    try:
        print("ufl object:", repr(L.build(recipe, U))[:1000])
    except BaseException as e:  # noqa: BLE001
        print("ufl raised", type(e).__name__, e)
    run.merge(part.dict())
    run.states = 1
    run.finish()
