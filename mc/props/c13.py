"""C13 Structural equality, hashing, repr and pickling are consistent.

PART A (inputs, bounded exhaustive).  A universe of expressions is built from recipes TWICE (two tables of
freshly constructed terminals, so the copies are distinct-but-equal Python objects).  `==` is evaluated on
ALL ordered pairs of the 2N objects; from the resulting relation the laws are decided: reflexive, symmetric,
transitive (all triples, via equality of the equivalence sets), a==b => equal hash / repr / str / type /
shape / free indices / index dimensions / form signature / reference value, and conversely
repr(a)==repr(b) => a==b.  Every object is pickled and unpickled, evaluated back from its repr, and also
unpickled from a pickle written by another interpreter with a different str hash seed.  The same is done for
Integral and Form objects (Form.equals / bool(Equation) / !=).

PART B (histories): mc/props/c13_hist.py -- every sequence of comparison events over a pool of objects.

Violation keys: "<law>:<canonical description of the (innermost differing) pair>".
"""

import json
import os
import pickle
import subprocess
import sys
import tempfile

import ufl
import ufl.classes as C
from mc import envs as EV
from mc.props import c13_hist as H
from mc.props import c13_univ as U
from mc.runner import Part, Run, pmap
from mc.sem import sem as M
from mc.sem.jet import Undefined, set_order

PID = "C13"
CONFIRM_CAP = 300
G = {}  # state shared with forked workers
XSEED = "4242"  # str hash seed of the foreign interpreter (the driver itself runs with PYTHONHASHSEED=0)


# -------------------------------------------------------------------------------------------------
# generic helpers
# -------------------------------------------------------------------------------------------------


def EQ(a, b):
    """The equality the property speaks about: == for expressions/integrals, .equals for forms."""
    if isinstance(a, ufl.form.BaseForm) and not isinstance(a, ufl.core.expr.Expr):
        return a.equals(b)
    return a == b


def safe_attr(o, name):
    try:
        return getattr(o, name)
    except ValueError:
        return "<ValueError>"  # Label / MultiIndex have no shape by design
    except AttributeError:
        return "<n/a>"


def attrs(o):
    return (
        repr(o),
        hash(o),
        str(o),
        type(o).__name__,
        safe_attr(o, "ufl_shape"),
        safe_attr(o, "ufl_free_indices"),
        safe_attr(o, "ufl_index_dimensions"),
    )


ATTR_LAWS = ["repr", "hash", "str", "type", "shape", "free-indices", "index-dimensions"]


class Abbrev:
    """Shorten reprs for keys: function spaces and meshes of the alphabet are replaced by their names."""

    def __init__(self, dom, sp):
        pairs = [(repr(v), k) for k, v in sp.items()] + [(repr(v), k) for k, v in dom.items()]
        pairs += [(repr(v.dual()), k + "*") for k, v in sp.items()]
        self.pairs = sorted(pairs, key=lambda p: -len(p[0]))

    def __call__(self, o):
        s = o if isinstance(o, str) else repr(o)
        for long, short in self.pairs:
            s = s.replace(long, short)
        return s


def culprit(a, b):
    """Descend two same-shaped trees to the innermost pair whose reprs differ (for canonical keys)."""
    for _ in range(50):
        if repr(a) == repr(b):
            return a, b
        oa = getattr(a, "ufl_operands", None)
        ob = getattr(b, "ufl_operands", None)
        if isinstance(a, ufl.Form) and isinstance(b, ufl.Form):
            oa, ob = a.integrals(), b.integrals()
        elif isinstance(a, ufl.Integral) and isinstance(b, ufl.Integral):
            if repr(a.integrand()) != repr(b.integrand()):
                a, b = a.integrand(), b.integrand()
                continue
            return a, b
        if type(a) is not type(b) or not oa or not ob or len(oa) != len(ob):
            return a, b
        diff = [(x, y) for x, y in zip(oa, ob) if repr(x) != repr(y)]
        if not diff:
            return a, b
        a, b = diff[0]
    return a, b


def culprit_ne(a, b):
    """Descend two trees with identical repr to the innermost pair that is not == (for canonical keys)."""
    for _ in range(50):
        oa = getattr(a, "ufl_operands", None)
        ob = getattr(b, "ufl_operands", None)
        if isinstance(a, ufl.Form) and isinstance(b, ufl.Form):
            oa, ob = a.integrals(), b.integrals()
        elif isinstance(a, ufl.Integral) and isinstance(b, ufl.Integral):
            if EQ(a.integrand(), b.integrand()) is not True:
                a, b = a.integrand(), b.integrand()
                continue
            return a, b
        if type(a) is not type(b) or not oa or not ob or len(oa) != len(ob):
            return a, b
        diff = [(x, y) for x, y in zip(oa, ob) if EQ(x, y) is not True]
        if not diff:
            return a, b
        a, b = diff[0]
    return a, b


def triple_key(a, b, c, ab):
    return "eq-transitive:" + "|".join(sorted({ab(a), ab(b), ab(c)}))


def pair_key(law, a, b, ab):
    ca, cb = culprit(a, b)
    da, db = sorted([ab(ca), ab(cb)])
    return f"{law}:{da}|{db}"


# -------------------------------------------------------------------------------------------------
# per-object quantities: signature, reference value
# -------------------------------------------------------------------------------------------------


def value_envs():
    if "envs" not in G:
        set_order(2)
        G["envs"] = [
            EV.cell_envs("triangle", n=1)[0],
            EV.facet_envs("triangle", facets=[1])[0],
            EV.interior_facet_envs("triangle", facets=[1])[0],
        ]
    return G["envs"]


def alias_user_terminals(o, env):
    """The model identifies form arguments/constants by class name and count: map the harness subclasses HC/HK
    (c13_univ) to plain UFL terminals with a count of their own."""
    stack, seen = [o], set()
    while stack:
        e = stack.pop()
        if id(e) in seen:
            continue
        seen.add(id(e))
        if type(e) is U.HC:
            if e not in env.alias:
                env.alias[e] = C.Coefficient(e.ufl_function_space(), count=1000 + e.count())
        elif type(e) is U.HK:
            if e not in env.alias:
                env.alias[e] = C.Constant(e.ufl_domain(), e.ufl_shape, count=1000 + e.count())
        else:
            stack.extend(e.ufl_operands)


def value_of(o):
    """(status, printable value) under the reference evaluator, for scalar index-free expressions."""
    if not isinstance(o, ufl.core.expr.Expr):
        return ("n/a", None)
    if safe_attr(o, "ufl_shape") != () or safe_attr(o, "ufl_free_indices") != ():
        return ("nonscalar", None)
    if M.derivative_depth(o) > 2:
        return ("deriv-depth", None)
    last = "undefined"
    for env in value_envs():
        alias_user_terminals(o, env)
        try:
            v = M.sem(o, M.Ctx(env))
            return ("ok", f"{env.name}: {M.show(v, 15)}")
        except Undefined:
            last = "undefined"
        except M.ModelGap:
            return ("modelgap", None)
        except (ArithmeticError, ValueError, TypeError, KeyError, IndexError, AttributeError):
            # the model could not evaluate this object (e.g. arguments on an unexpected element): skip, counted
            return ("model-error", None)
    return (last, None)


def signature_of(o, dom):
    """(status, signature) of the object wrapped as a form."""
    try:
        if isinstance(o, ufl.Form):
            return ("ok", o.signature())
        if isinstance(o, ufl.Integral):
            return ("ok", ufl.Form([o]).signature())
        if safe_attr(o, "ufl_shape") != () or safe_attr(o, "ufl_free_indices") != ():
            return ("nonscalar", None)
        return ("ok", (o * ufl.dx(domain=dom["m1"])).signature())
    except BaseException as e:  # noqa: BLE001
        if isinstance(e, (KeyboardInterrupt, SystemExit, MemoryError)):
            raise
        return ("raises-" + type(e).__name__, None)


# -------------------------------------------------------------------------------------------------
# the laws on one pair / one object (used for confirmation of every bulk finding and for replay)
# -------------------------------------------------------------------------------------------------


def check_pair(a, b, ab, dom, deep=False):
    """All pair laws on concrete objects a, b.  Returns a list of (key, what)."""
    out = []
    # observe first: a successful comparison rewrites the operands of its left operand
    at_a, at_b = attrs(a), attrs(b)
    same_repr = at_a[0] == at_b[0]
    kd = pair_key("", a, b, ab)  # ":<innermost differing pair>", also taken before comparing
    if deep:
        sa, sb = signature_of(a, dom), signature_of(b, dom)
        va, vb = value_of(a), value_of(b)
    r1, r2 = EQ(a, b), EQ(b, a)
    if r1 not in (True, False) or r2 not in (True, False):
        out.append(("eq-not-bool" + kd, f"== returned {r1!r} / {r2!r}"))
    if bool(r1) != bool(r2):
        out.append(("eq-symmetric" + kd, f"a==b is {r1} but b==a is {r2}"))
    n1 = a != b
    if bool(n1) == bool(r1):
        out.append(("ne-consistent" + kd, f"a==b is {r1} and a!=b is {n1}"))
    if isinstance(a, ufl.Form) and isinstance(b, ufl.Form):
        if bool(a == b) != bool(r1):
            out.append(("equation-bool" + kd, f"bool(a==b) is {bool(a == b)} but a.equals(b) is {r1}"))
    if r1 or r2:
        for law, x, y in zip(ATTR_LAWS, at_a, at_b):
            if x != y:
                out.append(
                    ("eq-implies-" + law + kd, f"a==b but {law} differs: {ab(str(x))[:200]} vs {ab(str(y))[:200]}")
                )
        if deep:
            if sa[0] == "ok" and sb[0] == "ok" and sa[1] != sb[1]:
                out.append(("eq-implies-signature" + kd, "a==b but the form signatures differ"))
            elif (sa[0] == "ok") != (sb[0] == "ok"):
                out.append(
                    ("eq-implies-signature" + kd, f"a==b but signature status differs: {sa[0]} vs {sb[0]}")
                )
            if va[0] == "ok" and vb[0] == "ok" and va[1] != vb[1]:
                out.append(("eq-implies-value" + kd, f"a==b but values differ: {va[1]} vs {vb[1]}"))
            elif (va[0] == "nonscalar") != (vb[0] == "nonscalar"):
                out.append(("eq-implies-value" + kd, "a==b but only one of them is scalar-valued"))
    elif same_repr:
        ca, cb = culprit_ne(a, b)
        out.append((f"repr-implies-eq:{ab(ca)}|{ab(cb)}", "identical repr but a != b"))
    return out


def check_object(o, ab, ns, flags):
    """Per-object laws: identity reflexivity, hash stability, pickle round trip, eval(repr) round trip."""
    out = []
    r, h, s = repr(o), hash(o), str(o)
    d = ab(o)
    if EQ(o, o) is not True or (o != o) is not False:
        out.append((f"eq-reflexive:{d}", "x == x is not True (or x != x is not False)"))
    if hash(o) != h or repr(o) != r:
        out.append((f"hash-stable:{d}", "hash/repr changed between two calls"))
    if "pickle" in flags:
        for proto in (pickle.DEFAULT_PROTOCOL, 2):
            try:
                p = pickle.loads(pickle.dumps(o, proto))
            except BaseException as e:  # noqa: BLE001
                if isinstance(e, (KeyboardInterrupt, SystemExit, MemoryError)):
                    raise
                out.append((f"pickle-raises:{d}", f"pickle protocol {proto} raised {type(e).__name__}: {e}"))
                continue
            out += roundtrip_laws("pickle", o, p, r, h, s, d)
    if "eval" in flags:
        try:
            p = eval(r, dict(ns))
        except BaseException as e:  # noqa: BLE001
            if isinstance(e, (KeyboardInterrupt, SystemExit, MemoryError)):
                raise
            out.append((f"evalrepr-raises:{type(o).__name__}:{d}", f"eval(repr(x)) raised {type(e).__name__}: {e}"))
        else:
            out += roundtrip_laws("evalrepr", o, p, r, h, s, d)
    return out


def roundtrip_laws(kind, o, p, r, h, s, d):
    out = []
    if type(p) is not type(o):
        out.append((f"{kind}-type:{d}", f"round trip gives a {type(p).__name__}"))
        return out
    if EQ(p, o) is not True or EQ(o, p) is not True:
        dd = d
        if repr(p) == r:
            dd = G["ab"](culprit_ne(o, p)[0])
        out.append((f"{kind}-eq:{dd}", "round trip gives an object that is not == the original"))
    if repr(p) != r:
        out.append((f"{kind}-repr:{d}", "round trip changes repr"))
    if hash(p) != h:
        out.append((f"{kind}-hash:{d}", "round trip changes hash"))
    if str(p) != s:
        out.append((f"{kind}-str:{d}", "round trip changes str"))
    if repr(o) != r or hash(o) != h:
        out.append((f"{kind}-mutates:{d}", "round trip changed the original object"))
    return out


# -------------------------------------------------------------------------------------------------
# universe construction
# -------------------------------------------------------------------------------------------------


def recipe_terms(r):
    """Names of the terminals a recipe is built from."""
    if r[0] == "t":
        return {r[1]}
    s = set()
    for x in r[1:]:
        if isinstance(x, tuple) and x and isinstance(x[0], str) and (x[0] == "t" or x[0] in _OPS):
            s |= recipe_terms(x)
    return s


_OPS = set(U.BINARY + U.UNARY + U.ZOO_UNARY + U.ZOO_BINARY + ["idx"])
HARNESS_ERRORS = (KeyError, NameError, AttributeError, ImportError)


def admit(cands, T, memo, seen, run, level, ab):
    """Build candidates on the real constructors (copy A); keep one recipe per distinct repr."""
    out = []
    for r in cands:
        run.transitions += 1
        try:
            o = U.build(r, T, memo)
        except HARNESS_ERRORS:
            raise
        except BaseException as e:  # noqa: BLE001
            if isinstance(e, (KeyboardInterrupt, SystemExit, MemoryError)):
                raise
            run.error(type(e).__name__)
            continue
        if not isinstance(o, ufl.core.expr.Expr):
            run.count("non_expr_result")
            continue
        k = repr(o)
        prevs = seen.setdefault(k, [])
        if any(p is o for p in prevs):
            run.count("same_object_as_earlier_recipe")
            continue
        dup = False
        for prev in prevs:
            # two recipes, two objects, one repr: the converse law must hold; if it does, one recipe is enough
            run.validated += 1
            if not check_pair(prev, o, ab, None):
                dup = True
            # otherwise both stay in the universe and the all-pairs pass reports the pair (with a replayable witness)
        if dup:
            run.count("same_repr_as_earlier_recipe")
            continue
        prevs.append(o)
        out.append(r)
        run.count(f"level{level}_states")
    return out


def expression_recipes(quick, T, memo, run, ab):
    seen = {}
    L0 = admit([("t", n) for n in T], T, memo, seen, run, 0, ab)
    c = []
    for n in U.OPS_T:
        c += U.unary_candidates(("t", n), T[n], n in U.ZOO_T)
    for a in U.OPS_T:
        for b in U.OPS_T:
            c += U.binary_candidates(("t", a), ("t", b), a in U.ZOO_T and b in U.ZOO_T)
    for n in U.BFO_T:
        c += U.unary_candidates(("t", n), T[n])
        for b in U.BFO_PARTNERS + U.BFO_T:
            c += U.binary_candidates(("t", n), ("t", b))
            c += U.binary_candidates(("t", b), ("t", n))
    L1 = admit(c, T, memo, seen, run, 1, ab)
    comb3 = set(U.COMB_T[:3])
    comb = comb3 if quick else set(U.COMB_T)
    bases = [r for r in L1 if recipe_terms(r) <= comb]
    c = []
    for r in bases:
        c += U.unary_candidates(r, memo[r])
        for b in sorted(comb, key=U.COMB_T.index):
            c += U.binary_candidates(r, ("t", b))
            c += U.binary_candidates(("t", b), r)
    # level-1 states that contain a colliding terminal (with f / c as the other operand): all unary operators
    coll = set(U.COLLIDE_T)
    cbases = [r for r in L1 if recipe_terms(r) & coll and recipe_terms(r) <= coll | set(U.COMB_T[:1] + U.COMB_T[2:3])]
    for r in cbases:
        c += U.unary_candidates(r, memo[r])
    L2 = admit(c, T, memo, seen, run, 2, ab)
    L3 = []
    if not quick:
        # comb for depth 3: the level-2 states over the three core terminals under the structural unary operators
        un3 = ("abs", "var5", "pos", "idx")
        bases3 = [r for r in L2 if recipe_terms(r) <= comb3]
        c = []
        for r in bases3:
            c += [x for x in U.unary_candidates(r, memo[r]) if x[0] in un3]
        L3 = admit(c, T, memo, seen, run, 3, ab)
    run.bounds.update(
        terminals=len(L0),
        operand_terminals_level1=U.OPS_T,
        base_form_operator_atoms_level1=U.BFO_T,
        comb_terminals_level2=sorted(comb),
        levels=[len(L0), len(L1), len(L2), len(L3)],
        comb="level 1: every unary/indexing/binary operator over all (pairs of) operand terminals (+ operator zoo on 5 terminals); "
        "level 2: every unary/indexing operator over, and every binary operator (both orders) of a comb terminal with, each "
        "level-1 state built from comb terminals only; + every unary/indexing operator over the level-1 states that contain a "
        "hash-colliding user terminal (HC/HK)"
        + ("" if quick else "; level 3: abs/variable/'+'/indexing over level-2 states built from the 3 core terminals"),
    )
    return L0 + L1 + L2 + L3


def form_recipes(quick):
    ints = U.integral_recipes(quick)
    forms = [("form", r) for r in ints]
    mforms = [("mform", r) for r in ints if r[7] == "{}" and not isinstance(r[4], tuple) and r[4] != "otherwise"]
    # two-integral forms over a reduced set of integrals (order of construction must not matter for equals)
    red = [r for r in ints if r[1] == U.INTEGRANDS[0] and r[5] in (0, 1) and r[6] == "None" and r[7] == "{}" and r[3] == "m1"]
    red2 = [r for r in ints if r[1] == U.INTEGRANDS[2] and r[5] == 0 and r[6] == "None" and r[7] == "{}" and r[3] == "m1"]
    two = []
    lim = 6 if quick else 14
    for a in red[:lim]:
        for b in (red + red2)[: lim + 4]:
            two.append(("form", a, b))
    return ints, forms + mforms + two


def build_any(r, T, dom, memo):
    if r[0] == "integral":
        return U.build_integral(r, T, dom, memo)
    if r[0] in ("form", "mform"):
        return U.build_form(r, T, dom, memo)
    return U.build(r, T, memo)


# -------------------------------------------------------------------------------------------------
# workers
# -------------------------------------------------------------------------------------------------


def a_worker(chunk):
    """Items ("row", label, x): the set {y : X[x] == X[y]} over ALL y (+ != laws);  ("obj", label, i): per-object laws."""
    part = Part()
    rows, sig, val = {}, {}, {}
    for kind, label, k in chunk:
        if kind == "row":
            rows[(label, k)] = row_case(part, G["U"][label], k)
        else:
            sig[(label, k)], val[(label, k)] = object_case(part, G["U"][label], k)
    d = part.dict()
    d["rows"], d["sig"], d["val"] = rows, sig, val
    return d


def row_case(part, u, x):
    X, A, ab, wit, forms = u["X"], u["attr"], G["ab"], u["wit"], u["forms"]
    M_ = len(X)
    xx = X[x]
    try:
        if forms:
            hits = [y for y in range(M_) if EQ(xx, X[y]) is not False]
        else:
            hits = [y for y in range(M_) if (xx == X[y]) is not False]
    except Exception:
        hits = []
        for y in range(M_):
            try:
                if EQ(xx, X[y]) is not False:
                    hits.append(y)
            except Exception as e:
                part.violation(pair_key("eq-raises", xx, X[y], ab), f"== raised {type(e).__name__}: {e}", wit(x, y))
    part.inc("transitions", M_)
    for y in hits:
        if EQ(xx, X[y]) is not True:
            part.violation(pair_key("eq-not-bool", xx, X[y], ab), "== did not return a bool", wit(x, y))
        if (xx != X[y]) is not False:
            part.violation(pair_key("ne-consistent", xx, X[y], ab), "a==b and a!=b", wit(x, y))
        if forms and isinstance(xx, ufl.Form) and not bool(xx == X[y]):
            part.violation(pair_key("equation-bool", xx, X[y], ab), "a.equals(b) but not bool(a==b)", wit(x, y))
    if x in u["ne_all"]:
        hs = set(hits)
        isform = forms and isinstance(xx, ufl.Form)
        for y in range(M_):
            n = xx != X[y]
            if n is not (y not in hs):
                part.violation(pair_key("ne-consistent", xx, X[y], ab), f"a!=b is {n!r}", wit(x, y))
            if isform and bool(xx == X[y]) is not (y in hs):
                part.violation(pair_key("equation-bool", xx, X[y], ab), "bool(a==b) differs from a.equals(b)", wit(x, y))
        part.inc("transitions", M_)
    # the row object took part in M_ comparisons (and was rewritten by every successful one): unchanged?
    if attrs(xx) != A[x]:
        # key: innermost difference between a freshly built object of the same recipe and the object now
        N = u["N"]
        T, dom, _ = U.terminals()
        w = wit(x, x)
        w["part"] = "A-mutate"
        try:
            fresh = build_any(u["recipes"][x % N], T, dom, {})
        except Exception as e:  # noqa: BLE001
            # not even the constructors work any more: a shared (fly-weight / cached) object was modified
            part.violation(
                f"global-state-corrupted:{type(e).__name__}",
                f"an object of the universe changed its repr/hash/str/shape and rebuilding its recipe now raises {type(e).__name__}: {e} "
                "(a shared instance was modified by an earlier comparison, pickle or copy)",
                w,
            )
            return hits
        now = repr(xx)
        partner = [y for y in hits if A[y][0] == now and A[y][0] != A[x][0]]
        w = wit(x, partner[0] if partner else x)
        w["part"] = "A-mutate"
        part.violation(
            pair_key("compare-mutates", fresh, xx, ab),
            "repr/hash/str/shape of an object changed after comparing it (as left operand of ==) with the universe",
            w,
        )
    return hits


def object_case(part, u, i):
    """Per-object laws + signature and value of a copy-A object."""
    o = u["X"][i]
    part.inc("transitions", 3)
    for key, what in check_object(o, G["ab"], G["ns"], u["flags"](i)):
        part.violation(key, what, {"part": "A-obj", "r": u["recipes"][i], "show": U.show_any(u["recipes"][i])})
    part.inc("validated")
    s = signature_of(o, G["dom"])
    part.count("signature_" + s[0])
    v = value_of(o)
    part.count("value_" + v[0])
    if v[0] == "ok":
        part.inc("evaluations")
        part.outcome(v[1])
    return s, v


def xpickle_case(chunk):
    """Unpickle objects written by an interpreter with another str hash seed; compare with the local copy.

    Runs in a forked child of its own (see isolated): unpickling may overwrite the cached hash of process-wide
    UFL singletons, which must not leak into the cases of the other passes.
    """
    part = Part()
    ab = G["ab"]
    fi0 = C.FixedIndex(0)
    for label, i in chunk:
        u = G["U"][label]
        blob = u["blobs"][i]
        if blob is None:
            continue
        o = u["X"][i]
        a0 = attrs(o)
        h_fi = hash(fi0)
        wit = {"part": "X", "r": u["recipes"][i], "show": U.show_any(u["recipes"][i]), "foreign_seed": XSEED}
        try:
            p = pickle.loads(blob)
        except BaseException as e:  # noqa: BLE001
            if isinstance(e, (KeyboardInterrupt, SystemExit, MemoryError)):
                raise
            part.violation(f"xpickle-raises:{ab(o)}", f"unpickling in another interpreter raised {type(e).__name__}: {e}", wit)
            continue
        part.inc("transitions")
        part.inc("validated")
        for key, what in xpickle_laws(o, p, a0, ab):
            part.violation(key, what, wit)
        if hash(fi0) != h_fi:
            part.violation(
                "xpickle-mutates-singleton:FixedIndex(0)",
                "unpickling changed the hash of the process-wide FixedIndex(0) object",
                wit,
            )
            fi0._hash = h_fi  # keep the following cases independent of this one
    return part.dict()


def isolated(f, arg):
    """Run f(arg) in a forked child and return its (picklable) result."""
    r, w = os.pipe()
    pid = os.fork()
    if pid == 0:
        code = 0
        try:
            os.close(r)
            try:
                data = pickle.dumps(("ok", f(arg)))
            except BaseException as e:  # noqa: BLE001
                import traceback

                data = pickle.dumps(("error", f"{type(e).__name__}: {e}\n{traceback.format_exc()}"))
            with os.fdopen(w, "wb") as fh:
                fh.write(data)
        except BaseException:  # noqa: BLE001
            code = 3
        os._exit(code)
    os.close(w)
    with os.fdopen(r, "rb") as fh:
        data = fh.read()
    os.waitpid(pid, 0)
    status, res = pickle.loads(data)
    if status != "ok":
        raise RuntimeError("isolated case failed: " + res)
    return res


def xpickle_laws(o, p, a0, ab):
    out = []
    d = xkey(o, ab)
    if repr(p) != a0[0]:
        out.append((f"xpickle-repr:{d}", "object unpickled from another interpreter has a different repr"))
        return out  # a harness artefact would show here first; the other laws assume equal repr
    if hash(p) != a0[1]:
        out.append(
            (f"xpickle-hash:{d}", "object unpickled from another interpreter: same repr as the local object but different hash (stale cached hash)")
        )
    if EQ(p, o) is not True or EQ(o, p) is not True:
        out.append((f"xpickle-eq:{d}", "object unpickled from another interpreter: same repr as the local object but not =="))
    if attrs(o) != a0:
        out.append((f"xpickle-mutates:{d}", "unpickling changed a local object"))
    return out


def xkey(o, ab):
    """One key per family of the outermost object (the root cause is per family, not per expression)."""
    if isinstance(o, ufl.core.expr.Expr):
        if not o._ufl_is_terminal_:
            return "Operator"
        if isinstance(o, C.GeometricQuantity):
            return "GeometricQuantity"
    return type(o).__name__


# -------------------------------------------------------------------------------------------------
# foreign-interpreter pickles
# -------------------------------------------------------------------------------------------------


def xdump(inp, outp):
    """Run in a fresh interpreter (other PYTHONHASHSEED): build the recipes, write one pickle per object."""
    with open(inp, "rb") as f:
        recipes = pickle.load(f)
    T, dom, sp = U.terminals()
    memo = {}
    blobs = []
    for r in recipes:
        if r is None:
            blobs.append(None)
            continue
        o = build_any(r, T, dom, memo)
        hash(o)  # like any object that has been put in a set/dict
        blobs.append(pickle.dumps(o))
    with open(outp, "wb") as f:
        pickle.dump(blobs, f)


def foreign_blobs(recipes, usable):
    d = tempfile.mkdtemp(prefix="c13x")
    inp, outp = os.path.join(d, "in.pkl"), os.path.join(d, "out.pkl")
    try:
        with open(inp, "wb") as f:
            pickle.dump([r if u else None for r, u in zip(recipes, usable)], f)
        env = dict(os.environ)
        env["PYTHONHASHSEED"] = XSEED
        env["PYTHONPATH"] = os.pathsep.join(p for p in sys.path if p)
        code = f"from mc.props.c13 import xdump; xdump({inp!r}, {outp!r})"
        res = subprocess.run([sys.executable, "-c", code], env=env, capture_output=True, text=True)
        if res.returncode != 0:
            raise RuntimeError("foreign interpreter failed:\n" + res.stderr[-3000:])
        with open(outp, "rb") as f:
            return pickle.load(f)
    finally:
        for p in (inp, outp):
            if os.path.exists(p):
                os.remove(p)
        os.rmdir(d)


# -------------------------------------------------------------------------------------------------
# Part A on one universe (expressions, or integrals+forms)
# -------------------------------------------------------------------------------------------------


def tick(msg):
    import time

    now = time.time()
    if os.environ.get("C13_VERBOSE"):
        print(f"[c13 +{now - G.setdefault('t0', now):7.1f}s] {msg}", flush=True)


def part_a(run, recipes, forms, label):
    """recipes -> two copies, all-pairs relation, laws."""
    tick(f"{label}: {len(recipes)} recipes")
    TA, domA, spA = U.terminals()
    TB, domB, spB = U.terminals()
    ab = G["ab"]
    memoA, memoB = {}, {}
    XA = [build_any(r, TA, domA, memoA) for r in recipes]
    XB = [build_any(r, TB, domB, memoB) for r in recipes]
    run.transitions += len(recipes)
    N = len(recipes)
    X = XA + XB
    A = [attrs(o) for o in X]
    fresh = [False] * N
    for i in range(N):
        if A[i][0] != A[N + i][0]:
            # the operator created fresh Index objects from UFL's global counter (e.g. scalar*vector): the two
            # copies legitimately differ in that datum.  Still members of the universe; no foreign pickle.
            fresh[i] = True
            run.count(f"{label}_copies_differ(fresh index counts)")
        if XA[i] is XB[i]:
            run.count(f"{label}_copies_identical_object(ufl cache)")
    stock = [("stock" in json.dumps(r)) for r in recipes]
    plain = [('"plain"' in json.dumps(r)) for r in recipes]

    def wit(x, y):
        return {
            "part": "A-pair",
            "kind": label,
            "ra": recipes[x % N],
            "rb": recipes[y % N],
            "copies": [x // N, y // N],
            "show": [U.show_any(recipes[x % N]), U.show_any(recipes[y % N])],
        }

    bfo = [any(n in json.dumps(r) for n in ("ExternalOperator", "Interpolate")) for r in recipes]
    run.count(f"{label}_evalrepr_not_applicable(BaseFormOperator repr is not an expression)", sum(bfo))

    def flags(i):
        f = set()
        if not plain[i % N]:
            f |= {"pickle", "eval"}
        if bfo[i % N]:
            # the repr of BaseFormOperator uses ';' separators like its str: not meant for eval (reported, not a law)
            f.discard("eval")
        return f

    term_rows = set()
    if not forms:
        n0 = sum(1 for r in recipes if r[0] == "t")
        term_rows = set(range(n0)) | set(range(N, N + n0))
    else:
        # != and bool(Equation) on all pairs of every row
        term_rows = set(range(2 * N))
    usable = [not (stock[i] or plain[i] or fresh[i]) for i in range(N)]
    u = dict(X=X, attr=A, forms=forms, wit=wit, ne_all=term_rows, recipes=recipes, flags=flags, usable=usable, N=N)

    # 1. the relation, and the per-object laws / signature / value of copy A
    tick(f"{label}: attrs done")
    G.setdefault("U", {})[label] = u
    E, sig, val = {}, {}, {}
    items = [("row", label, x) for x in range(2 * N)] + [("obj", label, i) for i in range(N)]
    for d in pmap(a_worker, items, seed=run.seed):
        run.merge(d)
        E.update({k[1]: v for k, v in d["rows"].items()})
        sig.update({k[1]: v for k, v in d["sig"].items()})
        val.update({k[1]: v for k, v in d["val"].items()})
    run.validated += (2 * N) * (2 * N)
    run.count(f"{label}_pairs_compared", (2 * N) * (2 * N))
    tick(f"{label}: relation and object laws done")
    Eset = {x: frozenset(v) for x, v in E.items()}
    by_repr = {}
    for x in range(2 * N):
        by_repr.setdefault(A[x][0], []).append(x)

    def fresh_pair(x, y):
        """The two objects rebuilt from their recipes (comparisons rewrite operands, also in this process)."""
        tabs = [U.terminals()[:2] + ({},), U.terminals()[:2] + ({},)]
        ta, tb = tabs[x // N], tabs[y // N]
        return build_any(recipes[x % N], ta[0], ta[1], ta[2]), build_any(recipes[y % N], tb[0], tb[1], tb[2])

    confirmed = {}

    def confirm(x, y, want_prefix=None, deep=False):
        # a broken tree can make (almost) every pair a violating one: after CONFIRM_CAP confirmed pairs of a family
        # the remaining ones are only counted (the verdict is already decided)
        if confirmed.get(want_prefix, 0) >= CONFIRM_CAP:
            run.count("violating_pairs_not_rebuilt_after_cap")
            return True
        found = _confirm(x, y, want_prefix, deep)
        if found:
            confirmed[want_prefix] = confirmed.get(want_prefix, 0) + 1
        return found

    def _confirm(x, y, want_prefix=None, deep=False):
        found = False
        a, b = fresh_pair(x, y)
        for key, what in check_pair(a, b, ab, G["dom"], deep=deep):
            if want_prefix is None or key.startswith(want_prefix):
                run.violation(key, what, wit(x, y))
                found = True
        return found

    ntrue = 0
    for x in range(2 * N):
        ex = Eset[x]
        if x not in ex:
            run.violation(f"eq-reflexive:{ab(A[x][0])}", "x == x is False", wit(x, x))
        for y in ex:
            if y == x:
                continue
            if X[y] is not X[x]:
                ntrue += 1
            if x not in Eset[y]:
                if not confirm(x, y, "eq-symmetric"):
                    run.violation(
                        pair_key("eq-history-dependent", *fresh_pair(x, y), ab),
                        "a==b but not b==a in the all-pairs pass, while symmetric on fresh objects",
                        wit(x, y),
                    )
            if A[x] != A[y]:
                if not confirm(x, y, "eq-implies"):
                    # the worker saw X[x] == X[y] after other comparisons of X[x]; not so on freshly built objects
                    run.violation(
                        pair_key("eq-history-dependent", *fresh_pair(x, y), ab),
                        "a==b was True after a had been compared with the rest of the universe, but the laws hold on fresh objects",
                        wit(x, y),
                    )
            if Eset[y] != ex:
                # transitivity: some z is equal to one of them but not to the other
                for z in sorted(ex ^ Eset[y]):
                    # z is == one of x, y but not the other, while x == y
                    w = wit(x, y)
                    w.update(part="A-triple", rc=recipes[z % N], copy_c=z // N)
                    run.violation(triple_key(A[x][0], A[y][0], A[z][0], ab), "x==y, and z is == exactly one of x, y", w)
                    break
        # converse law
        for y in by_repr[A[x][0]]:
            if y not in ex:
                if not confirm(x, y, "repr-implies-eq"):
                    run.violation(
                        pair_key("eq-history-dependent", *fresh_pair(x, y), ab),
                        "same repr but != in the all-pairs pass, while == on fresh objects",
                        wit(x, y),
                    )
    run.nontrivial += ntrue
    run.count(f"{label}_equal_pairs_of_distinct_objects", ntrue)
    # near pairs: same type, different repr (they differ in some datum) -- must all be unequal
    run.count(f"{label}_equivalence_classes", len(set(Eset.values())))

    # 2. signature and value of equal objects
    for x in range(N):
        for y in Eset[x]:
            j = y % N
            if j <= x:
                continue
            run.validated += 1
            bad_sig = sig[x] != sig[j]
            bad_val = val[x] != val[j] and "model-error" not in (val[x][0], val[j][0]) and "modelgap" not in (val[x][0], val[j][0])
            if bad_sig or bad_val:
                a, b = fresh_pair(x, y)
                hit = False
                for key, what in check_pair(a, b, ab, G["dom"], deep=True):
                    if key.startswith("eq-implies-signature") or key.startswith("eq-implies-value"):
                        run.violation(key, what, wit(x, y))
                        hit = True
                if not hit:
                    if A[x][0] == A[y][0]:
                        # identical structure, different signature/value status: the harness is not deterministic
                        raise RuntimeError("signature/value differ for identical reprs " + repr(wit(x, y)))
                    # different structures declared equal (already reported by the attribute laws) whose
                    # signature/value is defined for only one of them
                    run.count(f"{label}_equal_pair_with_one_sided_signature_or_value")

    tick(f"{label}: pair laws done")
    run.states += N
    run.count(f"{label}_objects", 2 * N)
    for i in range(0, N, max(1, N // 5)):
        run.sample({"kind": label, "recipe": U.show_any(recipes[i]), "repr": ab(A[i][0])[:300], "equal_to": len(Eset[i])})
    return N


# -------------------------------------------------------------------------------------------------
# main / replay
# -------------------------------------------------------------------------------------------------


def setup():
    T, dom, sp = U.terminals()
    G.update(ab=Abbrev(dom, sp), ns=U.namespace(), dom=dom)
    return T, dom, sp


def main(argv):
    run = Run(PID, argv)
    T, dom, sp = setup()
    if run.args.replay:
        return replay(run)
    quick = not run.thorough()
    ab = G["ab"]

    # developer switch (self-tests): run only some parts; the verdict of a partial run is not a verdict on C13
    only = set(filter(None, os.environ.get("C13_ONLY", "").split(","))) or {"expr", "form", "hist"}
    run.extra["parts_run"] = sorted(only)
    labels = []
    n_expr = 0
    ints, frms = form_recipes(quick)
    # ---- Part A: expressions
    if "expr" in only:
        recipes = expression_recipes(quick, T, {}, run, ab)
        n_expr = part_a(run, recipes, False, "expr")
        labels.append("expr")
    # ---- Part A: integrals and forms
    if "form" in only:
        part_a(run, ints + frms, True, "form")
        labels.append("form")
    run.bounds.update(
        expressions=n_expr,
        integrals=len(ints),
        forms=len(frms),
        integral_alphabet=dict(
            integrands=[U.show(r) for r in (U.INTEGRANDS[:3] if quick else U.INTEGRANDS)],
            integral_types=U.ITYPES[:2] if quick else U.ITYPES,
            domains=U.DOMAINS,
            subdomain_ids=[repr(s) for s in (U.SIDS[:5] + U.SIDS[6:] if quick else U.SIDS)],
            metadata=[repr(m) for m in (U.METADATA[:3] if quick else U.METADATA)],
            subdomain_data=U.SDATA[:2] + U.SDATA[3:] if quick else U.SDATA,
            extra_domain_maps=U.EXTRA[:1] if quick else U.EXTRA,
        ),
        foreign_hash_seed=XSEED,
    )

    # ---- foreign pickles of both universes (one foreign interpreter, one worker pool)
    tick("foreign interpreter")
    items = []
    allr, allu = [], []
    for label in labels:
        u = G["U"][label]
        allr += u["recipes"]
        allu += u["usable"]
    blobs = foreign_blobs(allr, allu) if allr else []
    off = 0
    for label in labels:
        u = G["U"][label]
        u["blobs"] = blobs[off : off + u["N"]]
        off += u["N"]
        run.count(f"{label}_foreign_pickles", sum(u["usable"]))
        idx = [i for i in range(u["N"]) if u["usable"][i]]
        items += [("xp", label, i) for i in idx]
    tick("foreign pickles")
    if items:
        run.merge(isolated(xpickle_case, [it[1:] for it in items]))
    # ---- Part B: histories
    tick("histories")
    if "hist" in only:
        H.run_histories(run, quick)
    tick("done")

    if os.environ.get("C13_VERBOSE"):
        import collections

        fam = collections.Counter(v["key"].split(":")[0] for v in run.violations)
        print("violation families:", dict(fam))
        for v in run.violations:
            if v["key"].startswith(("eq-history", "eq-transitive", "eq-symmetric", "xpickle-repr", "evalrepr", "pickle")):
                print("  ", v["key"][:300], "<=", str(v["witness"].get("show"))[:300])
    run.rule = (
        "Part A: every recipe of the stated grammar, built twice; == on ALL ordered pairs of the 2N objects; a state is a distinct "
        "repr; non-trivial = a pair of distinct Python objects that compare equal.  Part B: every sequence of comparison events up "
        "to the stated length over the stated pool, pool rebuilt per history; non-trivial = a history in which some comparison of "
        "distinct objects returned True (so operands were rewritten)"
    )
    run.assumptions += [
        "finite literals only (no nan/inf); metadata dicts with identical insertion order and value types; user payloads "
        "(subdomain_data) follow the ufl_id protocol or are shared objects",
        "finite elements are harness objects (mc.elements.Elem) with a repr that is eval-able and independent of the str hash seed",
        "the value law uses one cell / facet / interior-facet environment of a triangle; expressions the model cannot evaluate "
        "are skipped and counted (value_* counters)",
        "pickles from 'another interpreter' are produced by the same UFL tree under PYTHONHASHSEED=" + XSEED,
    ]
    run.finish()


def replay(run):
    with open(run.args.replay) as f:
        w = json.load(f)["witness"]
    ab = G["ab"]
    part = w.get("part")
    TA, domA, _ = U.terminals()
    TB, domB, _ = U.terminals()
    tabs = [(TA, domA, {}), (TB, domB, {})]

    def obj(r, copy):
        T, dom, memo = tabs[copy]
        return build_any(U.tup(r), T, dom, memo)

    if part in ("A-pair", "A-triple"):
        a = obj(w["ra"], w["copies"][0])
        b = obj(w["rb"], w["copies"][1])
        print("a:", ab(a)[:600])
        print("b:", ab(b)[:600])
        for key, what in check_pair(a, b, ab, G["dom"], deep=True):
            run.violation(key, what, w)
        if part == "A-triple":
            c = obj(w["rc"], w["copy_c"])
            rel = {"ab": EQ(a, b), "ba": EQ(b, a), "ac": EQ(a, c), "ca": EQ(c, a), "bc": EQ(b, c), "cb": EQ(c, b)}
            print("c:", ab(c)[:600], rel)
            if rel["ab"] and bool(rel["ac"]) != bool(rel["bc"]):
                run.violation(triple_key(a, b, c, ab), "x==y, and z is == exactly one of x, y", w)
    elif part == "A-mutate":
        a = obj(w["ra"], w["copies"][0])
        b = obj(w["rb"], w["copies"][1])
        before = attrs(a)
        r = EQ(a, b)
        print("a:", ab(before[0])[:600])
        print("b:", ab(b)[:600])
        print("a == b:", r, "; a afterwards:", ab(a)[:600])
        if attrs(a) != before:
            T, dom, _ = U.terminals()
            fresh = build_any(U.tup(w["ra"]), T, dom, {})
            run.violation(pair_key("compare-mutates", fresh, a, ab), "a changed by evaluating a == b", w)
    elif part == "A-obj":
        o = obj(w["r"], 0)
        print("object:", ab(o)[:600])
        for key, what in check_object(o, ab, G["ns"], {"pickle", "eval"}):
            run.violation(key, what, w)
    elif part == "X":
        r = U.tup(w["r"])
        blobs = foreign_blobs([r], [True])
        o = obj(r, 0)
        a0 = attrs(o)
        h = hash(C.FixedIndex(0))
        p = pickle.loads(blobs[0])
        print("object:", ab(o)[:600])
        for key, what in xpickle_laws(o, p, a0, ab):
            run.violation(key, what, w)
        if hash(C.FixedIndex(0)) != h:
            run.violation("xpickle-mutates-singleton:FixedIndex(0)", "unpickling changed the hash of FixedIndex(0)", w)
    elif part == "B":
        H.replay(run, w)
    else:
        raise RuntimeError(f"unknown witness {w!r}")
    run.states = 1
    run.transitions = max(run.transitions, 1)
    run.validated = max(run.validated, 1)
    run.rule = "replay of one recorded witness"
    run.finish()
