"""C27 Algorithms never mutate their inputs.

Exhaustive history exploration on the real code.  A history is  (input, [(event, target index), ...]):
the input is built fresh by a builder, every event applies one public algorithm / form operator to the
input or to ANY earlier result of the same history.  After the last event of every history the invariant
is evaluated for the input, for every earlier result (primary and secondary), for every caller-owned object
(metadata dicts, subdomain data, measures, mappings passed as arguments) and for UFL's global default
measures: the value state observed before the event (== the state at creation, by induction over the
prefix, which is itself an explored history) is unchanged.

Isolation: every history is executed from scratch in-process: global counters are reset, a completely
fresh universe (mesh, elements, spaces, terminals, dicts) is built, the prefix is re-executed.  No UFL
object is shared between two histories, so per-object caches (Form._signature, Expr._hash, ...) cannot
leak.  Process-global state that survives is (a) the Counted/ufl_id counters (reset), (b) the interned
immutable terminals (IntValue/FixedIndex/Zero/MultiIndex caches; no mutable fields besides the hash
cache), (c) MultiFunction's per-class handler-name table, (d) the module-level default measures ufl.dx,...
(part of the invariant).  Re-execution instead of os.fork() because fork costs 25-90 ms per node on this
machine while a typical event costs 1-10 ms.  The pre-state of a history is the post-state observed at
the end of its prefix history (a different execution of the same prefix); every difference found that way
is CONFIRMED by an exact re-run that observes all objects before and after the last event inside one
execution, and only confirmed differences are reported (so nondeterminism between executions cannot
produce a false alarm; it is counted as `unconfirmed`).
"""

import itertools
import json
import signal
import sys
import time

import ufl
from mc.props import c27_events as EV
from mc.props import c27_inputs as IN
from mc.props import c27_snap as S
from mc.runner import Part, Run, pmap

PID = "C27"
EVENT_TIMEOUT = 120


class HarnessTimeout(BaseException):
    pass


def _alarm(signum, frame):
    raise HarnessTimeout()


# -------------------------------------------------------------------------------------------------
def reset_globals():
    """Every history starts from the same values of UFL's global counters."""
    from ufl.classes import Coefficient, Constant, Index, Label
    from ufl.core.base_form_operator import BaseFormOperator
    from ufl.matrix import Matrix

    for cls in (Coefficient, Constant, Index, Label, Matrix, BaseFormOperator):
        cls._counter = itertools.count(0)
    ufl.Mesh._ufl_global_id = 0
    ufl.domain.MeshView._ufl_global_id = 0


class Cx:
    """Per-event context handed to the event function."""

    CATCH = (Exception,) + EV.ACCEPTED_BASE

    def __init__(self, U, namer):
        self.U = U
        self.namer = namer
        self.guards = []
        self.secondaries = []
        self.step_errors = {}
        self.steps = 0

    def guard(self, name, obj):
        self.guards.append((name, obj, repr(S.deep_state(obj, self.namer))))

    def secondary(self, obj):
        if S.kind_of(obj) in ("form", "expr", "integral", "baseform"):
            self.secondaries.append(obj)
        return obj

    def step(self, f):
        self.steps += 1
        try:
            return f()
        except self.CATCH as e:
            n = type(e).__name__
            self.step_errors[n] = self.step_errors.get(n, 0) + 1
            return "!" + n


class Hist:
    __slots__ = ("name", "U", "namer", "objs", "secs", "outcomes", "guard_changed", "step_errors", "steps", "err")

    def __init__(self):
        self.objs = []
        self.secs = []
        self.outcomes = []
        self.guard_changed = []
        self.step_errors = {}
        self.steps = 0
        self.err = None


def start_history(name):
    reset_globals()
    obj, U = IN.build(name)
    h = Hist()
    h.name = name
    h.U = U
    h.namer = S.Namer()
    for k, v in U.watch.items():
        h.namer.add(k, v)
    h.objs.append(obj)
    h.secs.append([])
    return h


def do_event(h, evname, ti):
    """Execute one event on the real code; returns outcome string."""
    ev = EV.BY_NAME[evname]
    target = h.objs[ti]
    cx = Cx(h.U, h.namer)
    res = None
    h.err = None
    signal.alarm(EVENT_TIMEOUT)
    try:
        res = ev.fn(target, cx)
        outcome = None
    except Cx.CATCH as e:
        outcome = type(e).__name__
        h.err = outcome
    except HarnessTimeout:
        outcome = "Timeout"
        h.err = outcome
    finally:
        signal.alarm(0)
    primary = None
    if outcome is None:
        if isinstance(res, tuple) and len(res) == 2 and res[0] == "value":
            outcome = "value"
        elif S.kind_of(res) in ("form", "expr", "integral", "baseform"):
            if any(res is o for o in h.objs if o is not None):
                outcome = "same-object"
            else:
                primary = res
                outcome = S.kind_of(res)
        else:
            outcome = "other:" + type(res).__name__
    h.objs.append(primary)
    known = [id(o) for o in h.objs if o is not None] + [id(x) for s in h.secs for x in s]
    secs = []
    for x in cx.secondaries:
        if id(x) not in known:
            known.append(id(x))
            secs.append(x)
    h.secs.append(secs)
    h.outcomes.append(outcome)
    h.guard_changed = [n for (n, o, before) in cx.guards if repr(S.deep_state(o, h.namer)) != before]
    for k, v in cx.step_errors.items():
        h.step_errors[k] = h.step_errors.get(k, 0) + v
    h.steps += cx.steps
    return outcome


class State:
    """Observed value state of a history: primaries, secondaries, watch."""

    __slots__ = ("objs", "secs", "watch")


def observe_history(h, pre=None, full_all=False):
    st = State()
    st.objs = []
    st.secs = []
    for i, o in enumerate(h.objs):
        if o is None:
            st.objs.append(None)
            continue
        old = pre is not None and i < len(pre.objs) and pre.objs[i] is not None
        st.objs.append(S.observe(o, h.namer, full=full_all or not old))
    for i, ss in enumerate(h.secs):
        st.secs.append([S.observe(x, h.namer, full=full_all) for x in ss])
    st.watch = S.observe_watch(h.U.watch, h.namer)
    return st


def _norm(field):
    import re

    return re.sub(r"\[\d+\]", "", field)


def compare(pre, post, same_exec=False):
    """Fields that changed between the pre-state and the post-state (for objects existing in pre)."""
    changed = []
    for i, a in enumerate(pre.objs):
        if a is None:
            continue
        b = post.objs[i] if i < len(post.objs) else None
        if b is None or b.kind != a.kind:
            changed.append(f"obj{i}.not-reproduced")
            continue
        d = S.diff(a, b, same_exec)
        if not d and b.fresh is None:
            b.fresh = a.fresh
            b.node_fresh = a.node_fresh
        if not d:
            d = S.stale_caches(b, b, same_exec)
        changed += [f"obj{i}.{x}" for x in d]
    for i, ss in enumerate(pre.secs):
        for k, a in enumerate(ss):
            if i >= len(post.secs) or k >= len(post.secs[i]) or post.secs[i][k].kind != a.kind:
                changed.append(f"sec{i}.not-reproduced")
                continue
            b = post.secs[i][k]
            changed += [f"sec{i}.{x}" for x in S.diff(a, b, same_exec)]
    for k, v in pre.watch.items():
        if post.watch.get(k) != v:
            changed.append(("" if k.startswith("global.") else "caller.") + k)
    return changed


def chain_str(chain):
    return ">".join(f"{e}@{t}" for e, t in chain)


def confirm(name, chain, verbose=False):
    """Exact check inside ONE execution: observe everything (full) right before and right after the last
    event.  Returns the list of changed fields (empty: not reproduced)."""
    h = start_history(name)
    for e, t in chain[:-1]:
        do_event(h, e, t)
    pre = observe_history(h, full_all=True)
    e, t = chain[-1]
    outcome = do_event(h, e, t)
    post = observe_history(h, pre, full_all=True)
    changed = compare(pre, post, same_exec=True)
    changed += [f"argument.{g}" for g in h.guard_changed]
    if verbose:
        print(f"history {name}: {chain_str(chain)}  last outcome: {outcome}")
        for i, a in enumerate(pre.objs):
            if a is None:
                continue
            b = post.objs[i]
            for k in S.diff(a, b):
                va = a.lean.get(k, (a.fresh or {}).get(k, a.raw.get(k[5:]) if k.startswith("cache") else None))
                vb = b.lean.get(k, (b.fresh or {}).get(k, b.raw.get(k[5:]) if k.startswith("cache") else None))
                print(f"  obj{i}.{k}:\n    before: {str(va)[:600]}\n    after : {str(vb)[:600]}")
        for k, v in pre.watch.items():
            if post.watch.get(k) != v:
                print(f"  {k}:\n    before: {v[:600]}\n    after : {post.watch.get(k)[:600]}")
    return sorted(set(_norm(c) for c in changed)), outcome


# -------------------------------------------------------------------------------------------------
CORE3 = (
    "cfd_ffcx",
    "attach_estimated_degrees",
    "apply_integral_scaling",
    "replace",
    "derivative",
    "signature",
    "form_accessors",
    "expr_accessors",
    "eq_clone",
    "measure_reconf",
    "integral_reconstruct",
    "action_identity",
    "bf_action",
    "bf_arith",
    "bf_accessors",
    "op_abs",
    "op_arith",
    "integrate",
)


def alphabet(level, plan, chain):
    which = plan["levels"][level - 1]
    if which == "all":
        return EV.EVENTS
    if which == "core":
        return [e for e in EV.EVENTS if e.core]
    if which == "core3-below-core3":
        if any(e not in CORE3 for e, _ in chain):
            return []
        return [e for e in EV.EVENTS if e.name in CORE3]
    raise ValueError(which)


def candidates(h, level, plan, chain=()):
    out = []
    evs = alphabet(level, plan, chain)
    if not evs:
        return out
    for ti, o in enumerate(h.objs):
        if o is None:
            continue
        fs = EV.facts(o)
        k = S.kind_of(o)
        for ev in evs:
            if k not in ev.kinds:
                continue
            if ev.first_only and ti != 0:
                continue
            if any(r not in fs for r in ev.req):
                continue
            out.append((ev.name, ti))
    return out


def explore(name, chain, pre, plan, part):
    """Execute history `chain` (from scratch), check the invariant after its last event, recurse."""
    h = start_history(name)
    for e, t in chain:
        outcome = do_event(h, e, t)
    post = observe_history(h, pre)
    part.inc("transitions")
    part.inc("states")
    part.inc("validated")
    part.count(f"depth{len(chain)}")
    ev, ti = chain[-1]
    part.outcome(f"{ev}:{outcome}")
    part.count("event:" + ev)
    if h.err:
        part.error(h.err)
    else:
        part.inc("nontrivial")
    if h.objs[-1] is not None:
        part.count("results_tracked")
        new = post.objs[-1]
        if new.stale:
            part.count("result_with_inconsistent_cache")
            part.count(f"result_with_inconsistent_cache:{chain_str(chain)}:{name}:{','.join(new.stale)}")
    part.count("substeps", h.steps)
    for k, v in h.step_errors.items():
        part.count("substep_error:" + k, v)
    part.inc("evaluations", sum(1 for o in post.objs if o is not None) + sum(len(s) for s in post.secs))
    # sharing statistics (non-vacuity): does the new result alias caller-owned / earlier data?
    if h.objs[-1] is not None and S.kind_of(h.objs[-1]) in ("form", "integral"):
        mds = {
            id(i._metadata)
            for o in h.objs[:-1]
            if o is not None and S.kind_of(o) in ("form", "integral")
            for i in EV.integrals_of(o)
        }
        if any(id(i._metadata) in mds for i in EV.integrals_of(h.objs[-1])):
            part.count("result_shares_metadata_dict_with_earlier_object")
    changed = compare(pre, post)
    changed += [f"argument.{g}" for g in h.guard_changed]
    if changed:
        conf, _ = confirm(name, chain)
        if conf:
            what = ",".join(conf)
            key = f"{chain_str(chain)}:{name}:{what}"
            part.violation(
                key,
                f"after {chain_str(chain)} on input '{name}' these observables of earlier objects / caller data changed: {what}",
                {"input": name, "chain": [list(c) for c in chain], "changed": conf},
            )
            part.count("violating_histories")
            # continue below this node with the post state as the new baseline
        else:
            part.count("unconfirmed_cross_execution_difference")
            part.sample({"unconfirmed": chain_str(chain), "input": name, "fields": changed[:6]}, limit=6)
    if len(chain) == 1 and ti == 0:
        part.sample({"input": name, "history": chain_str(chain), "outcome": outcome, "objects_checked": len(pre.objs)}, limit=2)
    if len(chain) < plan["depth"]:
        for c in candidates(h, len(chain) + 1, plan, chain):
            explore(name, chain + [c], post, plan, part)


PLAN = None
TIMES = {}


def work(items):
    import warnings

    warnings.simplefilter("ignore")  # UFL's informational UserWarnings (metadata str(), missing degree handlers)
    part = Part()
    signal.signal(signal.SIGALRM, _alarm)
    for name, e1 in items:
        t0 = time.process_time()
        h0 = start_history(name)
        st0 = observe_history(h0, full_all=True)
        if any(o is not None and o.stale for o in st0.objs):
            raise RuntimeError(f"harness: fresh input {name} has inconsistent caches")
        if (e1, 0) not in candidates(h0, 1, PLAN):
            continue
        explore(name, [(e1, 0)], st0, PLAN, part)
        TIMES[name] = TIMES.get(name, 0.0) + time.process_time() - t0
    d = part.dict()
    d["cpu"] = dict(TIMES)
    TIMES.clear()
    return d


def main(argv):
    global PLAN
    run = Run(PID, argv)
    if run.args.replay:
        return replay(run)
    quick = not run.thorough()
    names = list(IN.INPUTS)
    import os

    if os.environ.get("C27_INPUTS"):  # debugging / self-test aid only: restrict the input catalogue
        names = [n for n in names if n in os.environ["C27_INPUTS"].split(",")]
        run.exhaustive = False
    if quick:
        PLAN = {"depth": 2, "levels": ["all", "core"]}
    else:
        PLAN = {"depth": 3, "levels": ["all", "all", "core3-below-core3"]}
    items = [(n, e.name) for n in names for e in EV.EVENTS]
    cpu = {}
    for d in pmap(work, items, seed=run.seed, chunks_per_proc=8):
        run.merge(d)
        for k, v in d.get("cpu", {}).items():
            cpu[k] = cpu.get(k, 0.0) + v
    print("cpu seconds per input:", {k: round(v, 1) for k, v in sorted(cpu.items(), key=lambda kv: -kv[1])}, "total", round(sum(cpu.values())))
    run.bounds = {
        "inputs": names,
        "events": [e.name for e in EV.EVENTS],
        "core_events": [e.name for e in EV.EVENTS if e.core],
        "core3_events": list(CORE3),
        "depth": PLAN["depth"],
        "alphabet_per_level": PLAN["levels"],
        "targets": "input or any earlier primary result",
        "histories_per_depth": {k: v for k, v in run.counters.items() if k.startswith("depth")},
    }
    run.rule = (
        "every history (input, [(event,target)...]) up to the depth bound over the per-level alphabets; an event is "
        "enabled when the target kind matches and the target has the required terminals; state = history; "
        "non-trivial = the last event completed without raising"
    )
    run.assumptions += [
        "isolation by re-execution from fresh inputs with reset global counters (no fork); differences are confirmed inside one execution before being reported",
        "observation: harness DAG digest (all slots of all nodes, terminal repr/str), deep value copy of metadata / subdomain data / caller dicts, UFL's own repr/str/hash/signature/arguments/coefficients recomputed with cleared caches when an object is created and in every confirmation run; literal repr/str skipped above %d tree nodes"
        % S.REPR_CAP,
        "identity changes that preserve value (exprequals' operand sharing) are not violations",
    ]
    run.finish()


def replay(run):
    import warnings

    warnings.simplefilter("ignore")
    signal.signal(signal.SIGALRM, _alarm)
    with open(run.args.replay) as f:
        w = json.load(f)["witness"]
    chain = [tuple(c) for c in w["chain"]]
    conf, outcome = confirm(w["input"], chain, verbose=True)
    run.states = 1
    run.transitions = len(chain)
    run.validated = 1
    if conf:
        what = ",".join(conf)
        run.violation(f"{chain_str(chain)}:{w['input']}:{what}", f"reproduced: {what}", w)
    else:
        print("not reproduced")
    run.finish()
