"""C14 The arity check accepts exactly multilinear integrands (one direction: accepted => multilinear).

BFS over integrand recipes built from a test function v, a trial function u (scalar and vector), coefficients
and the language's operators (sums, products, division, index notation, list tensors mixing argument /
non-argument / zero components, conditionals with arguments in branches or condition, conj/real/imag, abs,
powers, derivatives, variables, tensor algebra).  Every scalar integrand e is submitted as e*dx to the real
compute_form_data in real and complex mode; whenever it is ACCEPTED, the model value of e must be
additive and homogeneous in each argument separately (exact 50-digit arithmetic; complex mode:
antilinear in the test function, linear in the trial function) and e must contain exactly the arguments
reported for the form.  Rejection is never an alarm.
"""

import json

import ufl
from mc import elements as E
from mc import envs as EV
from mc.explore import check_recipe, dedup, run_level
from mc.runner import Part, Run
from mc.sem import lang as L
from mc.sem import sem as M
from mc.sem.fields import FieldData
from mc.sem.jet import Ambiguous, Undefined, mpc, mpf, set_order

PID = "C14"


def universe():
    m = EV.mesh("triangle")
    S = ufl.FunctionSpace(m, E.P("triangle", 1))
    V = ufl.FunctionSpace(m, E.P("triangle", 1, (2,)))
    t = {
        "v": ufl.Argument(S, 0),
        "u": ufl.Argument(S, 1),
        "vv": ufl.Argument(V, 0),
        "uu": ufl.Argument(V, 1),
        "f": ufl.Coefficient(S),
        "w": ufl.Coefficient(V),
        "c": ufl.Constant(m),
        "z": ufl.constantvalue.Zero(),
        "two": ufl.as_ufl(2),
    }
    return L.Universe(t)


def eval_with(obj, cell_env, variant, complex_mode):
    env = M.Env(cell_env.cells["+"], cell_env.X0["+"], fields=FieldData(salt=11, complex_mode=complex_mode))
    env.fields.variant = variant
    return M.sem(obj, M.Ctx(env), {})


def arity_check(recipe, obj, lts, ctxs, envs, part, U):
    from ufl.algorithms import compute_form_data
    from ufl.algorithms.analysis import extract_arguments

    if obj.ufl_shape != () or obj.ufl_free_indices:
        return None
    key = L.show_recipe(recipe)
    args = extract_arguments(obj)
    if not args:
        return None
    nums = sorted({a.number() for a in args})
    # a form must number its arguments 0..n-1 and use one space per number
    if nums != list(range(len(nums))) or len({(a.number(), a.ufl_function_space()) for a in args}) != len(nums):
        part.count("inconsistent_arguments_skipped")
        return None
    ok = True
    # one Form object is preprocessed in real mode and then in complex mode (forms are reused like that; whatever a
    # Form caches must not carry an acceptance from one mode into the other)
    form_reused = obj * ufl.dx
    verdict = {}
    for cm, form in ((False, form_reused), (True, form_reused)):
        part.inc("transitions")
        from mc.guard import HangError, time_limit

        try:
            with time_limit(120, key):
                fd = compute_form_data(form, complex_mode=cm)
        except HangError as e:
            part.violation(
                f"{PID}:hang:{'complex' if cm else 'real'}:{key}",
                f"compute_form_data does not return for {key} (complex_mode={cm})",
                {"recipe": recipe, "show": key, "complex_mode": cm, "error": str(e)},
            )
            ok = False
            continue
        except BaseException as e:  # noqa: BLE001
            if isinstance(e, (KeyboardInterrupt, SystemExit, MemoryError)):
                raise
            part.error(type(e).__name__)
            part.outcome(("rejected", cm, type(e).__name__))
            verdict[cm] = "rejected:" + type(e).__name__
            continue
        verdict[cm] = "accepted"
        part.outcome(("accepted", cm, len(nums)))
        part.count("accepted")
        wit = {"recipe": recipe, "show": key, "complex_mode": cm, "expr": repr(obj)[:800]}
        cell_env = envs[0]
        by_num = {}
        for a in args:
            by_num.setdefault(a.number(), a)
        alphas = [mpf(2), mpf(-3)] + ([mpc(0, 1)] if cm else [])
        try:
            base = eval_with(obj, cell_env, {}, cm)
            for num, a in by_num.items():
                akey = M.terminal_key(a, cell_env)
                antilinear = cm and num == 0
                for al in alphas:
                    part.inc("validated")
                    val = eval_with(obj, cell_env, {akey: [(11, al)]}, cm)
                    import mpmath

                    expect = (mpmath.conj(al) if antilinear else al) * base
                    if not M.values_close(val, expect, mpf("1e-12")):
                        part.violation(
                            f"{PID}:homogeneity:{'complex' if cm else 'real'}:{key}",
                            f"accepted integrand {key} is not {'anti' if antilinear else ''}homogeneous in argument {num} (factor {al})",
                            dict(wit, argument=num, factor=str(al), value=M.show(val), expected=M.show(expect)),
                        )
                        ok = False
                        raise StopIteration
                part.inc("validated")
                v1 = eval_with(obj, cell_env, {akey: [(21, 1)]}, cm)
                v2 = eval_with(obj, cell_env, {akey: [(33, 1)]}, cm)
                v12 = eval_with(obj, cell_env, {akey: [(21, 1), (33, 1)]}, cm)
                if not M.values_close(v12, v1 + v2, mpf("1e-12")):
                    part.violation(
                        f"{PID}:additivity:{'complex' if cm else 'real'}:{key}",
                        f"accepted integrand {key} is not additive in argument {num}",
                        dict(wit, argument=num, value_sum=M.show(v12), sum_values=M.show(v1 + v2)),
                    )
                    ok = False
                    raise StopIteration
            part.count("accepted_and_multilinear")
        except StopIteration:
            pass
        except Ambiguous:
            part.count("ambiguous_env")
        except Undefined:
            part.count("model_undefined_env")
        # arguments reported by the form data are exactly those of the integrand
        try:
            fa = tuple(fd.original_form.arguments())
            if {(a.number(), a.part()) for a in fa} != {(a.number(), a.part()) for a in args}:
                part.violation(f"{PID}:arguments:{key}", f"form arguments differ from integrand arguments for {key}", wit)
                ok = False
        except BaseException as e:  # noqa: BLE001
            part.error("arguments:" + type(e).__name__)
    return None if ok else "VIOLATION"


def main(argv):
    run = Run(PID, argv)
    quick = not run.thorough()
    set_order(1)
    U = universe()
    envs = EV.cell_envs("triangle", n=1)
    if run.args.replay:
        return replay(run, U, envs)
    seen = set()

    def level(cands, lvl, sample_every=0):
        import sys
        import time

        cands = sorted(set(cands), key=repr)
        if run.smoke:
            cands = cands[:: max(1, len(cands) // 100)]
            run.exhaustive = False
        print(f"[{PID}] level {lvl}: {len(cands)} candidates t={time.time() - run.t0:.0f}s", file=sys.stderr)
        run.bounds[f"level{lvl}_candidates"] = len(cands)
        new = run_level(cands, U, envs, PID, run, run.seed, extra_check=arity_check, compare=False, sample_every=sample_every)
        sts, _ = dedup(new, seen, lvl, run)
        return sts

    l0 = level([("t", n) for n in U.t], 0)
    names = list(U.t)
    c = []
    for s in l0:
        r = s.recipe
        c += [("neg", r), ("abs", r), ("conj", r), ("real", r), ("imag", r), ("grad", r), ("dx", r, 0)]
        if s.rank == 0:
            c += [("pow", r, ("num", 2)), ("pow", r, ("num", 1)), ("pow", ("num", 2), r), ("sqrt", r), ("exp", r), ("sin", r), ("div", ("num", 1), r), ("sign", r)]
        if s.rank == 1:
            c += [("getitem", r, 0), ("getitem", r, 1), ("getitem", r, "i"), ("divg", r), ("inner", r, r)]
    for a in names:
        for b in names:
            for op in ("add", "sub", "mul", "div", "dot", "inner", "outer", "as_vector", "max_value", "lt", "pow"):
                c.append((op, ("t", a), ("t", b)))
    l1 = level(c, 1, sample_every=30)
    conds = [s for s in l1 if s.cond]
    c = []
    sc0 = [s for s in l0 if s.rank == 0]
    for cnd in conds:
        for a in sc0:
            for b in sc0:
                c.append(("conditional", cnd.recipe, a.recipe, b.recipe))
    partners = names if not quick else ["v", "u", "vv", "f", "w", "z"]
    bops = ("add", "mul", "div", "dot", "inner", "as_vector", "sub") if not quick else ("add", "mul", "div", "dot", "inner", "as_vector")
    for s in l1:
        if s.cond:
            continue
        r = s.recipe
        c += [("conj", r), ("real", r), ("abs", r), ("neg", r)]
        if not s.fid:
            c += [("grad", r)]
        if s.rank == 0 and not s.fid:
            c += [("pow", r, ("num", 2)), ("sqrt", r), ("exp", r)]
        if s.rank == 1:
            c += [("getitem", r, 0), ("getitem", r, "i"), ("getitem", r, 1)]
        if s.rank == 2:
            c += [("getitem", r, 0, 1), ("getitem", r, "i", "i"), ("tr", r), ("getitem", r, "i", "j")]
        for b in partners:
            for op in bops:
                c.append((op, r, ("t", b)))
                c.append((op, ("t", b), r))
    l2 = level(c, 2, sample_every=1000)
    # level 3 comb: close level-2 states (index, multiply by the other argument / a coefficient, conditionals)
    c = []
    src = l2 if not quick else sorted(l2, key=lambda s: (len(repr(s.recipe)), repr(s.recipe)))[:2500]
    if quick:
        # list tensors are where per-component argument bookkeeping lives: always closed, in both tiers
        chosen = {id(s) for s in src}
        src = src + [s for s in l2 if id(s) not in chosen and s.recipe[0] == "as_vector"]
    conds2 = conds[:4]
    for s in src:
        if s.cond:
            continue
        r = s.recipe
        for b in ("v", "u", "f", "vv", "uu") if not quick else ("v", "u", "vv"):
            for op in ("mul", "add", "inner", "dot"):
                c.append((op, r, ("t", b)))
        if s.rank == 1:
            c += [("getitem", r, 0), ("mul", ("getitem", r, "i"), ("getitem", ("t", "uu"), "i")), ("mul", ("getitem", r, "i"), ("getitem", ("t", "w"), "i"))]
            c += [("dot", r, ("t", "w")), ("inner", ("t", "w"), r), ("inner", r, ("t", "w"))]
        if s.rank == 0 and not s.fid:
            for cnd in conds2:
                c.append(("conditional", cnd.recipe, r, ("t", "z")))
                c.append(("conditional", cnd.recipe, r, ("t", "f")))
    l3 = level(c, 3, sample_every=10000)
    run.bounds.update(levels=[len(l0), len(l1), len(l2), len(l3)], terminals=sorted(U.t), modes=["real", "complex"])
    run.rule = (
        "every integrand recipe of the grammar; scalar closed integrands are submitted to compute_form_data in both modes; "
        "non-trivial = accepted integrands (each checked for homogeneity with factors 2, -3 (and i) and additivity in every argument)"
    )
    run.extra["accepted_and_multilinear"] = run.counters.get("accepted_and_multilinear", 0)
    run.nontrivial = max(run.nontrivial, 0)
    run.assumptions += ["one direction only: rejection of a multilinear integrand is never reported"]
    run.finish()


def replay(run, U, envs):
    with open(run.args.replay) as f:
        rp = json.load(f)

    def tup(x):
        return tuple(tup(y) for y in x) if isinstance(x, list) else x

    recipe = tup(rp["witness"]["recipe"])
    part = Part()
    check_recipe(recipe, U, envs, part, PID, extra_check=arity_check, compare=False)
    run.merge(part.dict())
    run.states = 1
    run.finish()
