"""C07 Geometry lowering computes the geometric quantities of the actual cell.

Every geometric quantity type x cell type (incl. immersed) x every facet x EVERY cell with vertex
coordinates on an integer grid: the expression produced by the real apply_geometry_lowering is evaluated
with the reference evaluator (which supplies only the Jacobian via x(X) jets, reference-cell tables and
CellOrientation) and compared with the quantity computed directly from the vertices.
"""

import itertools
import json

import ufl
from mc import envs as EV
from mc.runner import Part, Run, pmap
from mc.sem import sem as M
from mc.sem.cells import ConcreteCell
from mc.sem.fields import FieldData
from mc.sem.jet import Ambiguous, Undefined, mpf, set_order

PID = "C07"

CELL_Q = [
    "CellVolume",
    "Circumradius",
    "CellDiameter",
    "MinCellEdgeLength",
    "MaxCellEdgeLength",
    "JacobianInverse",
    "JacobianDeterminant",
    "Jacobian",
    "SpatialCoordinate",
    "CellCoordinate",
    "CellNormal",
]
FACET_Q = [
    "FacetArea",
    "FacetNormal",
    "FacetJacobian",
    "FacetJacobianInverse",
    "FacetJacobianDeterminant",
    "MinFacetEdgeLength",
    "MaxFacetEdgeLength",
]

MESHES = [("interval", 1), ("interval", 2), ("interval", 3), ("triangle", 2), ("triangle", 3), ("tetrahedron", 3)]


def vertex_grid(cellname, gdim, tier_quick):
    """All vertex tuples on the integer grid (first vertex also varied for small spaces)."""
    tdim = EV.TDIM[cellname]
    nv = tdim + 1
    ncoord = nv * gdim
    if ncoord <= 6:
        vals = [-1, 0, 1, 2] if not tier_quick or ncoord <= 4 else [0, 1, 2]
        for ent in itertools.product(vals, repeat=ncoord):
            yield [ent[k * gdim : (k + 1) * gdim] for k in range(nv)]
    else:
        # first vertex at two positions (origin and a shifted one), the others on {0,1,2}^gdim
        vals = [0, 1, 2]
        firsts = [(0,) * gdim] if tier_quick else [(0,) * gdim, (1, -1, 2)[:gdim]]
        rest = (nv - 1) * gdim
        if tier_quick and rest > 6:
            vals = [0, 1, 2]
        for f in firsts:
            for ent in itertools.product(vals, repeat=rest):
                if tier_quick and rest > 6 and (sum(ent) % 3 != 0):
                    # quick tier: a fixed third of the tetrahedron grid (stated in the evidence)
                    continue
                yield [f] + [tuple(f[i] + ent[k * gdim + i] for i in range(gdim)) for k in range(nv - 1)]


def lowered_table(cellname, gdim):
    """(quantity name, original terminal, lowered expression or exception name)."""
    from ufl.algorithms.apply_geometry_lowering import apply_geometry_lowering

    mesh = EV.mesh(cellname, gdim)
    tdim = EV.TDIM[cellname]
    out = []
    for qn in CELL_Q + FACET_Q:
        cls = getattr(ufl.classes, qn)
        try:
            q = cls(mesh)
            _ = q.ufl_shape
        except BaseException as e:  # noqa: BLE001
            out.append((qn, None, "construct:" + type(e).__name__))
            continue
        try:
            import warnings

            with warnings.catch_warnings():
                warnings.simplefilter("ignore")
                # lower everything (also CellCoordinate, which integrals preserve automatically)
                low = apply_geometry_lowering(q, ())
        except BaseException as e:  # noqa: BLE001
            if isinstance(e, (KeyboardInterrupt, SystemExit, MemoryError)):
                raise
            out.append((qn, q, "lowering:" + type(e).__name__))
            continue
        out.append((qn, q, low))
    return out


def work(items):
    part = Part()
    set_order(1)
    tables = {}
    for cellname, gdim, verts in items:
        key = (cellname, gdim)
        if key not in tables:
            tables[key] = lowered_table(cellname, gdim)
        tdim = EV.TDIM[cellname]
        orientations = [1, -1] if gdim > tdim else [1]
        for ori in orientations:
            try:
                cell = ConcreteCell(cellname, verts, orientation=ori)
            except Undefined:
                part.count("degenerate_cells")
                continue
            part.inc("states")
            nontriv = False
            for f in range(tdim + 1):
                X0 = list(cell.facet_point(f, EV.facet_bary(tdim, f)))
                env = M.Env(cell, X0, facet=f, fields=FieldData(), name="grid")
                for qn, q, low in tables[key]:
                    if q is None or isinstance(low, str):
                        if f == 0 and ori == 1:
                            part.error(f"{qn}@{cellname}{gdim}:{low}")
                        continue
                    if qn in CELL_Q and f > 0:
                        continue
                    if low is q and qn not in ("SpatialCoordinate", "Jacobian"):
                        part.count(f"not_lowered:{qn}@{cellname}{gdim}")
                        continue
                    part.inc("transitions")
                    ctx1 = M.Ctx(env)
                    ctx2 = M.Ctx(env)
                    try:
                        ref = M.sem(q, ctx1, {})
                        val = M.sem(low, ctx2, {})
                    except Ambiguous:
                        part.count("ambiguous")
                        continue
                    except Undefined as e:
                        part.count("model_undefined")
                        continue
                    part.inc("validated")
                    if not M.values_close(val, ref, mpf("1e-12")):
                        vl = [[int(x) for x in v] for v in verts]
                        part.violation(
                            f"{PID}:{qn}@{cellname}{gdim}:facet{f}:ori{ori}:{vl}",
                            f"lowered {qn} differs from the vertex geometry on {cellname} (gdim {gdim}) {vl} facet {f}",
                            {
                                "quantity": qn,
                                "cell": cellname,
                                "gdim": gdim,
                                "vertices": vl,
                                "facet": f,
                                "orientation": ori,
                                "from_vertices": M.show(ref),
                                "lowered": M.show(val),
                                "lowered_expr": str(low)[:1500],
                            },
                        )
                    else:
                        nontriv = True
                        part.outcome((qn, cellname, gdim))
            if nontriv:
                part.inc("nontrivial")
    return part.dict()


def main(argv):
    run = Run(PID, argv)
    quick = not run.thorough()
    if run.args.replay:
        return replay(run)
    items = []
    counts = {}
    for cellname, gdim in MESHES:
        n = 0
        for verts in vertex_grid(cellname, gdim, quick):
            items.append((cellname, gdim, [tuple(v) for v in verts]))
            n += 1
        counts[f"{cellname}{gdim}d"] = n
    run.bounds["cells_per_mesh"] = counts
    run.sample({"cell": items[len(items) // 2][0], "gdim": items[len(items) // 2][1], "vertices": items[len(items) // 2][2]})
    run.sample({"cell": items[-1][0], "gdim": items[-1][1], "vertices": items[-1][2]})
    for d in pmap(work, items, seed=run.seed, chunks_per_proc=8):
        run.merge(d)
    run.bounds.update(
        quantities=CELL_Q + FACET_Q,
        grid="vertex coordinates: all of {-1,0,1,2}^n for <= 6 coordinates (quick: {0,1,2} when n > 4); tetrahedron: first vertex fixed "
        "(thorough: two positions), others on {0,1,2}^3 (quick: the third with coordinate sum = 0 mod 3); degenerate cells skipped and counted; "
        "both CellOrientation values on immersed cells; every facet",
    )
    run.rule = "one state per non-degenerate (cell, orientation); every quantity x facet compared; non-trivial = at least one quantity compared"
    run.assumptions += [
        "FEniCS/basix reference-cell tables (vertex, edge, facet numbering, reference normals, reference facet Jacobians)",
        "on immersed manifolds JacobianDeterminant carries the CellOrientation sign (UFL convention)",
        "ridge quantities are not covered",
    ]
    run.finish()


def replay(run):
    with open(run.args.replay) as f:
        w = json.load(f)["witness"]
    d = work([(w["cell"], w["gdim"], [tuple(v) for v in w["vertices"]])])
    run.merge(d)
    run.finish()
