"""C02 Gateaux derivatives are the true directional derivatives.

BFS over differentiable integrand recipes F x a complete list of differentiation configurations (whole
coefficient, fixed component, tuple with automatically created mixed argument, mixed coefficient and its
split parts, list tensor of components; directions Argument / Coefficient / expression; user supplied
coefficient_derivatives; second derivatives).  For each pair the real derivative() + expand_derivatives is
executed and compared with the tau-coefficient of Sem(F) evaluated with the coefficient perturbed by
tau * direction (jets) - the definition of the Gateaux derivative, computed on the undifferentiated F.
"""

import json

import numpy as np

import ufl
from mc import elements as E
from mc import envs as EV
from mc.explore import check_recipe, dedup, run_level
from mc.runner import Part, Run
from mc.sem import lang as L
from mc.sem import sem as M
from mc.sem.jet import Ambiguous, Jet, Undefined, fresh_tau, mpf, set_order
from mc.sem.cells import zeros

PID = "C02"


def universe():
    m = EV.mesh("triangle")
    S2 = ufl.FunctionSpace(m, E.P("triangle", 2))
    V2 = ufl.FunctionSpace(m, E.P("triangle", 2, (2,)))
    MX = ufl.FunctionSpace(m, E.Mixed([E.P("triangle", 2, (2,)), E.P("triangle", 1)]))
    T1 = ufl.FunctionSpace(m, E.P("triangle", 1, (2, 2)))
    t = {
        "w": ufl.Coefficient(S2),
        "W": ufl.Coefficient(V2),
        "M": ufl.Coefficient(MX),
        "T": ufl.Coefficient(T1),
        "f": ufl.Coefficient(S2),
        "g": ufl.Coefficient(S2),
        "c": ufl.Constant(m),
        "x": ufl.SpatialCoordinate(m),
        "two": ufl.as_ufl(2),
    }
    U = L.Universe(t)
    U.spaces = {"S": S2, "V": V2, "MX": MX}
    U.args = {
        "dv": ufl.Argument(S2, 0),
        "dv2": ufl.Argument(S2, 1),
        "dV": ufl.Argument(V2, 0),
        "dM": ufl.Argument(MX, 0),
        "dT": ufl.Argument(T1, 0),
    }
    return U


SCALAR_FNS = ["sqrt", "exp", "ln", "sin", "cos", "tan", "sinh", "cosh", "tanh", "asin", "acos", "atan", "erf", "abs", "conj", "real", "imag"]


def full_dir(U, coef, comp_dirs):
    """Direction array for a whole coefficient: comp_dirs maps component tuple -> ufl expr (scalar)."""

    def f(ctx):
        out = zeros(coef.ufl_shape)
        for comp, e in comp_dirs.items():
            out[comp] = M.sem(e, ctx, {})
        return out

    return f


def expr_dir(e):
    return lambda ctx: M.sem(e, ctx, {})


def configs(U, quick):
    """(name, builder(Fobj) -> derivative object, pert builder -> dict coef -> [dirfn,...], order of tau extraction)."""
    t, a = U.t, U.args
    w, W, Mx, f, g, T = t["w"], t["W"], t["M"], t["f"], t["g"], t["T"]
    dv, dv2, dV, dM, dT = a["dv"], a["dv2"], a["dV"], a["dM"], a["dT"]
    cf = []
    # fixed components of a rank-2 coefficient (the direction is assembled as a nested list of zeros)
    cf.append(("d/dT[dT]", lambda F: ufl.derivative(F, T, dT), [{T: expr_dir(dT)}]))
    cf.append(("d/dT[0,1][dv]", lambda F: ufl.derivative(F, T[0, 1], dv), [{T: full_dir(U, T, {(0, 1): dv})}]))
    cf.append(("d/dT[1,0][g]", lambda F: ufl.derivative(F, T[1, 0], g), [{T: full_dir(U, T, {(1, 0): g})}]))
    cf.append(
        (
            "d/d(T[1,1],T[0,1])[(dv,g)]",
            lambda F: ufl.derivative(F, (T[1, 1], T[0, 1]), (dv, g)),
            [{T: full_dir(U, T, {(1, 1): dv, (0, 1): g})}],
        )
    )
    cf.append(("d/dw[dv]", lambda F: ufl.derivative(F, w, dv), [{w: expr_dir(dv)}]))
    cf.append(("d/dw[g]", lambda F: ufl.derivative(F, w, g), [{w: expr_dir(g)}]))
    cf.append(("d/dw[2*g*f]", lambda F: ufl.derivative(F, w, 2 * g * f), [{w: expr_dir(2 * g * f)}]))
    cf.append(("d/dW[dV]", lambda F: ufl.derivative(F, W, dV), [{W: expr_dir(dV)}]))
    cf.append(("d/dW[0][dv]", lambda F: ufl.derivative(F, W[0], dv), [{W: full_dir(U, W, {(0,): dv})}]))
    cf.append(("d/dW[1][g]", lambda F: ufl.derivative(F, W[1], g), [{W: full_dir(U, W, {(1,): g})}]))
    cf.append(
        (
            "d/d(W[1],W[0])[(dv,g)]",
            lambda F: ufl.derivative(F, (W[1], W[0]), (dv, g)),
            [{W: full_dir(U, W, {(1,): dv, (0,): g})}],
        )
    )
    cf.append(
        (
            "d/das_vector(W)[dV]",
            lambda F: ufl.derivative(F, ufl.as_vector([W[0], W[1]]), dV),
            [{W: expr_dir(dV)}],
        )
    )
    # tuples of distinct same-shape coefficients, listed in and out of creation order (w was created before f and g)
    cf.append(("d/d(w,f)[(dv,g)]", lambda F: ufl.derivative(F, (w, f), (dv, g)), [{w: expr_dir(dv), f: expr_dir(g)}]))
    cf.append(("d/d(f,w)[(dv,g)]", lambda F: ufl.derivative(F, (f, w), (dv, g)), [{f: expr_dir(dv), w: expr_dir(g)}]))
    cf.append(("d/d(g,f,w)[(dv,w,2*dv)]", lambda F: ufl.derivative(F, (g, f, w), (dv, w, 2 * dv)), [{g: expr_dir(dv), f: expr_dir(w), w: expr_dir(2 * dv)}]))
    cf.append(("d/d(w,W)[(dv,dV)]", lambda F: ufl.derivative(F, (w, W), (dv, dV)), [{w: expr_dir(dv), W: expr_dir(dV)}]))
    cf.append(("d/d(w,W)[dM]", lambda F: ufl.derivative(F, (W, w), dM), [{W: expr_dir(ufl.as_vector([dM[0], dM[1]])), w: expr_dir(dM[2])}]))
    cf.append(("d/dM[dM]", lambda F: ufl.derivative(F, Mx, dM), [{Mx: expr_dir(dM)}]))
    cf.append(
        (
            "d/dsplit(M)[0][dV]",
            lambda F: ufl.derivative(F, ufl.split(Mx)[0], dV),
            [{Mx: full_dir(U, Mx, {(0,): dV[0], (1,): dV[1]})}],
        )
    )
    cf.append(("d/dsplit(M)[1][dv]", lambda F: ufl.derivative(F, ufl.split(Mx)[1], dv), [{Mx: full_dir(U, Mx, {(2,): dv})}]))
    # user supplied coefficient derivative relations: f depends on w with df/dw = g (resp. an expression)
    cf.append(
        (
            "d/dw[dv]{f:g}",
            lambda F: ufl.derivative(F, w, dv, coefficient_derivatives={f: g}),
            [{w: expr_dir(dv), f: expr_dir(g * dv)}],
        )
    )
    cf.append(
        (
            "d/dw[dv]{f:2*w*g}",
            lambda F: ufl.derivative(F, w, dv, coefficient_derivatives={f: 2 * w * g}),
            [{w: expr_dir(dv), f: expr_dir(2 * w * g * dv)}],
        )
    )
    cf.append(
        (
            "d/dW[dV]{f:grad(g)}",
            lambda F: ufl.derivative(F, W, dV, coefficient_derivatives={f: ufl.grad(g)}),
            [{W: expr_dir(dV), f: expr_dir(ufl.dot(ufl.grad(g), dV))}],
        )
    )
    # two derivative nodes with the same coefficient and direction but different user relations in one expansion
    cf.append(
        (
            "d/dw[dv]{f:g} + d/dw[dv]{f:2*w*g}",
            lambda F: ufl.derivative(F, w, dv, coefficient_derivatives={f: g}) + ufl.derivative(F, w, dv, coefficient_derivatives={f: 2 * w * g}),
            ("sum", [[{w: expr_dir(dv), f: expr_dir(g * dv)}], [{w: expr_dir(dv), f: expr_dir(2 * w * g * dv)}]]),
        )
    )
    cf.append(
        (
            "d/dw[dv]{f:2*w*g} + d/dw[dv] + d/dw[dv]{f:g}",
            lambda F: ufl.derivative(F, w, dv, coefficient_derivatives={f: 2 * w * g})
            + ufl.derivative(F, w, dv)
            + ufl.derivative(F, w, dv, coefficient_derivatives={f: g}),
            ("sum", [[{w: expr_dir(dv), f: expr_dir(2 * w * g * dv)}], [{w: expr_dir(dv)}], [{w: expr_dir(dv), f: expr_dir(g * dv)}]]),
        )
    )
    # second derivatives
    cf.append(
        (
            "d2/dw[dv]dw[dv2]",
            lambda F: ufl.derivative(ufl.derivative(F, w, dv), w, dv2),
            [{w: expr_dir(dv)}, {w: expr_dir(dv2)}],
        )
    )
    cf.append(
        (
            "d2/dw[dv]dW[dV]",
            lambda F: ufl.derivative(ufl.derivative(F, w, dv2), W, dV),
            [{w: expr_dir(dv2)}, {W: expr_dir(dV)}],
        )
    )
    cf.append(
        (
            "d2/dW[0][dv]dW[g*dV]",
            lambda F: ufl.derivative(ufl.derivative(F, W[0], dv), W, g * dV),
            [{W: full_dir(U, W, {(0,): dv})}, {W: expr_dir(g * dV)}],
        )
    )
    return cf


def model_derivative(F, perts, env, rho=None):
    """tau-coefficient(s) of Sem(F) with every coefficient perturbed as in perts (list = nested derivatives)."""
    taus = []
    pert = {}
    for level_p in perts:
        tau = fresh_tau()
        taus.append(tau)
        for coef, dirfn in level_p.items():
            pert.setdefault(coef, []).append((tau, dirfn))
    base = M.Ctx(env)

    # directions are evaluated in the unperturbed context
    def wrap(dirfn):
        return lambda c: dirfn(base)

    pert = {k: [(t, wrap(d)) for t, d in v] for k, v in pert.items()}
    ctx = M.Ctx(env, pert=pert)
    out = {}
    for r in M.free_index_assignments(F):
        v = M.sem(F, ctx, r)
        for tau in taus:
            v = M.tmap(lambda x, tau=tau: M._tau_coeff(x, tau), v)
        out[tuple(sorted(r.items()))] = v
    return out


def make_check(cfgs):
    def deriv_check(recipe, obj, lts, ctxs, envs, part, U):
        from ufl.algorithms import expand_derivatives
        from ufl.algorithms.analysis import extract_coefficients

        key = L.show_recipe(recipe)
        if obj.ufl_free_indices:
            return None
        coefs = set(extract_coefficients(obj))
        ok = True
        for name, build, perts in cfgs:
            involved = set()
            alts = perts[1] if isinstance(perts, tuple) else [perts]
            for alt in alts:
                for p in alt:
                    involved |= set(p)
            depends = bool(coefs & involved)
            part.inc("transitions")
            wit = {"recipe": recipe, "show": key, "config": name, "F": repr(obj)[:1000]}
            try:
                D = build(obj)
                ed = expand_derivatives(D)
            except BaseException as e:  # noqa: BLE001
                if isinstance(e, (KeyboardInterrupt, SystemExit, MemoryError)):
                    raise
                part.error(f"{type(e).__name__}")
                part.count("rejected:" + name)
                continue
            if tuple(ed.ufl_shape) != tuple(obj.ufl_shape) or ed.ufl_free_indices:
                part.violation(
                    f"{PID}:{name}:shape:{key}",
                    f"derivative {name} of {key} has shape {tuple(ed.ufl_shape)} / free indices {ed.ufl_free_indices}, expected {tuple(obj.ufl_shape)}",
                    dict(wit, after=repr(ed)[:1500]),
                )
                ok = False
                continue
            for env in envs:
                try:
                    ref = None
                    for alt in alts:
                        r1 = model_derivative(obj, alt, env)[()]
                        ref = r1 if ref is None else M.tzip(lambda a, b: a + b, ref, r1)
                    val = M.sem(ed, M.Ctx(env), {})
                except Ambiguous:
                    part.count("ambiguous_env")
                    continue
                except Undefined:
                    part.count("model_undefined_env")
                    continue
                part.inc("validated")
                if not M.values_close(val, ref, mpf("1e-9")):
                    part.violation(
                        f"{PID}:{name}:{key}",
                        f"expanded derivative {name} of {key} differs from d/dtau F(w + tau v)",
                        dict(wit, env=env.describe(), model=M.show(ref), ufl=M.show(val), after=repr(ed)[:1500]),
                    )
                    ok = False
                    break
                if depends:
                    part.count("nontrivial_pairs")
        return None if ok else "VIOLATION"

    return deriv_check


def main(argv):
    run = Run(PID, argv)
    quick = not run.thorough()
    set_order(2)
    U = universe()
    envs = EV.cell_envs("triangle", complex_too=True, n=1 if quick else 2)
    cfgs = configs(U, quick)
    if run.args.replay:
        return replay(run, U, envs, cfgs)
    seen = set()
    chk = make_check(cfgs)

    def level(cands, lvl, sample_every=0):
        import sys
        import time

        cands = sorted(set(cands), key=repr)
        if run.smoke:
            cands = cands[:: max(1, len(cands) // 60)]
            run.exhaustive = False
        print(f"[{PID}] level {lvl}: {len(cands)} candidates t={time.time() - run.t0:.0f}s", file=sys.stderr)
        run.bounds[f"level{lvl}_candidates"] = len(cands)
        new = run_level(cands, U, envs, PID, run, run.seed, extra_check=chk, compare=False, sample_every=sample_every)
        sts, _ = dedup(new, seen, lvl, run)
        return sts

    l0 = level([("t", n) for n in U.t], 0)
    by = {s.recipe[1]: s for s in l0}
    c = []
    # level 1: every operator class of the derivative rulesets at least once on the differentiation coefficients
    for nm in ("w", "f"):
        r = ("t", nm)
        for fn in SCALAR_FNS:
            c.append((fn, r))
        for nu in (0, 1, 2):
            for b in ("J", "Y", "I", "K"):
                c.append(("bessel_" + b, r, nu))
        c += [("neg", r), ("pow", r, ("num", 2)), ("pow", r, ("num", 3)), ("pow", r, ("num", 0.5)), ("pow", r, ("num", -1)),
              ("pow", ("num", 2), r), ("pow", r, r), ("div", ("num", 1), r), ("sign", r),
              ("grad", r), ("dx", r, 0), ("dx", r, 1), ("curl", r), ("nabla_grad", r)]
    for nm in ("W", "M"):
        r = ("t", nm)
        c += [("getitem", r, 0), ("getitem", r, 1), ("neg", r), ("grad", r), ("divg", r) if nm == "W" else ("getitem", r, 2),
              ("nabla_grad", r), ("curl", r), ("dx", r, 0), ("inner", r, r), ("outer", r, r), ("dot", r, r), ("perp", r) if nm == "W" else ("abs", r),
              ("pow", r, ("num", 2)), ("abs", r), ("getitem", r, "i")]
    rT = ("t", "T")
    c += [("getitem", rT, 0, 1), ("getitem", rT, 1, 0), ("getitem", rT, 1, 1), ("getitem", rT, "i", "i"), ("inner", rT, rT), ("det", rT), ("tr", rT),
          ("inv", rT), ("transpose", rT), ("dot", rT, ("t", "W")), ("dot", ("t", "W"), rT), ("grad", rT), ("divg", rT), ("mul", ("t", "w"), rT),
          ("mul", ("getitem", rT, 0, 1), ("getitem", rT, 1, 0)), ("mul", ("getitem", rT, 0, 1), ("t", "w"))]
    names = ["w", "W", "M", "f", "g", "c", "x"]
    for a in names:
        for b in names:
            for op in ("add", "sub", "mul", "div", "pow", "dot", "inner", "outer", "atan2", "max_value", "min_value", "elem_mult"):
                c.append((op, ("t", a), ("t", b)))
    c.append(("conditional", ("lt", ("t", "w"), ("t", "f")), ("t", "w"), ("mul", ("t", "w"), ("t", "f"))))
    c.append(("conditional", ("gt", ("t", "w"), ("num", 0.3)), ("mul", ("t", "w"), ("t", "w")), ("t", "g")))
    c.append(("conditional", ("eq", ("t", "c"), ("t", "c")), ("t", "w"), ("t", "g")))
    c.append(("as_vector", ("t", "w"), ("t", "f")))
    c.append(("as_vector", ("getitem", ("t", "W"), 1), ("t", "w")))
    l1 = level(c, 1, sample_every=25)
    # level 2: unary on level 1, binary level 1 x terminal (both orders)
    c = []
    fns2 = SCALAR_FNS if not quick else ["sqrt", "exp", "ln", "sin", "abs", "conj"]
    partners = ["w", "W", "f", "x"] if quick else ["w", "W", "M", "f", "x"]
    bops = ("mul", "add", "div", "dot", "inner") if quick else ("mul", "add", "sub", "div", "dot", "inner")
    for s in l1:
        if s.cond or s.fid:
            continue
        r = s.recipe
        if s.rank == 0:
            for fn in fns2:
                c.append((fn, r))
            c += [("pow", r, ("num", 2)), ("pow", r, ("num", -1)), ("grad", r), ("dx", r, 0)]
        else:
            c += [("grad", r), ("getitem", r) + (0,) * s.rank, ("inner", r, r)]
            if s.rank == 2 and s.shape[0] == s.shape[1]:
                c += [("tr", r), ("det", r), ("inv", r), ("transpose", r), ("sym", r), ("dev", r), ("cofac", r)]
            if s.rank == 1:
                c += [("divg", r)]
        for b in partners:
            for op in bops:
                c.append((op, r, ("t", b)))
                c.append((op, ("t", b), r))
    l2 = level(c, 2, sample_every=2000)
    levels = [l0, l1, l2]
    if not quick:
        c = []
        for s in sorted(l2, key=lambda s: (len(repr(s.recipe)), repr(s.recipe)))[:1200]:
            if s.cond or s.fid:
                continue
            r = s.recipe
            if s.rank == 0:
                for fn in ["sqrt", "exp", "ln", "sin", "abs"]:
                    c.append((fn, r))
            for b in ["w", "W"]:
                for op in ("mul", "dot", "div"):
                    c.append((op, r, ("t", b)))
        l3 = level(c, 3, sample_every=20000)
        levels.append(l3)
    run.bounds.update(
        levels=[len(x) for x in levels],
        configurations=[n for n, _, _ in cfgs],
        terminals=sorted(U.t),
        envs=[e.name for e in envs],
        grammar="level 1: every math function (incl. Bessel, erf, atan2), powers, abs/sign/conj/real/imag, min/max, conditionals, indexing, tensor algebra, "
        "spatial derivatives on the differentiation coefficients and all terminal pairs; level 2: unary on level 1 and level 1 x terminal (both orders); "
        "(thorough) level 3 comb",
    )
    run.rule = "every F of the grammar x every configuration; state = distinct repr of F; non-trivial = model value of F not identically zero"
    run.extra["pairs_depending_on_target"] = run.counters.get("nontrivial_pairs", 0)
    run.assumptions += [
        "Gateaux derivative defined as the first-order tau coefficient of Sem(F) under w -> w + tau v (jets), coefficient_derivatives f -> f + tau (df/dw : v)",
        "kinks (abs, sign, min/max, conditionals) are excluded when within 1e-6 of the switching surface",
    ]
    run.finish()


def replay(run, U, envs, cfgs):
    with open(run.args.replay) as f:
        rp = json.load(f)

    def tup(x):
        return tuple(tup(y) for y in x) if isinstance(x, list) else x

    recipe = tup(rp["witness"]["recipe"])
    part = Part()
    check_recipe(recipe, U, envs, part, PID, extra_check=make_check(cfgs), compare=False)
    run.merge(part.dict())
    run.states = 1
    run.finish()
