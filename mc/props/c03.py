"""C03 Spatial derivatives are lowered to exact derivatives of terminals.

BFS over recipes f (arithmetic, math functions, index notation, tensor algebra, geometric terminals) with
every spatial derivative operator applied (nested up to 2, thorough 3).  On every state the real
expand_derivatives (algebra lowering + apply_derivatives) is executed and (i) its result contains
derivatives of terminals only and no compound derivative, (ii) its value equals the true derivative of
Sem(f) computed by the model through jets (K^T d/dX on the power series of the undifferentiated f).
"""

import json

import ufl
from mc import elements as E
from mc import envs as EV
from mc import passes as P
from mc.explore import check_recipe, dedup, run_level
from mc.runner import Part, Run
from mc.sem import lang as L
from mc.sem.jet import set_order

PID = "C03"


def universe(cellname):
    m = EV.mesh(cellname)
    g = m.geometric_dimension
    S = ufl.FunctionSpace(m, E.P(cellname, 3))
    V = ufl.FunctionSpace(m, E.P(cellname, 3, (g,)))
    T = ufl.FunctionSpace(m, E.P(cellname, 2, (g, g)))
    R = ufl.FunctionSpace(m, E.RT(cellname, 2))
    t = {
        "f": ufl.Coefficient(S),
        "g": ufl.Coefficient(S),
        "v": ufl.Coefficient(V),
        "A": ufl.Coefficient(T),
        "r": ufl.Coefficient(R),
        "c": ufl.Constant(m),
        "x": ufl.SpatialCoordinate(m),
        "X": ufl.classes.CellCoordinate(m),
        "J": ufl.Jacobian(m),
        "K": ufl.JacobianInverse(m),
        "detJ": ufl.JacobianDeterminant(m),
        "vol": ufl.CellVolume(m),
        "two": ufl.as_ufl(2),
    }
    return L.Universe(t)


SCALAR_FNS = ["sqrt", "exp", "ln", "sin", "cos", "tan", "sinh", "cosh", "tanh", "asin", "acos", "atan", "erf", "abs"]
D_OPS = ["grad", "nabla_grad", "divg", "nabla_div", "curl"]


def d_cands(st, g):
    r = st.recipe
    out = [("grad", r), ("nabla_grad", r), ("curl", r)]
    if st.rank >= 1:
        out += [("divg", r), ("nabla_div", r)]
    for k in range(g):
        out.append(("dx", r, k))
    out.append(("dx", r, "i"))
    if st.rank >= 1:
        # f[..., i].dx(i)-style repeated index through indexing first
        pass
    return out


def structure_ok(o):
    """None if derivatives act only on terminals (through Grad/ReferenceGrad/ReferenceValue chains)."""
    from ufl.classes import (
        CoefficientDerivative,
        CompoundDerivative,
        Grad,
        ReferenceGrad,
        ReferenceValue,
        Terminal,
        VariableDerivative,
    )
    from ufl.corealg.traversal import unique_pre_traversal

    for n in unique_pre_traversal(o):
        if isinstance(n, (Grad, ReferenceGrad)):
            (op,) = n.ufl_operands
            if not isinstance(op, (Terminal, Grad, ReferenceGrad, ReferenceValue)):
                return f"{type(n).__name__} applied to {type(op).__name__}"
        elif isinstance(n, CompoundDerivative):
            return f"compound derivative {type(n).__name__} left"
        elif isinstance(n, (CoefficientDerivative, VariableDerivative)):
            return f"{type(n).__name__} left"
    return None


def make_check(only_derivs=True):
    def pass_check(recipe, obj, lts, ctxs, envs, part, U):
        from ufl.algorithms import expand_derivatives

        if only_derivs and not has_derivative(recipe):
            return None
        key = L.show_recipe(recipe)
        wit = {"recipe": recipe, "show": key, "before": repr(obj)[:1200]}
        part.inc("transitions")
        try:
            ed = expand_derivatives(obj)
        except BaseException as e:  # noqa: BLE001
            if isinstance(e, (KeyboardInterrupt, SystemExit, MemoryError)):
                raise
            part.error("expand_derivatives:" + type(e).__name__)
            return None
        bad = structure_ok(ed)
        if bad:
            part.violation(f"{PID}:structure:{key}", f"after expansion: {bad} in {key}", dict(wit, after=repr(ed)[:1500]))
            return "VIOLATION"
        ok = P.check_pass("expand_derivatives", obj, ed, envs, part, PID, key, wit)
        return None if ok else "VIOLATION"

    return pass_check


def has_derivative(r):
    if not isinstance(r, tuple):
        return False
    if r[0] in D_OPS or r[0] == "dx":
        return True
    return any(has_derivative(x) for x in r[1:])


def explore_mesh(run, cellname, quick):
    U = universe(cellname)
    g = EV.TDIM[cellname]
    envs = EV.cell_envs(cellname, n=1)
    seen = set()
    chk = make_check()

    def level(cands, lvl, sample_every=0):
        import sys
        import time

        cands = sorted(set(cands), key=repr)
        if run.smoke:
            cands = cands[:: max(1, len(cands) // 150)]
            run.exhaustive = False
        print(f"[{PID}] {cellname} level {lvl}: {len(cands)} candidates t={time.time() - run.t0:.0f}s", file=sys.stderr)
        run.bounds[f"{cellname}:level{lvl}_candidates"] = len(cands)
        new = run_level(cands, U, envs, PID, run, run.seed, extra_check=chk, sample_every=sample_every)
        sts, _ = dedup(new, seen, lvl, run)
        return sts

    l0 = level([("t", n) for n in U.t], 0)
    # level 1: scalar functions, indexing, arithmetic/tensor algebra on terminal pairs
    c = []
    idx = {1: [(0,), ("i",)], 2: [(0, 1), ("i", "i"), (0, "i"), ("i", 0), ("i", "j"), (":", 0)]}
    for s in l0:
        if s.rank == 0:
            for fn in SCALAR_FNS:
                c.append((fn, s.recipe))
            c.append(("neg", s.recipe))
            c.append(("pow", s.recipe, ("num", 2)))
            c.append(("pow", s.recipe, ("num", 0.5)))
            c.append(("pow", s.recipe, ("num", -1)))
            c.append(("pow", ("num", 2), s.recipe))
            c.append(("div", ("num", 1), s.recipe))
        for comp in idx.get(s.rank, []):
            c.append(("getitem", s.recipe) + comp)
        if s.rank == 2:
            for op in ("tr", "det", "inv", "transpose", "sym", "dev"):
                c.append((op, s.recipe))
    names = [s for s in l0 if s.recipe[1] in ("f", "g", "v", "A", "r", "x", "c", "detJ", "K")]
    for a in names:
        for b in names:
            for op in ("add", "mul", "div", "dot", "inner", "outer", "pow"):
                c.append((op, a.recipe, b.recipe))
    c.append(("conditional", ("lt", ("t", "f"), ("t", "g")), ("t", "f"), ("t", "g")))
    c.append(("conditional", ("gt", ("t", "f"), ("num", 0.25)), ("mul", ("t", "f"), ("t", "g")), ("t", "g")))
    c.append(("max_value", ("t", "f"), ("t", "g")))
    c.append(("min_value", ("mul", ("t", "f"), ("t", "f")), ("t", "g")))
    if g == 3:
        c.append(("cross", ("t", "v"), ("t", "r")))
        c.append(("cross", ("t", "x"), ("t", "v")))
    l1 = level(c, 1)
    # level 2 (comb): scalar functions of level-1 scalars, products of level-1 with a terminal
    c = []
    for s in l1:
        if s.cond or s.fid:
            continue
        if s.rank == 0:
            for fn in SCALAR_FNS if not quick else ["sqrt", "exp", "sin", "ln", "abs"]:
                c.append((fn, s.recipe))
        for b in [x for x in l0 if x.recipe[1] in (("f", "v", "x") if quick else ("f", "v", "A", "x"))]:
            for op in ("mul", "add", "dot") if quick else ("mul", "add", "div", "dot"):
                c.append((op, s.recipe, b.recipe))
    l2 = level(c, 2, sample_every=300)
    # derivative levels: every derivative operator on every state (no free indices left over from 'i')
    l2q = sorted(l2, key=lambda s: (len(repr(s.recipe)), repr(s.recipe)))[: (400 if quick else 900)]
    base = [s for s in l0 + l1 + l2q if not s.cond and not s.fid]
    c = []
    for s in base:
        c += d_cands(s, g)
    d1 = level(c, 3, sample_every=500)
    c = []
    src = [s for s in d1 if not s.fid]
    # second derivatives: the first-derivative states with the shortest recipes (3D: fewer, order-3/4 jets in three
    # variables dominate the cost); differentiating all of them does not finish in an hour
    ncap = (1500 if g == 2 else 450) if quick else (3000 if g == 2 else 900)
    src = sorted(src, key=lambda s: (len(repr(s.recipe)), repr(s.recipe)))[:ncap]
    for s in src:
        c += d_cands(s, g)
    # products of derivatives with terminals, then differentiated again (product rule on derivatives)
    for s in [s for s in d1 if not s.fid][: ((200 if g == 2 else 60) if quick else (400 if g == 2 else 120))]:
        c.append(("grad", ("mul", ("t", "f"), s.recipe)))
        if s.rank >= 1:
            c.append(("divg", ("mul", ("t", "f"), s.recipe)))
    d2 = level(c, 4, sample_every=3000)
    levels = [l0, l1, l2, d1, d2]
    if not quick:
        c = []
        for s in sorted([s for s in d2 if not s.fid], key=lambda s: (len(repr(s.recipe)), repr(s.recipe)))[:300]:
            c += [("grad", s.recipe), ("dx", s.recipe, 0)] + ([("divg", s.recipe)] if s.rank else [])
        d3 = level(c, 5, sample_every=10000)
        levels.append(d3)
    run.bounds[f"{cellname}:levels"] = [len(x) for x in levels]
    return U


def main(argv):
    run = Run(PID, argv)
    quick = not run.thorough()
    set_order(3 if quick else 4)
    if run.args.replay:
        return replay(run)
    for cellname in ["triangle", "tetrahedron"] if not quick else ["triangle", "tetrahedron"]:
        explore_mesh(run, cellname, quick)
    run.bounds.update(
        grammar="levels 0-2: terminals (coefficients P3 scalar/vector, P2 tensor, RT2, constants, x, X, J, K, detJ, CellVolume), all math functions, powers, "
        "indexing, tensor algebra, conditionals (level 2: comb with terminals); then every derivative operator (grad, nabla_grad, div, nabla_div, curl, "
        ".dx(k), .dx(i)) nested twice (thorough: three times), and derivatives of products with derivatives",
        cells=["triangle 2D", "tetrahedron 3D"],
    )
    run.rule = (
        "every recipe of the stated grammar; state = distinct repr of the constructed object; expand_derivatives is run on every state that contains "
        "a derivative; non-trivial = model value not identically zero"
    )
    run.assumptions += [
        "immersed manifolds are excluded (UFL defines grad(x) = I there, the tangential gradient would be the projection J K; the statement is ambiguous)",
        "jets truncated at order 3 (quick) / 4 (thorough) >= derivative nesting depth",
    ]
    run.finish()


def replay(run):
    with open(run.args.replay) as f:
        rp = json.load(f)

    def tup(x):
        return tuple(tup(y) for y in x) if isinstance(x, list) else x

    recipe = tup(rp["witness"]["recipe"])
    part = Part()
    for cellname in ("triangle", "tetrahedron"):
        U = universe(cellname)
        envs = EV.cell_envs(cellname, n=2)
        check_recipe(recipe, U, envs, part, PID, extra_check=make_check())
    run.merge(part.dict())
    run.states = 1
    run.finish()
