"""C27 helper: non-perturbing observation ("snapshot") of UFL objects and of caller-owned data.

`observe(obj)` returns an ordered dict  field -> value  that contains only value data (no ids), so that
snapshots taken in different executions of the same history prefix can be compared.  Observation must not
change the observed object: every cache that UFL fills lazily (Expr._hash on every DAG node, the Form
cache slots) is saved before and restored after the observation, so a history sees exactly the cache
state that the events alone produced.

Fields
  digest fields ("lean"): computed by a harness-owned DAG walk (class names, every slot of every operator
      node except the operand tuple and the hash cache, repr/str of terminals), the per-integral header
      (integral type, subdomain id, domain, extra domain map), a deep value copy of the metadata, and the
      subdomain_data (which caller object it is + its deep state).
  fresh fields ("full"): values recomputed from scratch by UFL itself with all caches cleared:
      repr, str, hash, signature (Form._compute_signature -> compute_form_signature), arguments(),
      coefficients(), constants(), shape / free indices.
  raw cache fields: what UFL currently has cached (Form._signature, Form._hash, Form._arguments, ...,
      Expr._hash per node).  A cache entry may appear (None -> value) but a non-None cache entry must
      equal the freshly computed value ("stale cache" otherwise).
"""

import hashlib

import numpy as np

import ufl
from ufl.classes import Argument, Coefficient, Constant, Expr, Form, Integral
from ufl.form import BaseForm
from ufl.measure import Measure

MISSING = "<unset>"
REPR_CAP = 60000  # tree size (nodes counted with multiplicity) up to which literal repr()/str() are taken

FORM_CACHE_SLOTS = (
    "_arguments",
    "_coefficients",
    "_geometric_quantities",
    "_hash",
    "_signature",
    "_integration_domains",
    "_domain_numbering",
    "_subdomain_data",
    "_coefficient_numbering",
    "_constant_numbering",
    "_terminal_numbering",
    "_base_form_operators",
)


def sha(s):
    return hashlib.sha1(s.encode("utf-8", "replace")).hexdigest()[:16]


# -------------------------------------------------------------------------------------------------
# deep value state of caller-owned plain data (metadata dicts, subdomain data objects, mappings)
# -------------------------------------------------------------------------------------------------
class Namer:
    """Maps caller-owned objects (by identity) to stable names, so snapshots contain names, not ids."""

    def __init__(self):
        self.names = {}
        self.keep = []

    def add(self, name, obj):
        self.names[id(obj)] = name
        self.keep.append(obj)

    def name(self, obj):
        return self.names.get(id(obj))


def deep_state(x, namer=None, depth=0):
    """Canonical, id-free, recursively copied value of x (JSON-able nested lists)."""
    if depth > 12:
        return ["deep", type(x).__name__]
    if x is None or isinstance(x, (bool, int, float, str)):
        return [type(x).__name__, repr(x)]
    if isinstance(x, complex):
        return ["complex", repr(x)]
    if isinstance(x, dict):
        items = [(repr(k) if not isinstance(k, (Expr, BaseForm)) else "ufl:" + _safe_repr(k), k) for k in x]
        # keep insertion order visible as well: order of a dict is observable state
        return ["dict", [[r, deep_state(x[k], namer, depth + 1)] for r, k in items]]
    if isinstance(x, list):
        return ["list", [deep_state(v, namer, depth + 1) for v in x]]
    if isinstance(x, tuple):
        return ["tuple", [deep_state(v, namer, depth + 1) for v in x]]
    if isinstance(x, (set, frozenset)):
        return [type(x).__name__, sorted(repr(deep_state(v, namer, depth + 1)) for v in x)]
    if isinstance(x, np.ndarray):
        return ["ndarray", str(x.dtype), list(x.shape), x.tolist(), bool(x.flags.writeable)]
    if isinstance(x, np.generic):
        return ["npscalar", str(x.dtype), repr(x.item())]
    if isinstance(x, (Expr, BaseForm, Integral)):
        return ["ufl", type(x).__name__, _safe_repr(x)]
    if isinstance(x, Measure):
        return ["Measure", measure_state(x, namer)]
    nm = namer.name(x) if namer is not None else None
    d = getattr(x, "__dict__", None)
    if d is not None:
        return ["object", type(x).__name__, nm, deep_state(dict(d), namer, depth + 1)]
    return ["opaque", type(x).__name__, nm, _safe_repr(x) if nm is None else ""]


def _safe_repr(x):
    try:
        return repr(x)
    except RecursionError:
        return "!RecursionError"
    except Exception as e:  # noqa: BLE001
        return "!" + type(e).__name__


def measure_state(m, namer=None):
    return [
        m._integral_type,
        deep_state(m._subdomain_id),
        _safe_repr(m._domain),
        deep_state(m._metadata, namer),
        deep_state(m._subdomain_data, namer),
        [measure_state(k, namer) for k in m._intersect_measures],
    ]


# -------------------------------------------------------------------------------------------------
# expression DAG walk
# -------------------------------------------------------------------------------------------------
_SLOT_CACHE = {}


def _extra_slots(cls):
    r = _SLOT_CACHE.get(cls)
    if r is None:
        names = []
        for k in cls.__mro__:
            s = k.__dict__.get("__slots__", ())
            if isinstance(s, str):
                s = (s,)
            for n in s:
                if n not in ("ufl_operands", "_hash", "__weakref__", "__dict__") and n not in names:
                    names.append(n)
        r = tuple(names)
        _SLOT_CACHE[cls] = r
    return r


def dag_nodes(roots):
    """All Expr nodes reachable from roots through ufl_operands, children before parents, unique by id."""
    seen = set()
    out = []
    for root in roots:
        if id(root) in seen:
            continue
        stack = [(root, 0)]
        seen.add(id(root))
        while stack:
            node, k = stack[-1]
            ops = node.ufl_operands
            if k < len(ops):
                stack[-1] = (node, k + 1)
                c = ops[k]
                if isinstance(c, Expr) and id(c) not in seen:
                    seen.add(id(c))
                    stack.append((c, 0))
            else:
                out.append(node)
                stack.pop()
        if len(out) > 400000:
            raise RuntimeError("expression DAG too large for the harness")
    return out


def _slot_value(v, fps):
    if isinstance(v, Expr):
        return fps.get(id(v)) or ("E", _safe_repr(v))
    if isinstance(v, (tuple, list)):
        return tuple(_slot_value(x, fps) for x in v)
    if isinstance(v, dict):
        return tuple((_slot_value(k, fps), _slot_value(x, fps)) for k, x in v.items())
    if v is None or isinstance(v, (bool, int, float, str)):
        return (type(v).__name__, v) if not isinstance(v, float) else ("float", repr(v))
    return ("R", _safe_repr(v))


def terminal_fp(node):
    parts = [type(node).__name__, _safe_repr(node)]
    try:
        parts.append(str(node))
    except Exception as e:  # noqa: BLE001
        parts.append("!" + type(e).__name__)
    try:
        parts.append(tuple(node.ufl_shape))
    except Exception:  # noqa: BLE001  (MultiIndex has no shape)
        parts.append("noshape")
    if isinstance(node, (Coefficient, Constant)):
        parts.append(node.count())
    if isinstance(node, Argument):
        parts.append((node.number(), node.part()))
    if isinstance(node, (Coefficient, Argument)):
        parts.append(_safe_repr(node.ufl_function_space()))
    for s in _extra_slots(type(node)):
        if s in ("_repr",):
            continue
        try:
            parts.append((s, _slot_value(getattr(node, s), {})))
        except AttributeError:
            parts.append((s, MISSING))
    return tuple(parts)


def dag_fingerprints(nodes):
    """id(node) -> structural fingerprint (tuple hash); sizes: id -> tree size."""
    fps = {}
    size = {}
    for n in nodes:
        ops = n.ufl_operands
        if not ops and n._ufl_is_terminal_:
            fps[id(n)] = hash(("T",) + terminal_fp(n))
            size[id(n)] = 1
            continue
        parts = [type(n).__name__]
        for s in _extra_slots(type(n)):
            try:
                parts.append((s, _slot_value(getattr(n, s), fps)))
            except AttributeError:
                parts.append((s, MISSING))
        d = getattr(n, "__dict__", None)
        if d:
            # BaseFormOperators: value state only.  The Counted label (_count) is neither part of repr,
            # ==, hash nor of the signature, and Expr-valued entries are rendered by repr so that the
            # fingerprint does not depend on node identity.
            parts.append(
                tuple((k, _slot_value(v, {})) for k, v in sorted(d.items()) if k not in ("_hash", "_count", "_counted_class"))
            )
        sz = 1
        for c in ops:
            if isinstance(c, Expr):
                parts.append(fps[id(c)])
                sz += size[id(c)]
            else:
                parts.append(("nonexpr", _safe_repr(c)))
        fps[id(n)] = hash(tuple(parts))
        size[id(n)] = sz
    return fps, size


BF_CACHE_SLOTS = ("_arguments", "_coefficients", "_hash", "_domains", "_domain_numbering")


def _bf_slots(cls):
    out = []
    for k in cls.__mro__:
        sl = k.__dict__.get("__slots__", ())
        if isinstance(sl, str):
            sl = (sl,)
        for n in sl:
            if n not in ("__weakref__", "__dict__") and n not in BF_CACHE_SLOTS and n not in out:
                out.append(n)
    return out


def bf_structure(x, namer, visiting=None, depth=0):
    """Recursive, id-free structural description of a BaseForm tree (cycle safe)."""
    visiting = set() if visiting is None else visiting
    if isinstance(x, (tuple, list)):
        return [type(x).__name__] + [bf_structure(v, namer, visiting, depth + 1) for v in x]
    if isinstance(x, Form):
        o = observe(x, namer, full=False)
        return ["Form", sorted(o.lean.items())]
    if isinstance(x, Expr):
        nodes = dag_nodes([x])
        fps, _ = dag_fingerprints(nodes)
        return ["Expr", fps[id(x)]]
    if isinstance(x, BaseForm):
        if id(x) in visiting or depth > 40:
            return ["CYCLE", type(x).__name__]
        visiting.add(id(x))
        parts = [type(x).__name__]
        for sl in _bf_slots(type(x)):
            try:
                v = getattr(x, sl)
            except AttributeError:
                parts.append([sl, MISSING])
                continue
            parts.append([sl, bf_structure(v, namer, visiting, depth + 1)])
        d = getattr(x, "__dict__", None)
        if d:
            for k in sorted(d):
                if k not in BF_CACHE_SLOTS:
                    parts.append([k, bf_structure(d[k], namer, visiting, depth + 1)])
        visiting.discard(id(x))
        return parts
    if x is None or isinstance(x, (bool, int, float, str)):
        return [type(x).__name__, repr(x)]
    return ["R", _safe_repr(x)]


def bf_exprs(x, out=None, visiting=None):
    """Expr roots reachable from a BaseForm tree (integrands of Forms, Expr operands)."""
    out = [] if out is None else out
    visiting = set() if visiting is None else visiting
    if isinstance(x, Form):
        out.extend(i._integrand for i in x._integrals)
    elif isinstance(x, Expr):
        out.append(x)
    elif isinstance(x, BaseForm):
        if id(x) in visiting:
            return out
        visiting.add(id(x))
        for c in getattr(x, "ufl_operands", ()):
            bf_exprs(c, out, visiting)
    return out


def _try(f):
    try:
        return f()
    except RecursionError:
        return "!RecursionError"
    except (KeyboardInterrupt, SystemExit):
        raise
    except BaseException as e:  # noqa: BLE001
        return "!" + type(e).__name__


def _terminals_of(nodes, cls, key):
    return sorted({_safe_repr(n): key(n) for n in nodes if isinstance(n, cls)}.items(), key=lambda kv: (kv[1], kv[0]))


# -------------------------------------------------------------------------------------------------
# observation
# -------------------------------------------------------------------------------------------------
class Obs:
    """Result of one observation: lean fields, fresh fields (maybe None), raw caches."""

    __slots__ = ("kind", "lean", "fresh", "raw", "node_raw", "node_fresh", "stale", "nnodes", "tree")

    def __init__(self, kind):
        self.kind = kind
        self.lean = {}
        self.fresh = None
        self.raw = {}
        self.node_raw = None  # list of cached Expr._hash (post-order)
        self.node_fresh = None  # list of recomputed hashes (post-order), full mode only
        self.stale = []
        self.nnodes = 0
        self.tree = 0


def kind_of(obj):
    if isinstance(obj, Form):
        return "form"
    if isinstance(obj, Integral):
        return "integral"
    if isinstance(obj, Expr):
        return "expr"
    if isinstance(obj, BaseForm):
        return "baseform"
    return None


def _integral_lean(itg, fps, namer, prefix, lean):
    ig = itg._integrand
    lean[prefix + "integrand"] = fps.get(id(ig)) if isinstance(ig, Expr) else _safe_repr(ig)
    lean[prefix + "header"] = repr(
        (
            itg._integral_type,
            deep_state(itg._subdomain_id),
            _safe_repr(itg._ufl_domain),
            [(_safe_repr(d), t) for d, t in itg._extra_domain_integral_type_map.items()],
        )
    )
    lean[prefix + "metadata"] = repr(deep_state(itg._metadata, namer))
    sd = itg._subdomain_data
    lean[prefix + "subdomain_data"] = repr(deep_state(sd, namer))


def observe(obj, namer=None, full=True):
    """Observe obj without perturbing it."""
    kind = kind_of(obj)
    o = Obs(kind)
    if kind == "form":
        integrals = list(obj._integrals)
        roots = [i._integrand for i in integrals]
    elif kind == "integral":
        integrals = [obj]
        roots = [obj._integrand]
    elif kind == "expr":
        integrals = []
        roots = [obj]
    elif kind == "baseform":
        integrals = []
        roots = [r for r in bf_exprs(obj) if isinstance(r, Expr)]
    else:
        raise TypeError(f"cannot observe {type(obj).__name__}")
    nodes = dag_nodes(roots)
    o.nnodes = len(nodes)
    saved_hash = [n._hash for n in nodes]
    fps, size = dag_fingerprints(nodes)
    # cached hashes keyed by structural fingerprint (node identity may legitimately change through the
    # operand sharing of ==, structure may not)
    o.node_raw = [(fps[id(n)], h) for n, h in zip(nodes, saved_hash)]
    o.tree = sum(size[id(r)] for r in roots) if roots else 0
    lean = o.lean
    if kind in ("form", "integral"):
        lean["n_integrals"] = len(integrals)
        for k, itg in enumerate(integrals):
            _integral_lean(itg, fps, namer, f"itg[{k}]." if kind == "form" else "", lean)
    elif kind == "expr":
        lean["structure"] = fps[id(obj)]
        lean["ufl_shape"] = repr(_try(lambda: obj.ufl_shape))
        lean["ufl_free_indices"] = repr(_try(lambda: obj.ufl_free_indices))
        lean["ufl_index_dimensions"] = repr(_try(lambda: obj.ufl_index_dimensions))
    if kind == "baseform":
        lean["structure"] = repr(bf_structure(obj, namer))
        bf_saved = {sl: getattr(obj, sl, MISSING) for sl in BF_CACHE_SLOTS}
        o.raw = {
            "_hash": None if bf_saved["_hash"] in (None, MISSING) else bf_saved["_hash"],
            "_arguments": None if bf_saved["_arguments"] in (None, MISSING) else _safe_repr(bf_saved["_arguments"]),
            "_coefficients": None
            if bf_saved["_coefficients"] in (None, MISSING)
            else _safe_repr(bf_saved["_coefficients"]),
        }
    if kind != "baseform":
        lean["arguments(walk)"] = repr(_terminals_of(nodes, Argument, lambda a: (a.number(), str(a.part()))))
        lean["coefficients(walk)"] = repr(_terminals_of(nodes, Coefficient, lambda c: c.count()))
        lean["constants(walk)"] = repr(_terminals_of(nodes, Constant, lambda c: c.count()))
    if kind == "form":
        saved = {}
        for s in FORM_CACHE_SLOTS:
            saved[s] = getattr(obj, s, MISSING)
        o.raw = {
            "_hash": saved["_hash"],
            "_signature": saved["_signature"],
            "_arguments": None if saved["_arguments"] in (None, MISSING) else _safe_repr(saved["_arguments"]),
            "_coefficients": None
            if saved["_coefficients"] in (None, MISSING)
            else _safe_repr(saved["_coefficients"]),
        }
        lean["constants()"] = _safe_repr(getattr(obj, "_constants", MISSING))
    if not full:
        return o
    # ---- full: recompute everything from scratch with all caches cleared, then restore the caches
    fresh = {}
    try:
        for n in nodes:
            n._hash = None
        if kind == "form":
            for s in FORM_CACHE_SLOTS:
                if saved[s] is not MISSING:
                    setattr(obj, s, None)
        if kind == "baseform":
            for s in BF_CACHE_SLOTS:
                if bf_saved[s] is not MISSING:
                    try:
                        setattr(obj, s, None)
                    except AttributeError:
                        pass
        for r in roots:
            _try(lambda r=r: hash(r))  # fresh hash of every node reachable from every root
        small = o.tree <= REPR_CAP
        if kind == "baseform":
            small = True
        fresh["repr"] = sha(_try(lambda: repr(obj))) if small else "(skipped: too large)"
        fresh["str"] = sha(_try(lambda: str(obj))) if small else "(skipped: too large)"
        fresh["hash"] = _try(lambda: hash(obj))
        if kind in ("form", "baseform"):
            fresh["arguments()"] = _try(lambda: repr(obj.arguments()))
            fresh["coefficients()"] = _try(lambda: repr(obj.coefficients()))
        if kind == "form":
            fresh["signature"] = _try(lambda: obj.signature())
            fresh["integral hashes"] = _try(lambda: repr([hash(i) for i in obj._integrals]))
        if kind == "expr":
            fresh["ufl_shape"] = repr(_try(lambda: obj.ufl_shape))
        o.node_fresh = {fps[id(n)]: n._hash for n in nodes}
    finally:
        for n, h in zip(nodes, saved_hash):
            n._hash = h
        if kind == "form":
            for s in FORM_CACHE_SLOTS:
                if saved[s] is MISSING:
                    try:
                        delattr(obj, s)
                    except AttributeError:
                        pass
                else:
                    setattr(obj, s, saved[s])
        if kind == "baseform":
            for s in BF_CACHE_SLOTS:
                if bf_saved[s] is not MISSING:
                    try:
                        setattr(obj, s, bf_saved[s])
                    except AttributeError:
                        pass
    o.fresh = fresh
    o.stale = stale_caches(o, o)
    return o


def stale_caches(cur, ref, same_exec=True):
    """Cached values in `cur` (raw) that disagree with the fresh values in `ref` (same structure).

    Form/Integral hashes contain id(subdomain_data), so they are only comparable inside one execution.
    """
    out = []
    if ref.fresh is None:
        return out
    if cur.kind == "baseform":
        if cur.raw.get("_arguments") is not None and cur.raw["_arguments"] != ref.fresh.get("arguments()"):
            out.append("stale BaseForm._arguments")
        if cur.raw.get("_coefficients") is not None and cur.raw["_coefficients"] != ref.fresh.get(
            "coefficients()"
        ):
            out.append("stale BaseForm._coefficients")
    if cur.kind == "form":
        if same_exec and cur.raw.get("_hash") is not None and cur.raw["_hash"] != ref.fresh.get("hash"):
            out.append("stale Form._hash")
        if cur.raw.get("_signature") is not None and cur.raw["_signature"] != ref.fresh.get("signature"):
            out.append("stale Form._signature")
        if cur.raw.get("_arguments") is not None and cur.raw["_arguments"] != ref.fresh.get("arguments()"):
            out.append("stale Form._arguments")
        if cur.raw.get("_coefficients") is not None and cur.raw["_coefficients"] != ref.fresh.get(
            "coefficients()"
        ):
            out.append("stale Form._coefficients")
    if ref.node_fresh is not None and cur.node_raw is not None:
        nf = ref.node_fresh
        bad = sum(1 for fp, a in cur.node_raw if a is not None and nf.get(fp) is not None and nf[fp] != a)
        if bad:
            out.append(f"stale Expr._hash on {bad} node(s)")
    return out


ID_DEPENDENT = ("hash", "integral hashes", "_hash")


def diff(before, after, same_exec=True):
    """Names of fields of `after` that differ from `before` (lean always; fresh when both have it)."""
    out = []
    for k in before.lean:
        if k not in after.lean:
            out.append(k + "(gone)")
        elif before.lean[k] != after.lean[k]:
            out.append(k)
    for k in after.lean:
        if k not in before.lean:
            out.append(k + "(new)")
    if before.fresh is not None and after.fresh is not None:
        for k in before.fresh:
            if not same_exec and k in ID_DEPENDENT and before.kind != "expr":
                continue
            if before.fresh[k] != after.fresh.get(k):
                out.append(k)
    # caches: a non-None cached value must not change
    for k, v in before.raw.items():
        if not same_exec and k in ID_DEPENDENT:
            continue
        # a cache may be filled (None -> value) or dropped (value -> None, value-neutral); it must never
        # silently hold a different value
        if v is not None and after.raw.get(k) is not None and after.raw.get(k) != v:
            out.append("cache" + k)
    return out


def observe_watch(watch, namer):
    """Deep state of all caller-owned objects and global default measures."""
    st = {}
    for name, x in watch.items():
        if isinstance(x, Measure):
            st[name] = repr(measure_state(x, namer))
        else:
            st[name] = repr(deep_state(x, namer))
    for gname in GLOBAL_MEASURES:
        st["global." + gname] = repr(measure_state(getattr(ufl, gname)))
    return st


GLOBAL_MEASURES = ("dx", "ds", "dS", "dP", "dr", "dc", "dC", "dI", "dO", "ds_b", "ds_t", "ds_v", "dS_h", "dS_v")
