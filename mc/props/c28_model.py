"""C28 helper: finite-dimensional reference model of the base-form algebra.

Three independent pieces, none of which calls a UFL algorithm:

* a tiny nested forward-mode AD tensor algebra (`Dual`) over numpy arrays,
* `meval(recipe, env)`: the meaning of a *recipe* (what the user wrote) as a typed tensor, one axis per
  argument slot in argument-number order ("argument contraction" semantics),
* `interp(obj, env)`: a structural assembler of the *resulting UFL object* (FormSum -> weighted sum,
  Action -> contraction of the last axis of the left with the first of the right, Adjoint -> conjugate
  transpose, ZeroBaseForm -> zeros, Matrix/Cofunction/Coefficient -> fixed tables, Form -> abstract
  quadrature of its integrands over fixed basis-function value tables).
"""

import numpy as np

# =====================================================================================================
# spaces
# =====================================================================================================
DIM = {"V": 2, "W": 3, "V*": 2, "W*": 3}


def dual(s):
    return s[:-1] if s.endswith("*") else s + "*"


def is_dual_space(s):
    return s.endswith("*")


class IllTyped(Exception):
    """The recipe is not a type-correct composition (spaces/arity do not match)."""


class ModelGap(Exception):
    """The structural assembler met something it has no meaning for (harness problem, never a violation)."""


class Malformed(Exception):
    """The resulting object is not a well-formed multilinear map (e.g. two arguments with one number)."""


# =====================================================================================================
# nested dual numbers over numpy arrays
# =====================================================================================================
class Dual:
    __slots__ = ("tag", "v", "t")
    __array_ufunc__ = None

    def __init__(self, tag, v, t):
        self.tag = tag
        self.v = v
        self.t = t


def _tag(x):
    return x.tag if isinstance(x, Dual) else 0


def lin(g, x):
    """Apply a (real-)linear map g to a tensor."""
    if isinstance(x, Dual):
        return Dual(x.tag, lin(g, x.v), lin(g, x.t))
    return g(x)


def add(a, b):
    ta, tb = _tag(a), _tag(b)
    if ta == 0 and tb == 0:
        return a + b
    if ta == tb:
        return Dual(ta, add(a.v, b.v), add(a.t, b.t))
    if ta > tb:
        return Dual(ta, add(a.v, b), _bc_add_zero(a.t, b))
    return Dual(tb, add(a, b.v), _bc_add_zero(b.t, a))


def _shape(x):
    while isinstance(x, Dual):
        x = x.v
    return np.shape(x)


def _bc_add_zero(t, other):
    """t + 0*other (keeps broadcasting of shapes consistent between value and tangent)."""
    shp = np.broadcast_shapes(_shape(t), _shape(other))
    return lin(lambda z: np.broadcast_to(z, shp) + 0, t)


def bil(f, a, b):
    """Apply a bilinear map f(a, b)."""
    ta, tb = _tag(a), _tag(b)
    if ta == 0 and tb == 0:
        return f(a, b)
    if ta == tb:
        return Dual(ta, bil(f, a.v, b.v), add(bil(f, a.v, b.t), bil(f, a.t, b.v)))
    if ta > tb:
        return Dual(ta, bil(f, a.v, b), bil(f, a.t, b))
    return Dual(tb, bil(f, a, b.v), bil(f, a, b.t))


def mul(a, b):
    return bil(lambda x, y: x * y, a, b)


def scale(s, a):
    """s may itself be a tensor (0-dim) or Dual."""
    return mul(s, a)


def contract(a, b):
    """Last axis of a with first axis of b."""
    return bil(_contract, a, b)


def _contract(x, y):
    # einsum (no BLAS threads for these tiny arrays)
    x, y = np.asarray(x), np.asarray(y)
    nx, ny = x.ndim, y.ndim
    ix = list(range(nx))
    iy = [nx - 1] + list(range(nx, nx + ny - 1))
    return np.einsum(x, ix, y, iy, ix[:-1] + iy[1:])


def conj(a):
    return lin(np.conj, a)


def recip(a):
    if isinstance(a, Dual):
        r = recip(a.v)
        return Dual(a.tag, r, mul(lin(lambda z: -z, mul(r, r)), a.t))
    return 1.0 / a


def ipow(a, n):
    if n == 0:
        return lin(lambda z: z * 0 + 1, _strip(a))
    r = a
    for _ in range(n - 1):
        r = mul(r, a)
    return r


def _strip(a):
    while isinstance(a, Dual):
        a = a.v
    return a


def tangent(x, tag):
    """Coefficient of eps_tag (zero if x does not carry that tag)."""
    if isinstance(x, Dual):
        if x.tag == tag:
            return x.t
        if x.tag > tag:
            return Dual(x.tag, tangent(x.v, tag), tangent(x.t, tag))
    return lin(lambda z: np.zeros(np.shape(z), dtype=complex), x)


def stack_last(xs):
    """Stack tensors of equal type along a new last axis."""
    tg = max(_tag(x) for x in xs)
    if tg == 0:
        return np.stack([np.asarray(x, dtype=complex) for x in xs], axis=-1)
    vs, ts = [], []
    for x in xs:
        if _tag(x) == tg:
            vs.append(x.v)
            ts.append(x.t)
        else:
            vs.append(x)
            ts.append(lin(lambda z: np.zeros(np.shape(z), dtype=complex), x))
    return Dual(tg, stack_last(vs), stack_last(ts))


def zeros(shape):
    return np.zeros(shape, dtype=complex)


def arr(x):
    return np.array(x, dtype=complex)


# =====================================================================================================
# fixed data ("environment"): tables of basis function values at Q abstract quadrature points, matrices,
# cofunction vectors, coefficient dof vectors
# =====================================================================================================
def make_env(cx=False, bump=None):
    j = 1j if cx else 0
    e = {
        "wq": arr([1, 2, 3]),
        "phi": {
            "V": arr([[1, 2], [3, -1], [2, 5]]),
            "W": arr([[2, 1, -1], [1, 3, 2], [-2, 1, 4]]),
        },
        # matrices, axis i <-> argument number i
        "M": arr([[1, 2, 3], [4, 5, 7]]) + j * arr([[1, 0, -1], [2, 1, 0]]),  # V x W
        "M2": arr([[2, -1, 0], [3, 1, -2]]) + j * arr([[0, 1, 1], [-1, 0, 2]]),  # V x W
        "N": arr([[1, -2], [0, 3], [5, 1]]) + j * arr([[1, 1], [0, -2], [1, 0]]),  # W x V
        "B": arr([[3, 1, 2], [-1, 4, 0]]) + j * arr([[0, 2, 1], [1, -1, 0]]),  # V x W*
        "K": arr([[2, 1], [1, -3], [0, 2]]) + j * arr([[1, 0], [2, 1], [0, -1]]),  # W x V*
        # cofunctions
        "c": arr([1, 3]) + j * arr([2, -1]),
        "c2": arr([-2, 5]) + j * arr([1, 1]),
        "d": arr([2, -1, 4]) + j * arr([0, 1, -2]),
        # coefficients (dof vectors; kept real also in the complex environment, see assumptions)
        "u": arr([3, 1]),
        "u2": arr([-1, 2]),
        "w": arr([1, -2, 3]),
        "f": arr([2, 1]),
        # constant
        "k": arr(3 + 2 * j),
        "cx": cx,
    }
    if bump:
        e[bump] = e[bump] + arr(BUMP[bump])
    return e


BUMP = {
    "c": [1, -2],
    "c2": [2, 1],
    "d": [1, 1, -1],
    "u": [1, 2],
    "u2": [2, -1],
    "w": [-1, 1, 2],
    "f": [1, -1],
}
COEF_SPACE = {"u": "V", "u2": "V", "w": "W", "f": "V", "c": "V*", "c2": "V*", "d": "W*"}

# =====================================================================================================
# model values
# =====================================================================================================


class MV:
    """Model value. kind: 'form' (slots, T) | 'coef' (space, T) | 'arg' (space) | 'pyzero' | 'uzero'."""

    __slots__ = ("kind", "slots", "T", "name")

    def __init__(self, kind, slots=(), T=None, name=None):
        self.kind = kind
        self.slots = tuple(slots)
        self.T = T
        self.name = name


def basis_value(env, space, q):
    return env["phi"][space][q]


def coef_at(env, name, q):
    return contract(env["phi"][COEF_SPACE[name]][q], env[name])


def form_atom(name, env):
    """Hand-assembled tensors of the Form atoms (abstract quadrature sum_q wq * integrand(q))."""
    wq, phi = env["wq"], env["phi"]
    nq = len(wq)
    total = None
    for q in range(nq):
        pv, pw = phi["V"][q], phi["W"][q]
        fq = coef_at(env, "f", q)
        if name == "a":  # f*u1*v0*dx   (V x V)
            term = mul(fq, wq[q] * np.outer(pv, pv))
        elif name == "aM":  # (f + k)*w1*v0*dx  (V x W)
            term = mul(add(fq, env["k"]), wq[q] * np.outer(pv, pw))
        elif name == "aN":  # v1*w0*dx   (W x V)
            term = wq[q] * np.outer(pw, pv)
        elif name == "L":  # f*v0*dx   (V)
            term = mul(fq, wq[q] * pv)
        elif name == "J":  # f*f*u*dx  (functional)
            term = mul(mul(mul(fq, fq), coef_at(env, "u", q)), wq[q])
        else:
            raise KeyError(name)
        total = term if total is None else add(total, term)
    return total


FORM_SLOTS = {"a": ("V", "V"), "aM": ("V", "W"), "aN": ("W", "V"), "L": ("V",), "J": ()}
MATRIX_SLOTS = {"M": ("V", "W"), "M2": ("V", "W"), "N": ("W", "V"), "B": ("V", "W*"), "K": ("W", "V*")}
COFUN_SLOTS = {"c": ("V",), "c2": ("V",), "d": ("W",)}
ZERO_SLOTS = {"Z2": ("V", "W"), "Z1": ("V",), "Z0": (), "ZVV": ("V", "V"), "ZB": ("V", "W*")}
COARG = {"cV": "V*", "cW": "W*"}  # Coargument(S, 1): identity, slots (primal(S), S)
ARGS = {"v0": ("V", 0), "v1": ("V", 1), "w0": ("W", 0), "w1": ("W", 1)}
SCALARS = {"2": 2, "-1": -1, "0.5": 0.5, "0": 0, "1": 1, "1j": 1j}  # + "k": Constant


def scalar_value(s, env):
    if s == "k":
        return env["k"]
    return arr(SCALARS[s])


def shape_of(slots):
    return tuple(DIM[s] for s in slots)


def atom(name, env):
    if name in MATRIX_SLOTS:
        return MV("form", MATRIX_SLOTS[name], env[name], name)
    if name in COFUN_SLOTS:
        return MV("form", COFUN_SLOTS[name], env[name], name)
    if name in FORM_SLOTS:
        return MV("form", FORM_SLOTS[name], form_atom(name, env), name)
    if name in ZERO_SLOTS:
        return MV("form", ZERO_SLOTS[name], zeros(shape_of(ZERO_SLOTS[name])), name)
    if name in COARG:
        s = COARG[name]
        return MV("form", (dual(s), s), arr(np.eye(DIM[s])), name)
    if name in ARGS:
        return MV("arg", (ARGS[name][0],), None, name)
    if name in ("u", "u2", "w"):
        return MV("coef", (COEF_SPACE[name],), env[name], name)
    if name == "upu2":
        return MV("coef", ("V",), add(env["u"], env["u2"]), name)
    if name == "zero":
        return MV("pyzero")
    if name == "uz":
        return MV("uzero")
    raise KeyError(name)


_TAG = [0]


def _fresh_tag():
    _TAG[0] += 1
    return _TAG[0]


def meval(r, env):
    """Meaning of a recipe. Raises IllTyped for type-incorrect compositions."""
    op = r[0]
    if op == "t":
        return atom(r[1], env)
    if op == "neg":
        x = _form(meval(r[1], env))
        return MV("form", x.slots, scale(arr(-1), x.T))
    if op in ("add", "sub"):
        x, y = meval(r[1], env), meval(r[2], env)
        sgn = arr(1 if op == "add" else -1)
        if x.kind == "pyzero" and y.kind == "form":
            return MV("form", y.slots, scale(sgn, y.T))
        if y.kind == "pyzero" and x.kind == "form":
            return x
        x, y = _form(x), _form(y)
        if x.slots != y.slots:
            raise IllTyped("sum of different signatures")
        return MV("form", x.slots, add(x.T, scale(sgn, y.T)))
    if op == "smul":
        x = _form(meval(r[2], env))
        return MV("form", x.slots, scale(scalar_value(r[1], env), x.T))
    if op == "fs1":
        x = _form(meval(r[1], env))
        return MV("form", x.slots, scale(scalar_value(r[2], env), x.T))
    if op == "fs2":
        x, y = _form(meval(r[1], env)), _form(meval(r[3], env))
        if x.slots != y.slots:
            raise IllTyped("sum of different signatures")
        return MV(
            "form", x.slots, add(scale(scalar_value(r[2], env), x.T), scale(scalar_value(r[4], env), y.T))
        )
    if op in ("Act", "act"):
        return m_action(meval(r[1], env), meval(r[2], env))
    if op in ("Adj", "adj"):
        x = _form(meval(r[1], env))
        if len(x.slots) != 2:
            raise IllTyped("adjoint of a non-2-form")
        if x.name in COARG:
            # documented: the adjoint of a Coargument is its primal Argument (number 0)
            return MV("arg", (x.slots[0],), None, {"V": "v0", "W": "w0"}[x.slots[0]])
        return MV("form", x.slots[::-1], conj(lin(lambda z: np.swapaxes(z, 0, 1), x.T)))
    if op in ("der", "dex"):
        var = r[2]
        x0 = _form(meval(r[1], env))
        n = DIM[COEF_SPACE[var]]
        tag = _fresh_tag()
        cols = []
        for jj in range(n):
            e2 = dict(env)
            dirn = zeros((n,))
            dirn[jj] = 1
            e2[var] = Dual(tag, env[var], dirn)
            cols.append(tangent(_form(meval(r[1], e2)).T, tag))
        return MV("form", x0.slots + (COEF_SPACE[var],), stack_last(cols))
    raise KeyError(op)


def _form(x):
    if x.kind != "form":
        raise IllTyped("base form expected")
    return x


def m_action(x, y):
    """Argument contraction. Identity operands (documented shortcuts of Action.__new__):
    an Argument in S is the identity on S: as right operand it plugs into a last slot S (like a Coefficient
    of S would) and leaves it open, as left operand it accepts anything whose first slot takes S*;
    a Coargument in S* is the base form with slots (S, S*) and identity tensor (strict contraction)."""
    if x.kind == "arg" and y.kind == "arg":
        raise IllTyped("identity on identity")
    if y.kind == "arg":
        if _last_slot(x) != y.slots[0]:
            raise IllTyped("identity on a different space")
        return x
    if x.kind == "arg":
        if _first_slot(y) != dual(x.slots[0]):
            raise IllTyped("identity on a different space")
        return y
    if x.kind == "form" and x.name in COARG and y.kind in ("form", "coef"):
        if _first_slot(y) != dual(x.slots[-1]):
            raise IllTyped("identity on a different space")
        return y
    if y.kind == "form" and y.name in COARG and x.kind in ("form", "coef"):
        if _last_slot(x) != dual(y.slots[0]):
            raise IllTyped("identity on a different space")
        return x
    if y.kind == "uzero":
        if x.kind != "form" or not x.slots:
            raise IllTyped("no slot to contract")
        return MV("form", x.slots[:-1], zeros(shape_of(x.slots[:-1])))
    if x.kind not in ("form", "coef") or y.kind not in ("form", "coef"):
        raise IllTyped("not composable")
    if x.kind == "coef" and y.kind == "coef":
        raise IllTyped("coefficient on coefficient")
    sl = _last_slot(x)
    if y.kind == "coef":
        if y.slots[0] != sl:
            raise IllTyped("coefficient not in the space of the last argument")
        rest = ()
    else:
        if not y.slots or y.slots[0] != dual(sl):
            raise IllTyped("spaces not dual")
        rest = y.slots[1:]
    left = x.slots[:-1] if x.kind == "form" else ()
    return MV("form", left + rest, contract(x.T, y.T))


def _last_slot(x):
    if x.kind == "coef":
        return dual(x.slots[0])  # u in V = V** takes elements of V*
    if x.kind == "form" and x.slots:
        return x.slots[-1]
    raise IllTyped("no slot to contract")


def _first_slot(y):
    if y.kind == "coef":
        return dual(y.slots[0])
    if y.kind == "form" and y.slots:
        return y.slots[0]
    raise IllTyped("no slot to contract")


def mtype(r):
    """Type (kind, slots) of a recipe or None if ill-typed. Uses the real-valued environment."""
    try:
        x = meval(r, _TYPE_ENV)
    except IllTyped:
        return None
    return (x.kind, x.slots, x.name if x.kind in ("arg", "coef") or x.name in COARG else None)


_TYPE_ENV = make_env(False)

# =====================================================================================================
# structural assembler of UFL objects
# =====================================================================================================


class Interp:
    """Assembles UFL base-form objects on the model; knows the universe's atoms by identity/equality."""

    def __init__(self, U):
        import ufl

        self.ufl = ufl
        self.U = U
        self.space_name = {}
        for n in ("V", "W"):
            self.space_name[U["spaces"][n]] = n
            self.space_name[U["spaces"][n].dual()] = n + "*"
        self.counted = {}
        for n in ("M", "M2", "N", "B", "K"):
            self.counted[("Matrix", U["t"][n].count())] = n
        for n in ("c", "c2", "d", "u", "u2", "w", "f"):
            self.counted[("Coefficient", U["t"][n].count())] = n
        self.kconst = U["t"]["k"]

    # -- helpers -----------------------------------------------------------------------------------
    def sname(self, S):
        try:
            return self.space_name[S]
        except KeyError:
            raise ModelGap(f"unknown function space {S!r}")

    def coef_name(self, c):
        n = self.counted.get(("Coefficient", c.count()))
        if n is None or self.sname(c.ufl_function_space()) != COEF_SPACE[n]:
            raise ModelGap(f"unknown coefficient {c!r}")
        return n

    def slot_of_argument(self, a):
        from ufl.argument import Argument, Coargument

        s = self.sname(a.ufl_function_space())
        if isinstance(a, Coargument) != is_dual_space(s) or not isinstance(a, Argument | Coargument):
            raise ModelGap(f"argument/space mismatch {a!r}")
        return s

    def weight(self, w, env):
        if isinstance(w, int | float | complex | np.number):
            return arr(w)
        return self.pw(w, None, env, {})

    # -- base forms --------------------------------------------------------------------------------
    def interp(self, o, env):
        """Returns (slots, tensor)."""
        from ufl.action import Action
        from ufl.adjoint import Adjoint
        from ufl.argument import Argument, Coargument
        from ufl.coefficient import Cofunction
        from ufl.differentiation import BaseFormDerivative
        from ufl.form import Form, FormSum, ZeroBaseForm
        from ufl.matrix import Matrix

        t = type(o)
        if t is Matrix:
            n = self.counted.get(("Matrix", o.count()))
            if n is None:
                raise ModelGap(f"unknown matrix {o!r}")
            slots = tuple(self.sname(S) for S in o.ufl_function_spaces())
            if slots != MATRIX_SLOTS[n]:
                raise ModelGap("matrix spaces changed")
            return slots, env[n]
        if t is Cofunction:
            n = self.coef_name(o)
            return (dual(COEF_SPACE[n]),), env[n]
        if t is Coargument:
            s = self.sname(o.ufl_function_space())
            return (dual(s), s), arr(np.eye(DIM[s]))
        if t is Argument:
            # not a base form; appears as a component when Adjoint(Coargument) -> primal Argument is
            # distributed over a FormSum: read as the identity it stands for (documented in adjoint.py)
            s = self.sname(o.ufl_function_space())
            return (dual(s), s), arr(np.eye(DIM[s]))
        if t is ZeroBaseForm:
            slots = tuple(self.slot_of_argument(a) for a in o._arguments)
            return slots, zeros(shape_of(slots))
        if t is FormSum:
            slots, T = None, None
            if len(o.components()) != len(o.weights()):
                raise Malformed("FormSum components/weights of different length")
            for c, w in zip(o.components(), o.weights()):
                # (identity shortcuts may have put a Coefficient/Argument where a base form is expected)
                s, Tc = self.operand(c, env)
                Tc = scale(self.weight(w, env), Tc)
                if slots is None:
                    slots, T = s, Tc
                else:
                    if _shape(Tc) != _shape(T):
                        if _is_zero(Tc) and type(c) is Form:
                            continue  # zero Form that lost its arguments
                        if _is_zero(T) and type(o.components()[0]) is Form:
                            slots, T = s, Tc
                            continue
                        raise Malformed(f"FormSum of tensors of different shape {_shape(T)} {_shape(Tc)}")
                    T = add(T, Tc)
            if slots is None:
                raise Malformed("empty FormSum")
            return slots, T
        if t is Action:
            left, right = o.ufl_operands
            ls, LT = self.operand(left, env)
            rs, RT = self.operand(right, env)
            if not ls or not rs:
                raise Malformed("Action without slot to contract")
            if DIM[ls[-1]] != DIM[rs[0]]:
                raise Malformed("Action of incompatible dimensions")
            return ls[:-1] + rs[1:], contract(LT, RT)
        if t is Adjoint:
            s, T = self.interp(o.form(), env)
            if len(s) != 2:
                raise Malformed("Adjoint of non 2-form")
            return s[::-1], conj(lin(lambda z: np.swapaxes(z, 0, 1), T))
        if t is Form:
            return self.form_tensor(o, env)
        if isinstance(o, BaseFormDerivative):
            base, coeffs, args, cd = o.ufl_operands
            if len(coeffs.ufl_operands) != 1 or len(cd.ufl_operands) != 0:
                raise ModelGap("derivative w.r.t. several coefficients")
            var = self.coef_name(coeffs.ufl_operands[0])
            (a,) = args.ufl_operands
            aslot = self.slot_of_argument(a)
            if aslot != COEF_SPACE[var]:
                raise ModelGap("direction in another space")
            n = DIM[aslot]
            tag = _fresh_tag()
            cols = []
            s0 = None
            for jj in range(n):
                e2 = dict(env)
                dirn = zeros((n,))
                dirn[jj] = 1
                e2[var] = Dual(tag, env[var], dirn)
                s0, T = self.interp(base, e2)
                cols.append(tangent(T, tag))
            return s0 + (aslot,), stack_last(cols)
        raise ModelGap(f"no meaning for {t.__name__}")

    def operand(self, x, env):
        """Operand of Action: base form, Coefficient (element of its space) or derivative of one."""
        from ufl.coefficient import Coefficient
        from ufl.differentiation import CoefficientDerivative
        from ufl.form import BaseForm

        from ufl.argument import Argument

        if isinstance(x, BaseForm | Argument):
            return self.interp(x, env)
        if isinstance(x, Coefficient):
            n = self.coef_name(x)
            return (dual(COEF_SPACE[n]),), env[n]
        if type(x) is CoefficientDerivative:
            # derivative of a Coefficient in the direction of an Argument: identity or zero
            g, coeffs, args, cd = x.ufl_operands
            if not isinstance(g, Coefficient) or len(coeffs.ufl_operands) != 1 or len(cd.ufl_operands):
                raise ModelGap("derivative operand")
            n = self.coef_name(g)
            var = self.coef_name(coeffs.ufl_operands[0])
            (a,) = args.ufl_operands
            aslot = self.slot_of_argument(a)
            m = DIM[aslot]
            T = arr(np.eye(m)) if var == n else zeros((DIM[COEF_SPACE[n]], m))
            return (dual(COEF_SPACE[n]), aslot), T
        from ufl.core.expr import Expr

        if isinstance(x, Expr) and not x.ufl_shape and not x.ufl_free_indices:
            return self.expr_vector(x, env)
        raise ModelGap(f"Action operand {type(x).__name__}")

    def expr_vector(self, x, env):
        """A scalar Expr that is a linear combination of Coefficients with constant factors, as (slots, dofs)."""
        from ufl import classes as C

        if isinstance(x, C.Coefficient):
            n = self.coef_name(x)
            return (dual(COEF_SPACE[n]),), env[n]
        if isinstance(x, C.Sum):
            (sa, a), (sb, b) = (self.expr_vector(o, env) for o in x.ufl_operands)
            if sa != sb:
                raise Malformed("sum of elements of different spaces")
            return sa, add(a, b)
        if isinstance(x, C.Product):
            a, b = x.ufl_operands
            for fac, vec in ((a, b), (b, a)):
                if isinstance(fac, C.ScalarValue | C.Constant):
                    s_, v = self.expr_vector(vec, env)
                    return s_, scale(self.pw(fac, None, env, {}), v)
        raise ModelGap(f"not a linear combination of coefficients: {type(x).__name__}")

    # -- forms -------------------------------------------------------------------------------------
    def leaves(self, o, acc_args, acc_coefs, seen):
        from ufl.argument import Argument, Coargument
        from ufl.coefficient import BaseCoefficient
        from ufl.core.expr import Expr

        if id(o) in seen:
            return
        seen.add(id(o))
        if isinstance(o, Argument | Coargument):
            # (a Coargument occurs as the direction of a derivative w.r.t. a Cofunction)
            acc_args.append(o)
        elif isinstance(o, BaseCoefficient) and isinstance(o, Expr):
            acc_coefs.append(o)
        for c in getattr(o, "ufl_operands", ()):
            self.leaves(c, acc_args, acc_coefs, seen)

    def form_axes(self, form):
        args, coefs = [], []
        seen = set()
        for itg in form.integrals():
            self.leaves(itg.integrand(), args, coefs, seen)
        by_number = {}
        for a in args:
            s = self.slot_of_argument(a)
            if a.part() is not None:
                raise ModelGap("argument parts")
            if by_number.setdefault(a.number(), s) != s:
                raise Malformed("two arguments with the same number in different spaces")
        nums = sorted(by_number)
        return nums, tuple(by_number[n] for n in nums), coefs

    def form_tensor(self, form, env):
        nums, slots, _ = self.form_axes(form)
        shape = shape_of(slots)
        axis = {n: i for i, n in enumerate(nums)}
        total = zeros(shape)
        wq = env["wq"]
        for itg in form.integrals():
            if itg.integral_type() != "cell" or itg.subdomain_id() != "everywhere":
                raise ModelGap("only dx is modelled")
            for q in range(len(wq)):
                val = self.pw(itg.integrand(), q, env, {"axis": axis, "n": len(nums)})
                val = lin(lambda z: np.broadcast_to(z, shape) * wq[q], val)
                total = add(total, val)
        return slots, total

    def pw(self, e, q, env, ax):
        """Value of a scalar integrand expression at abstract point q (array broadcasting over argument axes)."""
        from ufl import classes as C

        if isinstance(e, C.Argument):
            if q is None:
                raise ModelGap("argument in a constant expression")
            s = self.slot_of_argument(e)
            i = ax["axis"][e.number()]
            shp = [1] * ax["n"]
            shp[i] = DIM[s]
            return env["phi"][s][q].reshape(shp)
        if isinstance(e, C.Coefficient):
            if q is None:
                raise ModelGap("coefficient in a constant expression")
            n = self.coef_name(e)
            ov = ax.get("override", {})
            if n in ov:
                return ov[n]
            return contract(env["phi"][COEF_SPACE[n]][q], env[n])
        if isinstance(e, C.Constant):
            if e is not self.kconst and e != self.kconst:
                raise ModelGap("unknown constant")
            return env["k"]
        if isinstance(e, C.Zero):
            return arr(0)
        if isinstance(e, C.ScalarValue):
            return arr(e._value)
        if e.ufl_shape or e.ufl_free_indices:
            raise ModelGap(f"non-scalar integrand node {type(e).__name__}")
        ops = e.ufl_operands
        if isinstance(e, C.Sum):
            return add(self.pw(ops[0], q, env, ax), self.pw(ops[1], q, env, ax))
        if isinstance(e, C.Product):
            return mul(self.pw(ops[0], q, env, ax), self.pw(ops[1], q, env, ax))
        if isinstance(e, C.Division):
            return mul(self.pw(ops[0], q, env, ax), recip(self.pw(ops[1], q, env, ax)))
        if isinstance(e, C.Power):
            ex = ops[1]
            if isinstance(ex, C.ScalarValue) and float(ex._value) == int(ex._value) and int(ex._value) >= 0:
                return ipow(self.pw(ops[0], q, env, ax), int(ex._value))
            raise ModelGap("non-integer power")
        if isinstance(e, C.Conj):
            return conj(self.pw(ops[0], q, env, ax))
        if isinstance(e, C.Real):
            return lin(lambda z: np.real(z) + 0j, self.pw(ops[0], q, env, ax))
        if isinstance(e, C.Imag):
            return lin(lambda z: np.imag(z) + 0j, self.pw(ops[0], q, env, ax))
        if isinstance(e, C.Inner | C.Dot):
            b = self.pw(ops[1], q, env, ax)
            return mul(self.pw(ops[0], q, env, ax), conj(b) if isinstance(e, C.Inner) else b)
        if type(e) is C.CoefficientDerivative:
            g, coeffs, args, cd = ops
            if len(coeffs.ufl_operands) != 1 or len(cd.ufl_operands) != 0:
                raise ModelGap("derivative w.r.t. several coefficients")
            v = coeffs.ufl_operands[0]
            if isinstance(v, C.Cofunction):
                # a scalar integrand cannot contain a Cofunction: its derivative w.r.t. one vanishes
                return mul(arr(0), self.pw(g, q, env, ax))
            if not isinstance(v, C.Coefficient):
                raise ModelGap("integrand derivative w.r.t. a non-Coefficient")
            var = self.coef_name(v)
            (a,) = args.ufl_operands
            tag = _fresh_tag()
            ax2 = dict(ax)
            ov = dict(ax.get("override", {}))
            ov[var] = Dual(tag, self.pw(v, q, env, ax), self.pw(a, q, env, ax))
            ax2["override"] = ov
            return tangent(self.pw(g, q, env, ax2), tag)
        raise ModelGap(f"integrand node {type(e).__name__}")

    # -- own traversal for coefficients -------------------------------------------------------------
    def coefficient_leaves(self, o, acc, seen, bound=False):
        """Names of Coefficient/Cofunction atoms structurally present in the object.

        bound=False: do not descend into the variable/direction lists of derivative nodes (lower bound);
        bound=True: everything reachable (upper bound)."""
        from ufl.coefficient import BaseCoefficient
        from ufl.differentiation import CoefficientDerivative
        from ufl.form import Form, FormSum, ZeroBaseForm

        if id(o) in seen:
            return
        seen.add(id(o))
        if isinstance(o, BaseCoefficient):
            acc.add(self.coef_name(o))
            return
        if type(o) is Form:
            for itg in o.integrals():
                self.coefficient_leaves(itg.integrand(), acc, seen, bound)
            return
        if type(o) is ZeroBaseForm:
            return
        if type(o) is FormSum:
            for c in o.components():
                self.coefficient_leaves(c, acc, seen, bound)
            return
        ops = getattr(o, "ufl_operands", ())
        if isinstance(o, CoefficientDerivative) and not bound:
            ops = ops[:1]
        for c in ops:
            self.coefficient_leaves(c, acc, seen, bound)


def _is_zero(T):
    while isinstance(T, Dual):
        if not _is_zero(T.t):
            return False
        T = T.v
    return not np.any(T)
