"""C23 Complex and real mode node handling is sound.

BFS over integrand recipes with comparisons, min/max, sign, abs, powers, sqrt, ln, conj/real/imag over real
quantities (literals, coordinates, arguments, abs(.), real(.)) and possibly complex ones (coefficients,
constants, sqrt, non-integer powers, 1j).
 * complex mode: whenever do_comparison_check accepts, every ordering comparison / min / max / sign node of
   the input has operands with zero imaginary part in EVERY environment, including the complex ones (one
   direction), and the rewritten expression has the same value on real data;
 * real mode: remove_complex_nodes keeps the value on real data and raises on imaginary parts and complex
   literals.
"""

import json

import ufl
from mc import elements as E
from mc import envs as EV
from mc import passes as P
from mc.explore import check_recipe, dedup, run_level
from mc.guard import HangError, time_limit
from mc.runner import Part, Run
from mc.sem import lang as L
from mc.sem import sem as M
from mc.sem.jet import Ambiguous, Undefined, const_of, is_real, mpf, set_order

PID = "C23"


def universe():
    m = EV.mesh("triangle")
    S = ufl.FunctionSpace(m, E.P("triangle", 2))
    V = ufl.FunctionSpace(m, E.P("triangle", 1, (2,)))
    t = {
        "f": ufl.Coefficient(S),
        "g": ufl.Coefficient(S),
        "w": ufl.Coefficient(V),
        "c": ufl.Constant(m),
        "u": ufl.Argument(S, 0),
        "x": ufl.SpatialCoordinate(m),
        "h": ufl.CellVolume(m),
        "two": ufl.as_ufl(2),
        "half": ufl.as_ufl(0.5),
        "m3": ufl.as_ufl(-3),
        "j": ufl.as_ufl(1j),
    }
    return L.Universe(t)


COMPARE_TYPES = ("LT", "GT", "LE", "GE", "MinValue", "MaxValue")


def comparison_operands(obj):
    from ufl.corealg.traversal import unique_pre_traversal

    out = []
    for n in unique_pre_traversal(obj):
        tn = type(n).__name__
        if tn in COMPARE_TYPES:
            out += list(n.ufl_operands)
        # sign(x) is conditional-free but ordering based
    return out


def complex_origin(op, ctx):
    """Type name of the node at which the imaginary part of `op` enters: walk down from `op` into a non-real
    operand as long as there is one; the node reached is non-real although all its operands are real-valued
    (or it is a terminal that is itself complex)."""
    import numpy as np

    def nonreal(n):
        if n.ufl_free_indices:
            return False
        try:
            vals = M.sem(n, ctx, {})
        except Exception:  # noqa: BLE001
            return False
        arr = vals.reshape(-1) if isinstance(vals, np.ndarray) else [vals]
        return not all(is_real(const_of(x), mpf("1e-20")) for x in arr)

    n = op
    for _ in range(1000):
        nxt = next((c for c in n.ufl_operands if nonreal(c)), None)
        if nxt is None:
            return type(n).__name__
        n = nxt
    return "unknown"


def has_type(obj, names):
    from ufl.corealg.traversal import unique_pre_traversal

    return any(type(n).__name__ in names for n in unique_pre_traversal(obj))


def make_check(real_envs, complex_envs):
    def mode_check(recipe, obj, lts, ctxs, envs, part, U):
        from ufl.algorithms.comparison_checker import ComplexComparisonError, do_comparison_check
        from ufl.algorithms.remove_complex_nodes import remove_complex_nodes

        if obj.ufl_shape != () or obj.ufl_free_indices:
            return None
        key = L.show_recipe(recipe)
        wit = {"recipe": recipe, "show": key, "expr": repr(obj)[:800]}
        ok = True
        # ---- complex mode
        part.inc("transitions")
        accepted = None
        try:
            with time_limit(120, key):
                accepted = do_comparison_check(obj)
        except HangError as e:
            part.violation(f"{PID}:hang:complex:{key}", f"do_comparison_check does not return for {key}", dict(wit, error=str(e)))
            return "VIOLATION"
        except ComplexComparisonError:
            part.error("ComplexComparisonError")
            part.outcome("rejected-complex")
        except BaseException as e:  # noqa: BLE001
            if isinstance(e, (KeyboardInterrupt, SystemExit, MemoryError)):
                raise
            part.error("complex:" + type(e).__name__)
        if accepted is not None:
            part.outcome("accepted-complex")
            ops = comparison_operands(obj)
            if ops:
                part.count("accepted_with_comparisons")
            for env in complex_envs + real_envs:
                ctx = M.Ctx(env)
                for op in ops:
                    try:
                        v = M.sem(op, ctx, {})
                    except (Ambiguous, Undefined):
                        part.count("model_undefined_env")
                        continue
                    part.inc("validated")
                    if not is_real(const_of(v), mpf("1e-20")):
                        via = complex_origin(op, ctx)
                        part.violation(
                            f"{PID}:complex-comparison-accepted:via-{via}:{key}",
                            f"complex mode accepts {key} although the comparison operand {str(op)[:80]} is complex in some environment "
                            f"(the imaginary part enters at a {via} node)",
                            dict(wit, operand=str(op)[:300], value=M.show(v), env=env.describe(), complex_enters_at=via),
                        )
                        return "VIOLATION"
            ok &= P.check_pass("do_comparison_check", obj, accepted, real_envs, part, PID, key, wit)
        # ---- real mode
        part.inc("transitions")
        must_raise = has_type(obj, ("Imag", "ComplexValue"))
        res = None
        try:
            res = remove_complex_nodes(obj)
        except BaseException as e:  # noqa: BLE001
            if isinstance(e, (KeyboardInterrupt, SystemExit, MemoryError)):
                raise
            part.error("real:" + type(e).__name__)
            part.outcome("rejected-real")
        if res is not None:
            part.outcome("accepted-real")
            if must_raise:
                part.violation(
                    f"{PID}:real-mode-accepts-complex:{key}",
                    f"remove_complex_nodes accepts {key} although it contains an imaginary part or a complex literal",
                    dict(wit, after=repr(res)[:800]),
                )
                return "VIOLATION"
            if has_type(res, ("Conj", "Real", "Imag", "ComplexValue")):
                part.violation(f"{PID}:real-mode-leftover:{key}", f"remove_complex_nodes left complex nodes in {key}", dict(wit, after=repr(res)[:800]))
                return "VIOLATION"
            # "for real data": environments in which the real-mode expression itself takes a non-real value
            # (ln / sqrt / acos / fractional power of a negative number) are outside the statement
            usable = []
            from ufl.corealg.traversal import unique_pre_traversal

            nodes = [n for n in unique_pre_traversal(res) if type(n).__name__ not in ("MultiIndex", "Label")]
            for env in real_envs:
                # every SUBexpression must stay in the reals (abs(ln(g)) is real-valued although ln(g) is not for g < 0)
                try:
                    vals = []
                    for n in nodes:
                        if n.ufl_free_indices:
                            continue
                        v = M.sem(n, M.Ctx(env), {})
                        import numpy as np

                        vals += list(v.reshape(-1)) if isinstance(v, np.ndarray) else [v]
                except (Ambiguous, Undefined):
                    continue
                if all(isinstance(v, bool) or is_real(const_of(v), mpf("1e-30")) for v in vals):
                    usable.append(env)
                else:
                    part.count("not_real_valued_env")
            ok &= P.check_pass("remove_complex_nodes", obj, res, usable, part, PID, key, wit)
        return None if ok else "VIOLATION"

    return mode_check


def main(argv):
    run = Run(PID, argv)
    quick = not run.thorough()
    set_order(0)
    U = universe()
    real_envs = EV.cell_envs("triangle", n=1 if quick else 2)
    complex_envs = EV.cell_envs("triangle", complex_too=True, n=1)[1:]
    chk = make_check(real_envs, complex_envs)
    if run.args.replay:
        return replay(run, U, real_envs, chk)
    seen = set()

    def level(cands, lvl, sample_every=0):
        import sys
        import time

        cands = sorted(set(cands), key=repr)
        if run.smoke:
            cands = cands[:: max(1, len(cands) // 100)]
            run.exhaustive = False
        print(f"[{PID}] level {lvl}: {len(cands)} candidates t={time.time() - run.t0:.0f}s", file=sys.stderr)
        run.bounds[f"level{lvl}_candidates"] = len(cands)
        new = run_level(cands, U, real_envs, PID, run, run.seed, extra_check=chk, compare=False, sample_every=sample_every, check_undefined=True)
        sts, _ = dedup(new, seen, lvl, run)
        return sts

    names = list(U.t)
    l0 = level([("t", n) for n in names], 0)
    UN = ["abs", "conj", "real", "imag", "sqrt", "ln", "exp", "sin", "sign", "neg", "acos"]
    c = []
    for s in l0:
        r = s.recipe
        if s.rank == 0:
            for fn in UN:
                c.append((fn, r))
            c += [("pow", r, ("num", 2)), ("pow", r, ("num", 0.5)), ("pow", r, ("num", -1)), ("pow", r, ("t", "half")), ("pow", ("num", 2), r), ("pow", r, r)]
        else:
            c += [("getitem", r, 0), ("inner", r, r), ("abs", r), ("real", r), ("conj", r)]
    for a in names:
        for b in names:
            for op in ("add", "sub", "mul", "div", "pow", "max_value", "min_value", "lt", "gt", "le", "ge", "eq", "ne", "inner", "dot"):
                c.append((op, ("t", a), ("t", b)))
    l1 = level(c, 1, sample_every=40)
    conds = [s for s in l1 if s.cond]
    sc1 = [s for s in l0 + l1 if not s.cond and s.rank == 0 and not s.fid]
    c = []
    for s in sc1:
        r = s.recipe
        for fn in UN if not quick else ["abs", "real", "imag", "sqrt", "ln", "conj", "sign"]:
            c.append((fn, r))
        c += [("pow", r, ("num", 2)), ("pow", r, ("num", 0.5))]
        for b in ["f", "x0", "u", "two", "m3", "h", "j"] if not quick else ["f", "x0", "two", "m3", "j"]:
            rb = ("getitem", ("t", "x"), 0) if b == "x0" else ("t", b)
            for op in ("lt", "ge", "max_value", "min_value", "add", "mul", "div", "pow"):
                c.append((op, r, rb))
                c.append((op, rb, r))
    for cnd in conds:
        for a in ("f", "two", "u"):
            for b in ("g", "half"):
                c.append(("conditional", cnd.recipe, ("t", a), ("t", b)))
    l2 = level(c, 2, sample_every=1500)
    # level 3: conditionals on level-2 conditions, comparisons between level-2 scalars and real terminals
    c = []
    conds2 = [s for s in l2 if s.cond]
    cap = 1200 if quick else 12000  # level 2 has ~1e5 states; the comb level takes the shortest recipes
    conds2 = sorted(conds2, key=lambda s: (len(repr(s.recipe)), repr(s.recipe)))[:cap]
    for cnd in conds2:
        c.append(("conditional", cnd.recipe, ("t", "f"), ("t", "two")))
        c.append(("Not", cnd.recipe))
    sc2 = [s for s in l2 if not s.cond and s.rank == 0 and not s.fid]
    short = sorted(sc2, key=lambda s: (len(repr(s.recipe)), repr(s.recipe)))[:cap]
    chosen = {id(s) for s in short}
    # every conditional is compared again (its type is decided from its branches), in both tiers
    sc2 = short + [s for s in sc2 if id(s) not in chosen and s.recipe[0] == "conditional"]
    for s in sc2:
        for op in ("lt", "max_value"):
            c.append((op, s.recipe, ("t", "two")))
            c.append((op, ("getitem", ("t", "x"), 0), s.recipe))
        c += [("real", s.recipe), ("abs", s.recipe), ("sign", s.recipe)]
    l3 = level(c, 3, sample_every=8000)
    run.bounds.update(levels=[len(l0), len(l1), len(l2), len(l3)], terminals=sorted(U.t), envs_real=[e.name for e in real_envs], envs_complex=[e.name for e in complex_envs])
    run.rule = "every scalar recipe of the grammar is submitted to do_comparison_check (complex mode) and remove_complex_nodes (real mode); non-trivial = built and evaluated"
    run.extra["accepted_with_comparisons"] = run.counters.get("accepted_with_comparisons", 0)
    run.assumptions += [
        "one direction in complex mode: acceptance implies real comparison operands in every environment; rejection is never an alarm",
        "principal branches: sqrt/ln/acos/powers of negative reals are complex",
    ]
    run.finish()


def replay(run, U, envs, chk):
    with open(run.args.replay) as f:
        rp = json.load(f)

    def tup(x):
        return tuple(tup(y) for y in x) if isinstance(x, list) else x

    recipe = tup(rp["witness"]["recipe"])
    part = Part()
    check_recipe(recipe, U, envs, part, PID, extra_check=chk, compare=False, check_undefined=True)
    run.merge(part.dict())
    run.states = 1
    run.finish()
