"""C21 replace substitutes exactly the mapped subexpressions.

BFS over expression recipes (algebra, index notation, tensor algebra, math functions, spatial derivatives,
variables, diff) x a complete list of mappings (coefficient -> coefficient / expression / expression with a
spatial gradient, simultaneous swap, argument -> argument, constant -> constant, vector -> list tensor,
identity, shape-changing).  replace() on the real code is compared with Sem(e) evaluated in the
environment where each mapped terminal takes the (jet) value of its image, so derivatives of replaced
terminals are covered; shape-changing mappings must raise; expressions without mapped terminals must come
back unchanged.
"""

import json

import ufl
from mc import elements as E
from mc import envs as EV
from mc.explore import check_recipe, dedup, run_level
from mc.runner import Part, Run
from mc.sem import lang as L
from mc.sem import sem as M
from mc.sem.jet import Ambiguous, Undefined, mpf, set_order

PID = "C21"


def universe():
    m = EV.mesh("triangle")
    S2 = ufl.FunctionSpace(m, E.P("triangle", 2))
    V2 = ufl.FunctionSpace(m, E.P("triangle", 2, (2,)))
    f = ufl.Coefficient(S2)
    g = ufl.Coefficient(S2)
    h = ufl.Coefficient(S2)
    W = ufl.Coefficient(V2)
    Z = ufl.Coefficient(V2)
    c = ufl.Constant(m)
    c2 = ufl.Constant(m)
    u = ufl.Argument(S2, 0)
    u2 = ufl.Argument(S2, 1)
    t = {
        "f": f,
        "g": g,
        "W": W,
        "c": c,
        "u": u,
        "x": ufl.SpatialCoordinate(m),
        "Vf": ufl.variable(f * g),
        "VW": ufl.variable(W),
        "two": ufl.as_ufl(2),
    }
    U = L.Universe(t)
    x = t["x"]
    U.mappings = [
        ("f->g", {f: g}),
        ("f->h", {f: h}),
        ("f->2g+1", {f: 2 * g + 1}),
        ("f->g*x0+grad(h)[0]", {f: g * x[0] + ufl.grad(h)[0]}),
        ("f<->g", {f: g, g: f}),
        ("f->g,g->h", {f: g, g: h}),
        ("f->f", {f: f}),
        ("u->u2", {u: u2}),
        ("u->f*u2", {u: f * u2}),
        ("c->c2", {c: c2}),
        ("c->3", {c: 3}),
        ("W->Z", {W: Z}),
        ("W->as_vector(f,g)", {W: ufl.as_vector([f, g])}),
        ("W->grad(h)", {W: ufl.grad(h)}),
        ("f->0", {f: 0}),
        ("W->zero(2)", {W: ufl.zero(2)}),
        ("f->0,g->h", {f: ufl.zero(), g: h}),
        ("c->0.0", {c: 0.0}),
        ("h->g(unused)", {h: g}),
        ("f->W(shape)", {f: W}),
        ("W->f(shape)", {W: f}),
        ("f*g->h", {f * g: h}),
    ]
    U.chain = {
        "f->h": ("h->2g+1", {h: 2 * g + 1}),
        "f->g": ("g->h*x0", {g: h * x[0]}),
        "W->Z": ("Z->grad(h)", {Z: ufl.grad(h)}),
    }
    return U


def make_check(U):
    def rep_check(recipe, obj, lts, ctxs, envs, part, U_):
        from ufl.algorithms import replace
        from ufl.algorithms.analysis import extract_type
        from ufl.classes import Terminal

        key = L.show_recipe(recipe)
        ok = True
        from ufl.corealg.traversal import unique_pre_traversal

        nodes = set(unique_pre_traversal(obj))
        for name, mp in U.mappings:
            part.inc("transitions")
            wit = {"recipe": recipe, "show": key, "mapping": name, "before": repr(obj)[:800]}
            shape_changing = any(k.ufl_shape != ufl.as_ufl(v).ufl_shape for k, v in mp.items())
            try:
                res = replace(obj, mp)
            except BaseException as e:  # noqa: BLE001
                if isinstance(e, (KeyboardInterrupt, SystemExit, MemoryError)):
                    raise
                part.error(type(e).__name__)
                if not shape_changing:
                    part.count("rejected:" + name)
                continue
            if shape_changing:
                part.violation(f"{PID}:shape-accepted:{name}:{key}", f"shape-changing mapping {name} accepted for {key}", wit)
                ok = False
                continue
            touched = any(k in nodes for k in mp)
            if not touched:
                if not (res is obj or res == obj):
                    part.violation(
                        f"{PID}:untouched-changed:{name}:{key}",
                        f"replace with {name} changed {key} although it contains no mapped subexpression",
                        dict(wit, after=repr(res)[:800]),
                    )
                    ok = False
                continue
            if any(not isinstance(k, Terminal) for k in mp):
                # operator keys: model by structural expectation only for the exact product f*g (value check below
                # uses an environment where f*g -> h cannot be expressed); skip the value oracle
                part.count("operator_key_applied")
                continue
            if tuple(res.ufl_shape) != tuple(obj.ufl_shape) or res.ufl_free_indices != obj.ufl_free_indices:
                part.violation(f"{PID}:type:{name}:{key}", f"replace with {name} changed shape/free indices of {key}", dict(wit, after=repr(res)[:800]))
                ok = False
                continue
            for env in envs:
                base = M.Ctx(env)
                ov = {}
                for k, v in mp.items():
                    vv = ufl.as_ufl(v)
                    ov[k] = (lambda c, vv=vv, base=base: M.sem(vv, base if c.side == base.side else M._side_ctx(base, c.side), {}))
                ctx1 = M.Ctx(env, coef_value_override=ov)
                ctx2 = M.Ctx(env)
                bad = None
                try:
                    for rho in M.free_index_assignments(obj):
                        v1 = M.sem(obj, ctx1, rho)
                        v2 = M.sem(res, ctx2, rho)
                        if not M.values_close(v1, v2, mpf("1e-10")):
                            bad = (rho, v1, v2)
                            break
                except Ambiguous:
                    part.count("ambiguous_env")
                    continue
                except Undefined:
                    part.count("model_undefined_env")
                    continue
                part.inc("validated")
                if bad:
                    part.violation(
                        f"{PID}:value:{name}:{key}",
                        f"replace({key}, {name}) differs from the value with the mapped terminals substituted",
                        dict(wit, env=env.describe(), model=M.show(bad[1]), ufl=M.show(bad[2]), after=repr(res)[:800]),
                    )
                    ok = False
                    break
                part.count("nontrivial_pairs")
            # chained use: the result of a replace combined with its own input and replaced again (label-preserving
            # rebuilds put two Variable nodes with one label and different contents into one expression)
            if name in U.chain and not obj.ufl_free_indices:
                name2, mp2 = U.chain[name]
                part.inc("transitions")
                try:
                    total = obj + 3 * res
                    res2 = replace(total, mp2)
                except BaseException as e:  # noqa: BLE001
                    if isinstance(e, (KeyboardInterrupt, SystemExit, MemoryError)):
                        raise
                    part.error("chain:" + type(e).__name__)
                    continue
                for env in envs:
                    base = M.Ctx(env)
                    ov = {k: (lambda c, vv=ufl.as_ufl(v), base=base: M.sem(vv, base if c.side == base.side else M._side_ctx(base, c.side), {})) for k, v in mp2.items()}
                    try:
                        v1 = M.sem(total, M.Ctx(env, coef_value_override=ov), {})
                        v2 = M.sem(res2, M.Ctx(env), {})
                    except (Ambiguous, Undefined):
                        part.count("undefined_env")
                        continue
                    part.inc("validated")
                    if not M.values_close(v1, v2, mpf("1e-10")):
                        part.violation(
                            f"{PID}:chain:{name}>{name2}:{key}",
                            f"replace(e + 3*replace(e, {name}), {name2}) differs from the value with the mapped terminals substituted, e = {key}",
                            dict(wit, mapping2=name2, after=repr(res2)[:800], ufl=M.show(v2), expected=M.show(v1), env=env.describe()),
                        )
                        ok = False
                        break
        return None if ok else "VIOLATION"

    return rep_check


SCALAR_FNS = ["sqrt", "exp", "ln", "sin", "cos", "tanh", "atan", "erf", "abs"]


def main(argv):
    run = Run(PID, argv)
    quick = not run.thorough()
    set_order(2)
    U = universe()
    envs = EV.cell_envs("triangle", n=1 if quick else 2)
    chk = make_check(U)
    if run.args.replay:
        return replay(run, U, envs, chk)
    seen = set()

    def level(cands, lvl, sample_every=0):
        import sys
        import time

        cands = sorted(set(cands), key=repr)
        if run.smoke:
            cands = cands[:: max(1, len(cands) // 60)]
            run.exhaustive = False
        print(f"[{PID}] level {lvl}: {len(cands)} candidates t={time.time() - run.t0:.0f}s", file=sys.stderr)
        run.bounds[f"level{lvl}_candidates"] = len(cands)
        new = run_level(cands, U, envs, PID, run, run.seed, extra_check=chk, compare=False, sample_every=sample_every)
        sts, _ = dedup(new, seen, lvl, run)
        return sts

    l0 = level([("t", n) for n in U.t], 0)
    c = []
    idx = {1: [(0,), ("i",)], 2: [(0, 1), ("i", "i"), ("i", "j")]}
    for s in l0:
        r = s.recipe
        if s.rank == 0:
            for fn in SCALAR_FNS:
                c.append((fn, r))
            c += [("pow", r, ("num", 2)), ("div", ("num", 1), r)]
        c += [("neg", r), ("grad", r), ("dx", r, 0), ("dx", r, "i"), ("nabla_grad", r), ("curl", r)]
        if s.rank >= 1:
            c += [("divg", r), ("inner", r, r)]
        for comp in idx.get(s.rank, []):
            c.append(("getitem", r) + comp)
    for a in l0:
        for b in l0:
            for op in ("add", "sub", "mul", "div", "pow", "dot", "inner", "outer", "max_value", "as_vector"):
                c.append((op, a.recipe, b.recipe))
    c.append(("conditional", ("lt", ("t", "f"), ("t", "g")), ("t", "f"), ("t", "g")))
    c.append(("conditional", ("gt", ("t", "c"), ("t", "f")), ("mul", ("t", "f"), ("t", "u")), ("t", "u")))
    l1 = level(c, 1, sample_every=30)
    c = []
    partners = ["f", "W", "u", "Vf"] if quick else ["f", "g", "W", "c", "u", "x", "Vf", "VW"]
    bops = ("mul", "add", "dot") if quick else ("mul", "add", "sub", "div", "dot", "inner", "outer")
    for s in l1:
        if s.cond:
            continue
        r = s.recipe
        if not s.fid:
            if s.rank == 0:
                for fn in ["sqrt", "exp", "abs"] if quick else SCALAR_FNS:
                    c.append((fn, r))
            c += [("grad", r), ("dx", r, 0)]
            if s.rank >= 1:
                c.append(("divg", r))
        for comp in idx.get(s.rank, []):
            c.append(("getitem", r) + comp)
        for b in partners:
            for op in bops:
                c.append((op, r, ("t", b)))
                c.append((op, ("t", b), r))
    l2 = level(c, 2, sample_every=1000)
    run.bounds.update(
        levels=[len(l0), len(l1), len(l2)],
        terminals=sorted(U.t),
        mappings=[n for n, _ in U.mappings],
    )
    run.rule = "every expression of the grammar x every mapping; state = distinct repr; non-trivial pairs = expression contains a mapped terminal and values agreed"
    run.extra["pairs_with_mapped_terminal"] = run.counters.get("nontrivial_pairs", 0)
    run.assumptions += ["operator-valued mapping keys (f*g -> h) are only exercised structurally (no value oracle)"]
    run.finish()


def replay(run, U, envs, chk):
    with open(run.args.replay) as f:
        rp = json.load(f)

    def tup(x):
        return tuple(tup(y) for y in x) if isinstance(x, list) else x

    recipe = tup(rp["witness"]["recipe"])
    part = Part()
    check_recipe(recipe, U, envs, part, PID, extra_check=chk, compare=False)
    run.merge(part.dict())
    run.states = 1
    run.finish()
