"""C12 Signatures do not depend on incidental numbering or process state.

History exploration on the real code in isolated process images.

* State  = vector of offsets of the global creation counters (Index, Coefficient/Cofunction, Constant,
  Label, Mesh ufl_id, Matrix, BaseFormOperator).  Events "create k throw-away objects of class X" commute
  and only add to one counter each, so the reachable states are exactly the product of the per-counter
  offset sets.  Every state is executed in a forked child of a parent that has imported ufl but created
  nothing; the child performs the shifts by really creating objects, then each catalogue form is built in
  its own forked grandchild (so the forms do not shift the counters for each other) and its
  ``form.signature()`` is compared with the signature at the zero history.
* The creation ORDER inside a builder never changes, only the starting counter values.
* Extra histories: build the same form twice in one process; build the whole catalogue sequentially.
* Hash seeds / processes: the catalogue is rebuilt in fresh interpreters with several PYTHONHASHSEED values.
* Sweep (scout): all start values of every single counter in a contiguous range are tried in-process by
  installing the counter value directly; every mismatch found there is re-executed as a real forked
  history before it is reported (an unconfirmed mismatch is a harness error, never a violation).
"""

import itertools
import json
import os
import subprocess
import sys
import traceback

import ufl
from mc import elements as E
from mc.props import c12_catalogue as CAT
from mc.runner import Part, Run, pmap
from ufl.algorithms.signature import compute_terminal_hashdata
from ufl.classes import BaseFormOperator, Coefficient, Constant, Index, Label, Matrix, MultiIndex
from ufl.corealg.traversal import pre_traversal
from ufl.domain import AbstractDomain

try:  # present since the signature of base form operators includes their data
    from ufl.algorithms.signature import compute_base_form_operator_hashdata as _bfo_hashdata
except ImportError:
    _bfo_hashdata = None

PID = "C12"

# --------------------------------------------------------------------------------------------------
# counters: every `Counted` subclass family (counter is attached to the class given as counted_class)
# and every use of attach_ufl_id.  MeshView also has a ufl_id counter but MeshView objects cannot be
# constructed with an AbstractFiniteElement coordinate element (uses .value_shape) nor be used as the
# domain of a function space (no .meshes), so they cannot occur in a form; excluded.
# --------------------------------------------------------------------------------------------------
COUNTED = {
    "Index": Index,
    "Coefficient": Coefficient,  # shared by Coefficient and Cofunction (BaseCoefficient)
    "Constant": Constant,
    "Label": Label,  # Variable labels
    "Matrix": Matrix,
    "BaseFormOperator": BaseFormOperator,  # ExternalOperator, Interpolate
}
COUNTERS = ["Index", "Coefficient", "Constant", "Label", "Mesh", "Matrix", "BaseFormOperator"]


def peek():
    """Next value of every counter, without creating anything."""
    out = {}
    for name, cls in COUNTED.items():
        c = cls._counter
        out[name] = 0 if c is None else int(repr(c)[len("count(") : -1])
    out["Mesh"] = ufl.Mesh._ufl_global_id
    return out


class _ShiftDomain(AbstractDomain):
    """A domain without ufl_id: lets us create Constants / spaces without touching the Mesh counter."""

    def __init__(self):
        AbstractDomain.__init__(self, 2, 2)

    @property
    def meshes(self):
        return (self,)

    def ufl_cell(self):
        return ufl.Cell("triangle")

    def can_make_function_space(self, element):
        return True

    def __repr__(self):
        return "_ShiftDomain()"

    def __hash__(self):
        return 7

    def __eq__(self, other):
        return isinstance(other, _ShiftDomain)


def shift(counter, k):
    """Event: create k throw-away objects of the counted class (real constructors)."""
    if k == 0:
        return
    if counter == "Index":
        for _ in range(k):
            ufl.Index()
    elif counter == "Coefficient":
        V = ufl.FunctionSpace(None, E.P("triangle", 1))
        for n in range(k):
            if n % 2:
                ufl.Cofunction(V.dual())
            else:
                ufl.Coefficient(V)
    elif counter == "Constant":
        d = _ShiftDomain()
        for _ in range(k):
            ufl.Constant(d)
    elif counter == "Label":
        for n in range(k):
            if n % 2:
                ufl.variable(ufl.as_ufl(1.5))
            else:
                Label()
    elif counter == "Mesh":
        for _ in range(k):
            ufl.Mesh(E.P("triangle", 1, (2,)))
    elif counter == "Matrix":
        V = ufl.FunctionSpace(None, E.P("triangle", 1))
        for _ in range(k):
            Matrix(V, V)
    elif counter == "BaseFormOperator":
        V = ufl.FunctionSpace(None, E.P("triangle", 1))
        one = ufl.as_ufl(1.0)
        for _ in range(k):
            ufl.ExternalOperator(one, function_space=V)
    else:
        raise ValueError(counter)


def install(counter, value):
    """Sweep only: install a counter value directly (model of a history; confirmed by fork later)."""
    if counter == "Mesh":
        ufl.Mesh._ufl_global_id = value
    else:
        COUNTED[counter]._counter = itertools.count(value)


# --------------------------------------------------------------------------------------------------
# observation of one form
# --------------------------------------------------------------------------------------------------
def _norm(t, data):
    if isinstance(t, MultiIndex):
        return str(tuple("i" if (isinstance(x, int) and x < 0) else x for x in data))
    return str(data)


def trace(form, cap=20000):
    """Pre-order trace of every integrand: operators by class name, terminals with their signature data."""
    integrands = [itg.integrand() for itg in form.integrals()]
    renumbering = form._compute_renumbering()
    th = compute_terminal_hashdata(integrands, renumbering)
    out = []
    for n, e in enumerate(integrands):
        for t in pre_traversal(e):
            if t._ufl_is_terminal_:
                out.append([type(t).__name__, _norm(t, th[t]), str(th[t])])
            elif isinstance(t, BaseFormOperator) and _bfo_hashdata is not None:
                # base form operators carry data besides their operands (function space, derivatives, ...)
                out.append([type(t).__name__, str(_bfo_hashdata(t, renumbering))])
            else:
                out.append([type(t).__name__, ""])
            if len(out) > cap:
                break
        out.append(["|", str(n)])
    return out


def diagnose(ref_trace, cur_trace):
    """Where does the signature input differ: a terminal's own data, or the operand order."""
    raw_a = [x[2] for x in ref_trace if len(x) > 2]
    raw_b = [x[2] for x in cur_trace if len(x) > 2]
    ref_trace = [x[:2] for x in ref_trace]
    cur_trace = [x[:2] for x in cur_trace]
    a = sorted(tuple(x) for x in ref_trace if x[1] != "")
    b = sorted(tuple(x) for x in cur_trace if x[1] != "")
    if a != b:
        sa, sb = list(a), list(b)
        for x in a:
            if x in sb:
                sb.remove(x)
        for x in b:
            if x in sa:
                sa.remove(x)
        types = sorted({x[0] for x in sa} | {x[0] for x in sb})
        return "data:" + "+".join(types)
    ta = [x for x in ref_trace if x[1] != ""]
    tb = [x for x in cur_trace if x[1] != ""]
    for x, y in zip(ta, tb):
        if tuple(x) != tuple(y):
            # same terminals, met in another order: name the classes whose relative order flipped
            return "order:" + "/".join(sorted({x[0], y[0]}))
    for x, y in zip(ref_trace, cur_trace):
        if tuple(x) != tuple(y):
            return "structure:" + "/".join(sorted({x[0], y[0]}))
    if raw_a != raw_b:
        return "data:MultiIndex-numbering"
    return "other"


def observe(name, want_trace=False, twice=False):
    """Build catalogue form `name` in THIS process and observe it.  Never raises for UFL errors."""
    out = {"form": name}
    try:
        before = peek()
        form = CAT.BY_NAME[name]()
        after = peek()
        out["usage"] = {c: after[c] - before[c] for c in COUNTERS}
        out["sig"] = form.signature()
        if want_trace:
            out["trace"] = trace(form)
        if twice:
            form2 = CAT.BY_NAME[name]()
            out["sig2"] = form2.signature()
            if want_trace:
                out["trace2"] = trace(form2)
    except (KeyboardInterrupt, SystemExit):
        raise
    except BaseException as e:  # noqa: BLE001  (ArityMismatch etc. derive from BaseException)
        out["exc"] = type(e).__name__
        out["exc_msg"] = str(e)[:300]
    return out


def forked(fn, *args):
    """Run fn(*args) in a forked child and return its JSON-able result."""
    r, w = os.pipe()
    pid = os.fork()
    if pid == 0:
        code = 0
        try:
            os.close(r)
            try:
                res = {"ok": fn(*args)}
            except BaseException as e:  # noqa: BLE001
                res = {"harness_error": f"{type(e).__name__}: {e}\n{traceback.format_exc()}"}
                code = 3
            data = json.dumps(res).encode()
            off = 0
            while off < len(data):
                off += os.write(w, data[off:])
            os.close(w)
        finally:
            os._exit(code)
    os.close(w)
    chunks = []
    while True:
        b = os.read(r, 1 << 16)
        if not b:
            break
        chunks.append(b)
    os.close(r)
    os.waitpid(pid, 0)
    res = json.loads(b"".join(chunks).decode()) if chunks else {"harness_error": "child died without output"}
    if "harness_error" in res:
        raise RuntimeError("C12 harness error in forked child: " + res["harness_error"])
    return res["ok"]


# --------------------------------------------------------------------------------------------------
# zero history: reference signatures, traces and counter usage
# --------------------------------------------------------------------------------------------------
REF = {}  # form name -> {"sig", "trace", "usage"}
BASE = {}  # counter -> value in the clean parent
SINGLE_BAD = set()  # (counter, k, form) violating in single-counter states (filled before multi states)


def compute_reference(names):
    BASE.update(peek())
    for name in names:
        o = forked(observe, name, True, False)
        if "exc" in o:
            raise RuntimeError(f"catalogue form {name} does not build at the zero history: {o}")
        REF[name] = o


def state_key(state):
    """state: tuple of (counter, k) with k > 0, sorted by COUNTERS order."""
    return ",".join(f"{c}+{k}" for c, k in state)


def canon(state):
    d = dict(state)
    return tuple((c, d[c]) for c in COUNTERS if d.get(c, 0) > 0)


def compare(name, o, sig_field="sig", trace_field="trace"):
    """None if equal to the zero history, else a diagnosis tag."""
    ref = REF[name]
    if "exc" in o:
        return "exception:" + o["exc"]
    if o[sig_field] == ref["sig"]:
        return None
    if trace_field in o:
        return diagnose(ref["trace"], o[trace_field])
    return "undiagnosed"


def _observe_checked(name, twice):
    """In grandchild: observe; add traces only if something differs (keeps pipes small)."""
    o = observe(name, False, twice)
    ref = REF[name]
    if "exc" not in o and (o["sig"] != ref["sig"] or (twice and o["sig2"] != ref["sig"])):
        # rebuilding would shift the counters further; compute the traces in a fresh image instead
        o["need_trace"] = True
    return o


def _observe_traced(name, twice):
    return observe(name, True, twice)


def run_state(state, names, twice):
    """In a forked state child: perform the shifts, then one forked grandchild per form."""
    for c, k in state:
        shift(c, k)
    now = peek()
    d = dict(state)
    for c in COUNTERS:
        if now[c] != BASE[c] + d.get(c, 0):
            raise RuntimeError(f"shift events are not independent: state {state} gives {now}, base {BASE}")
    res = []
    for name in names[:-1]:
        o = forked(_observe_checked, name, twice)
        if o.get("need_trace"):
            o = forked(_observe_traced, name, twice)
        o.pop("usage", None)
        res.append(o)
    # nobody else needs this process image: the last form is built right here (saves one fork per state)
    o = _observe_traced(names[-1], twice)
    if "exc" not in o and o["sig"] == REF[names[-1]]["sig"] and (not twice or o["sig2"] == REF[names[-1]]["sig"]):
        o.pop("trace", None)
        o.pop("trace2", None)
    o.pop("usage", None)
    res.append(o)
    return res


def straddles(start, n):
    """Do n consecutive counts from `start` contain both B-1 and B for a power of ten B?"""
    return any(start <= B - 1 and start + n - 1 >= B for B in (10, 100, 1000, 10000))


def work_states(items):
    """pmap worker: items = (state, names, twice)."""
    part = Part()
    mismatch = []
    for state, names, twice in items:
        state = canon(state)
        res = forked(run_state, state, names, twice)
        part.inc("transitions", len(state))
        skey = state_key(state)
        for o in res:
            name = o["form"]
            part.inc("transitions", 2 if twice else 1)
            part.inc("states")
            part.inc("validated")
            use = REF[name]["usage"]
            if any(use[c] > 0 for c, _ in state):
                part.inc("nontrivial")
            if any(use[c] >= 2 and straddles(BASE[c] + k, use[c]) for c, k in state):
                part.count("cases_straddling_digit_boundary")
            part.outcome(f"{name}:{o.get('sig', o.get('exc'))[:16]}")
            if "exc" in o:
                part.error(o["exc"])
            tag = compare(name, o)
            witness = {
                "kind": "state",
                "shifts": dict(state),
                "absolute_start": {c: BASE[c] + k for c, k in state},
                "form": name,
                "signature": o.get("sig"),
                "zero_history_signature": REF[name]["sig"],
            }
            if tag is not None:
                mismatch.append([list(map(list, state)), name])
                if len(state) > 1 and any((c, k, name) in SINGLE_BAD for c, k in state):
                    part.count("multi_counter_mismatch_explained_by_single_counter_violation")
                else:
                    part.violation(
                        f"{skey}:{name} [{tag}]",
                        f"signature of catalogue form {name} after history {skey} differs from the zero history ({tag})",
                        witness,
                    )
            elif len(state) == 1 and len(part.d["samples"]) < 2:
                part.sample({"state": skey, "form": name, "signature": o["sig"][:16], "equal_to_zero_history": True})
            if twice and "exc" not in o:
                part.inc("states")
                part.inc("validated")
                part.inc("nontrivial")
                part.count("rebuild_cases")
                tag2 = compare(name, o, "sig2", "trace2")
                if tag2 is not None:
                    w2 = dict(witness, kind="rebuild", signature=o.get("sig2"))
                    at = f"@{skey}" if skey else ""
                    part.violation(
                        f"rebuild{at}:{name} [{tag2}]",
                        f"second build of {name} in one process (after history {skey or 'zero'}) has a different signature ({tag2})",
                        w2,
                    )
    d = part.dict()
    d["mismatch"] = mismatch
    return d


# --------------------------------------------------------------------------------------------------
# sweep (scout): contiguous ranges of start values, counter installed directly, in one process image
# --------------------------------------------------------------------------------------------------
def sweep_chunk(counter, values, names):
    bad = []
    n = 0
    for a in values:
        for name in names:
            for c in COUNTERS:
                install(c, BASE[c])
            install(counter, a)
            try:
                sig = CAT.BY_NAME[name]().signature()
            except (KeyboardInterrupt, SystemExit):
                raise
            except BaseException as e:  # noqa: BLE001
                sig = "exception:" + type(e).__name__
            n += 1
            if sig != REF[name]["sig"]:
                bad.append([counter, a - BASE[counter], name])
    return {"bad": bad, "n": n}


def work_sweep(items):
    part = Part()
    bad = []
    for counter, values, names in items:
        r = forked(sweep_chunk, counter, values, names)
        part.inc("evaluations", r["n"])
        part.count("sweep_cases", r["n"])
        bad += r["bad"]
    d = part.dict()
    d["bad"] = bad
    return d


# --------------------------------------------------------------------------------------------------
# sequential history and fresh interpreters
# --------------------------------------------------------------------------------------------------
def sequential(names):
    return [observe(n, True, False) for n in names]


def fresh_main():
    """Entry point in a fresh interpreter: zero history per form (forked) + sequential history."""
    names = [f.__name__ for f in CAT.CATALOGUE]
    out = {
        "ufl_file": ufl.__file__,
        "hashseed": os.environ.get("PYTHONHASHSEED"),
        "hash_probe": hash("ufl-c12-probe"),
        "base": peek(),
        "zero": [forked(observe, n, True, False) for n in names],
        "sequential": forked(sequential, names),
    }
    sys.stdout.write(json.dumps(out))


def run_fresh(seed):
    env = dict(os.environ)
    env["PYTHONHASHSEED"] = str(seed)
    pp = [p for p in env.get("PYTHONPATH", "").split(":") if p]
    verif = os.path.dirname(os.path.dirname(os.path.dirname(os.path.abspath(__file__))))
    if verif not in pp:
        pp.append(verif)
    env["PYTHONPATH"] = ":".join(pp)
    p = subprocess.run(
        [sys.executable, "-c", "from mc.props import c12; c12.fresh_main()"],
        env=env,
        capture_output=True,
        text=True,
        cwd=verif,
    )
    if p.returncode != 0:
        raise RuntimeError(f"fresh interpreter (hash seed {seed}) failed: {p.stderr[-2000:]}")
    out = json.loads(p.stdout)
    if os.path.realpath(out["ufl_file"]) != os.path.realpath(ufl.__file__):
        raise RuntimeError(f"fresh interpreter imported another ufl: {out['ufl_file']} vs {ufl.__file__}")
    return out


def check_fresh(run, seed, out, names):
    if out["base"] != BASE:
        raise RuntimeError(f"fresh interpreter has other base counters {out['base']} than the parent {BASE}")
    run.extra.setdefault("hash_probes", {})[str(seed)] = out["hash_probe"]
    for o in out["zero"]:
        name = o["form"]
        run.transitions += 1
        run.states += 1
        run.validated += 1
        run.nontrivial += 1
        run.count("fresh_interpreter_cases")
        run.outcomes.add(f"{name}:{o.get('sig', o.get('exc'))[:16]}")
        tag = compare(name, o)
        if tag is not None:
            run.violation(
                f"hashseed={seed}:{name} [{tag}]",
                f"signature of {name} built at the zero history in a fresh interpreter with PYTHONHASHSEED={seed} "
                f"differs from the in-process one ({tag})",
                {"kind": "hashseed", "seed": seed, "form": name, "signature": o.get("sig"),
                 "zero_history_signature": REF[name]["sig"]},
            )


def check_sequential(run, res, label, witness_extra, same_history=None):
    """Sequential history.  In-process: compared with the zero history.  Fresh interpreters: compared with
    the SAME history executed in-process (same_history), so that only the hash seed / process differs."""
    for i, o in enumerate(res):
        name = o["form"]
        run.transitions += 1
        run.states += 1
        run.validated += 1
        run.nontrivial += 1
        run.count("sequential_cases")
        if same_history is not None:
            ref = same_history[i]
            assert ref["form"] == name
            if o.get("sig") == ref.get("sig") and o.get("exc") == ref.get("exc"):
                tag = None
            elif "trace" in o and "trace" in ref:
                tag = diagnose(ref["trace"], o["trace"])
            else:
                tag = "exception:" + str(o.get("exc") or ref.get("exc"))
        else:
            tag = compare(name, o)
        if tag is not None:
            run.violation(
                f"{label}:{name} [{tag}]",
                f"signature of {name} built as part of the whole catalogue in one process ({label}) differs "
                f"from the {'same history in the parent process' if same_history is not None else 'zero history'} ({tag})",
                dict({"kind": "sequential", "form": name, "signature": o.get("sig"),
                      "zero_history_signature": REF[name]["sig"]}, **witness_extra),
            )


# --------------------------------------------------------------------------------------------------
# start value sets (absolute next-counter values; shift k = value - base)
# --------------------------------------------------------------------------------------------------
USER_K = [0, 1, 8, 9, 10, 90, 99, 100, 990]  # the k set of the design (shifts = number of throw-away objects)
# singles (thorough), absolute: every start from which one of up to 9 consecutive objects crosses 10 / 100,
# and the starts around 1000
DENSE = sorted(set(range(1, 12)) | set(range(91, 102)) | {990} | set(range(998, 1002)))
PAIR_QUICK = [9, 99]  # absolute starts
PAIR_FULL = [9, 10, 99, 100, 999]  # absolute starts
MULTI_QUICK = [9, 99]  # absolute starts for states shifting >= 3 counters (quick)
MULTI_FULL = [9, 10, 99]  # ... (thorough)
SWEEP_CONFIRM_CAP = 600  # at most this many sweep mismatches are re-executed as forked histories
IRRELEVANT_QUICK = [9]  # absolute starts at which forms NOT consuming the shifted class are also checked
IRRELEVANT_FULL = [9, 99]


def ks_for(counter, absolute, extra_shifts=()):
    base = BASE[counter]
    ks = {a - base for a in absolute if a > base}
    ks |= {k for k in extra_shifts if k > 0}
    return sorted(ks)


def _tree_stamp():
    """Fingerprint of the ufl sources; the fresh interpreters must import the same tree as this process."""
    root = os.path.dirname(os.path.abspath(ufl.__file__))
    st = []
    for d, _, files in os.walk(root):
        for f in files:
            if f.endswith(".py"):
                q = os.path.join(d, f)
                s = os.stat(q)
                st.append((q, s.st_mtime_ns, s.st_size))
    return hash(tuple(sorted(st)))


def _progress(run, msg):
    if os.environ.get("VERIF_C12_PROGRESS"):
        import time

        print(f"[C12 +{time.time() - run.t0:7.1f}s] {msg} (violations so far: {len(run.violations)})", file=sys.stderr)


def main(argv):
    run = Run(PID, argv)
    names = [f.__name__ for f in CAT.CATALOGUE]
    if run.args.replay:
        return replay(run)
    quick = not run.thorough()
    stamp = _tree_stamp()
    compute_reference(names)
    _progress(run, "reference done")
    run.transitions += len(names)
    for n in names:
        run.outcomes.add(f"{n}:{REF[n]['sig'][:16]}")

    support = {n: [c for c in COUNTERS if REF[n]["usage"][c] > 0] for n in names}

    # ---- single-counter states -------------------------------------------------------------------
    # every form that consumes objects of class X: all start values of the single set;
    # forms that do not consume X ("irrelevant" counter): start values 9 and 99 only (+ the whole sweep)
    pair_set = PAIR_QUICK if quick else PAIR_FULL
    multi_set = MULTI_QUICK if quick else MULTI_FULL
    # every start value used in a multi-counter state is also explored alone
    single_set = sorted(set([] if quick else DENSE) | set(pair_set) | set(multi_set))
    irrelevant_set = IRRELEVANT_QUICK if quick else IRRELEVANT_FULL
    plan = {(): list(names)}
    for c in COUNTERS:
        irrelevant_ks = ks_for(c, irrelevant_set)
        for k in sorted(set(ks_for(c, single_set, USER_K)) | set(irrelevant_ks)):
            forms = [n for n in names if c in support[n] or k in irrelevant_ks]
            if forms:
                plan[((c, k),)] = forms
    singles = [s for s in plan if s]
    ran_single = {(s[0][0], s[0][1], n) for s in singles for n in plan[s]}
    items = []
    for st, ns in plan.items():
        # the rebuild history (same form twice in one process) is run at the zero state and in every
        # single-counter state for the forms that consume the shifted class
        rel = [n for n in ns if not st or st[0][0] in support[n]]
        irr = [n for n in ns if n not in rel]
        if rel:
            items.append((st, rel, True))
        if irr:
            items.append((st, irr, False))
    for d in pmap(work_states, items, seed=run.seed):
        run.merge(d)
        for st, n in d["mismatch"]:
            if len(st) == 1:
                SINGLE_BAD.add((st[0][0], st[0][1], n))

    _progress(run, f"{len(singles)} single-counter states done")
    # ---- multi-counter states: per form, the full product over the counters the form consumes -----
    mplan = {}
    for n in names:
        for r in range(2, len(support[n]) + 1):
            for cs in itertools.combinations(support[n], r):
                opts = [ks_for(c, pair_set if r == 2 else multi_set) for c in cs]
                for ks in itertools.product(*opts):
                    mplan.setdefault(canon(tuple(zip(cs, ks))), []).append(n)
    multi = sorted(mplan)
    n_pairs = sum(1 for s in multi if len(s) == 2)
    for d in pmap(work_states, [(s, mplan[s], False) for s in multi], seed=run.seed):
        run.merge(d)

    _progress(run, f"{len(multi)} multi-counter states done")
    # ---- sweep: every start value in a contiguous range, confirmed by real forked histories -----
    hi = 130 if quick else 1100
    sweep_items = []
    for c in COUNTERS:
        vals = list(range(BASE[c], hi + 1))
        for s in range(0, len(vals), 12):
            sweep_items.append((c, vals[s : s + 12], names))
    cand = set()
    for d in pmap(work_sweep, sweep_items, seed=run.seed):
        cand |= {(c, k, n) for c, k, n in d["bad"]}
        run.merge(d)
    run.count("sweep_mismatches", len(cand))
    # consistency of the sweep model with the real histories on the cases explored both ways
    n_both = 0
    for c, k, n in sorted(ran_single):
        if BASE[c] + k <= hi:
            n_both += 1
            if ((c, k, n) in cand) != ((c, k, n) in SINGLE_BAD):
                raise RuntimeError(f"sweep (installed counter) disagrees with the forked history at {c}+{k}:{n}")
    run.count("sweep_cases_cross_checked_against_forked_histories", n_both)
    extra = [x for x in sorted(cand) if x not in ran_single]
    cap_hit = len(extra) > SWEEP_CONFIRM_CAP
    if cap_hit:
        # a mass failure: confirm (and report) an evenly spread deterministic subset only
        step = -(-len(extra) // SWEEP_CONFIRM_CAP)
        run.count("sweep_mismatches_not_re_executed_because_of_cap", len(extra) - len(extra[::step]))
        extra = extra[::step]
    todo = {}
    for c, k, n in extra:
        todo.setdefault(((c, k),), []).append(n)
    confirmed = 0
    for d in pmap(work_states, [(s, ns, False) for s, ns in sorted(todo.items())], seed=run.seed):
        run.merge(d)
        confirmed += len(d["mismatch"])
    n_todo = sum(len(v) for v in todo.values())
    run.count("sweep_mismatches_confirmed_by_forked_history", confirmed)
    if confirmed != n_todo:
        raise RuntimeError(f"{n_todo - confirmed} sweep mismatches were not reproduced by real forked histories")

    _progress(run, f"sweep done, {len(cand)} mismatches, {n_todo} confirmed by extra forked histories")
    # ---- sequential history (whole catalogue in one process) ------------------------------------
    seq_here = forked(sequential, names)
    check_sequential(run, seq_here, "sequential", {})

    # ---- fresh interpreters with other hash seeds ------------------------------------------------
    seeds = [0, 1, 2, 3, 12345]
    derived = 100000 + (run.seed % 100000)
    seeds_all = seeds + [derived]
    procs = pmap_fresh(seeds_all)
    for seed, out in zip(seeds_all, procs):
        check_fresh(run, seed, out, names)
        check_sequential(run, out["sequential"], f"hashseed={seed}/sequential", {"seed": seed}, seq_here)
    if _tree_stamp() != stamp:
        raise RuntimeError("the ufl source tree changed while C12 was running; fresh interpreters saw other code")
    if len(set(run.extra["hash_probes"].values())) < 3:
        raise RuntimeError("hash seeds did not take effect in the fresh interpreters")

    _progress(run, "fresh interpreters done")
    use = {n: {c: u for c, u in REF[n]["usage"].items() if u} for n in names}
    run.rule = (
        "cases = (counter-offset state, catalogue form); each state is reached by really creating throw-away "
        "objects in a forked image of a clean parent, each form is built in its own forked grandchild and "
        "form.signature() is compared with the zero history. Per form, the COMPLETE product of start-value sets "
        "over the counters the form consumes (measured) is enumerated: all single-counter starts of the single "
        "set, all pairs over the pair set, all r>=3 subsets over the multi set (the other counters at base); "
        "counters a form does not consume are shifted at start 9 (thorough: 9 and 99) and over the whole sweep range; plus "
        "rebuild (every single state), sequential and fresh-interpreter (hash seed) histories. Non-trivial = the "
        "form consumes at least one object of a shifted counter class (measured from the counters before/after "
        "the build); rebuild / sequential / fresh-interpreter cases always count"
    )
    run.bounds = {
        "catalogue_forms": len(names),
        "counters": COUNTERS,
        "base_counter_values_after_import": BASE,
        "single_counter_absolute_starts": single_set,
        "single_counter_extra_shifts_k": USER_K,
        "single_counter_states": len(singles),
        "pair_absolute_starts": pair_set,
        "pair_states": n_pairs,
        "multi_counter_states_total": len(multi),
        "starts_for_states_shifting_3_or_more_counters": multi_set,
        "starts_for_counters_a_form_does_not_consume": irrelevant_set,
        "sweep_absolute_start_range_per_counter": [0, hi],
        "hash_seeds": seeds,
        "hash_seed_derived_from_VERIF_SEED": derived,
        "objects_of_each_counter_class_used_per_form": use,
    }
    if os.environ.get("VERIF_C12_DUMP_KEYS"):
        with open(os.environ["VERIF_C12_DUMP_KEYS"], "w") as f:
            f.write("\n".join(sorted(v["key"] for v in run.violations)) + "\n")
    run.exhaustive = not cap_hit
    if cap_hit:
        run.bounds["cap_hit"] = f"more than {SWEEP_CONFIRM_CAP} sweep mismatches: only a subset was re-executed and reported"
    run.assumptions += [
        "the global state relevant to signatures consists of the seven creation counters; this is checked, not "
        "assumed, for the forked histories (real object creation); the in-process sweep installs counter values "
        "directly and every mismatch it finds is reproduced by a real forked history before being reported",
        "MeshView (the eighth counter) cannot occur in forms in this tree and is excluded",
        "hash seeds: a fixed handful plus one derived from VERIF_SEED (this one value is the only seed-dependent input)",
    ]
    run.finish()


def pmap_fresh(seeds):
    """Run the fresh interpreters concurrently (threads only wait for subprocesses)."""
    from concurrent.futures import ThreadPoolExecutor

    with ThreadPoolExecutor(max_workers=len(seeds)) as ex:
        return list(ex.map(run_fresh, seeds))


def replay(run):
    with open(run.args.replay) as f:
        w = json.load(f)["witness"]
    name = w["form"]
    compute_reference([name])
    kind = w["kind"]
    if kind in ("state", "rebuild"):
        state = canon(tuple(w["shifts"].items()))
        for d in [work_states([(state, [name], kind == "rebuild")])]:
            run.merge(d)
        if kind == "rebuild":
            run.violations = [v for v in run.violations if v["key"].startswith("rebuild")]
        else:
            run.violations = [v for v in run.violations if not v["key"].startswith("rebuild")]
    elif kind == "hashseed":
        out = run_fresh(w["seed"])
        out["zero"] = [o for o in out["zero"] if o["form"] == name]
        # the fresh interpreter built the whole catalogue; its trace for this form is compared
        full = [f.__name__ for f in CAT.CATALOGUE]
        check_fresh(run, w["seed"], out, full)
    elif kind == "sequential":
        full = [f.__name__ for f in CAT.CATALOGUE]
        if "seed" in w:
            out = run_fresh(w["seed"])
            here = forked(sequential, full)
            i = full.index(name)
            check_sequential(run, out["sequential"][i : i + 1], f"hashseed={w['seed']}/sequential",
                             {"seed": w["seed"]}, here[i : i + 1])
        else:
            res = forked(sequential, full[: full.index(name) + 1])
            check_sequential(run, res[-1:], "sequential", {})
    else:
        raise RuntimeError(f"unknown witness kind {kind}")
    print(f"replayed {kind} case for form {name}: zero-history signature {REF[name]['sig'][:16]}..., "
          f"{'REPRODUCED' if run.violations or run.known_hits else 'not reproduced'}")
    run.finish()
