"""C18 Estimated polynomial degree never underestimates the true degree.

BFS over polynomial integrands (sums, products, non-negative integer powers, every fixed component of
every form argument, index notation, tensor algebra, derivatives, x) over a catalogue of elements that
includes mixed, symmetric and Piola-mapped elements whose physical and reference value sizes differ.  For
every state the real estimate_total_polynomial_degree (directly and through compute_form_data) is
compared with the TRUE total degree in the reference coordinates of Sem(integrand) evaluated with generic
full-degree polynomial data (exact jets truncated at estimate + 3).  One direction only: an over-estimate
is never an alarm.
"""

import json

import numpy as np

import ufl
from mc import elements as E
from mc import envs as EV
from mc.explore import check_recipe, dedup, run_level
from mc.runner import Part, Run
from mc.sem import lang as L
from mc.sem import sem as M
from mc.sem.jet import Jet, Undefined, mpf, set_order

PID = "C18"


def universe(cellname, gdim):
    m = EV.mesh(cellname, gdim)
    c = cellname
    P1, P2, P3, P0 = E.P(c, 1), E.P(c, 2), E.P(c, 3), E.DG(c, 0)
    sym, k = {}, 0
    for i in range(2):
        for j in range(i, 2):
            sym[(i, j)] = sym[(j, i)] = k
            k += 1
    els = {
        "p1": P1,
        "p2": P2,
        "v2": E.P(c, 2, (2,)),
        "mx": E.Mixed([E.P(c, 2, (2,)), P1]),
        "mx2": E.Mixed([P1, P3]),
        "sy": E.Symmetric(sym, [P2, P2, P2]),
        "sy2": E.Symmetric(sym, [P1, P3, P1]),
        "msy": E.Mixed([E.Symmetric(sym, [P2, P2, P2]), P1]),
        "rt": E.RT(c, 2),
        "mrt": E.Mixed([E.RT(c, 2), P0]),
        "mn1": E.Mixed([P0, E.N1curl(c, 2)]),
        "nm": E.Mixed([E.Mixed([P3, P1]), P1]),
    }
    t = {}
    for n, el in els.items():
        t[n] = ufl.Coefficient(ufl.FunctionSpace(m, el))
    t["a"] = ufl.Argument(ufl.FunctionSpace(m, els["mx"]), 0)
    t["x"] = ufl.SpatialCoordinate(m)
    t["c"] = ufl.Constant(m)
    t["two"] = ufl.as_ufl(2)
    return L.Universe(t)


def true_degree(obj, env, order):
    """Max total degree in X over all components / free-index values; None if undefined."""
    set_order(order)
    ctx = M.Ctx(env)
    deg = 0
    tol = mpf("1e-25")
    for rho in M.free_index_assignments(obj):
        v = M.sem(obj, ctx, rho)
        arr = v.reshape(-1) if isinstance(v, np.ndarray) else [v]
        for s in arr:
            if isinstance(s, Jet):
                for k, cval in s.c.items():
                    if abs(cval) > tol:
                        d = sum(p for _, p in k)
                        deg = max(deg, d)
    return deg


def deg_check(recipe, obj, lts, ctxs, envs, part, U):
    from ufl.algorithms import estimate_total_polynomial_degree

    key = L.show_recipe(recipe)
    part.inc("transitions")
    ests = {}
    try:
        ests["estimate_total_polynomial_degree"] = estimate_total_polynomial_degree(obj)
    except BaseException as e:  # noqa: BLE001
        if isinstance(e, (KeyboardInterrupt, SystemExit, MemoryError)):
            raise
        part.error("estimate:" + type(e).__name__)
    if obj.ufl_shape == () and not obj.ufl_free_indices:
        from ufl.algorithms import compute_form_data

        part.inc("transitions")
        try:
            fd = compute_form_data(obj * ufl.dx, do_estimate_degrees=True)
            ds = [itg.metadata()["estimated_polynomial_degree"] for idata in fd.integral_data for itg in idata.integrals]
            if ds:
                ests["compute_form_data"] = max(ds)
            # integrals that already carry a (stale, too low) estimate in their metadata, as rebuilt preprocessed forms do
            fd = compute_form_data(obj * ufl.dx(metadata={"estimated_polynomial_degree": 0}), do_estimate_degrees=True)
            ds = [itg.metadata()["estimated_polynomial_degree"] for idata in fd.integral_data for itg in idata.integrals]
            if ds:
                ests["compute_form_data[stale metadata]"] = max(ds)
        except BaseException as e:  # noqa: BLE001
            if isinstance(e, (KeyboardInterrupt, SystemExit, MemoryError)):
                raise
            part.error("compute_form_data:" + type(e).__name__)
    if not ests:
        return None
    est_min = min(ests.values())
    if not isinstance(est_min, int):
        part.count("non_integer_estimate")
        return None
    env = envs[0]
    try:
        td = true_degree(obj, env, est_min + 3)
    except Undefined:
        part.count("model_undefined")
        return None
    finally:
        set_order(1)
    part.inc("validated")
    part.outcome((min(td, 12), est_min))
    for how, est in ests.items():
        if td > est:
            part.violation(
                f"{PID}:{how}:{key}",
                f"{how} of {key} is {est} but the true polynomial degree is {'>= ' if td >= est + 3 else ''}{td}",
                {"recipe": recipe, "show": key, "how": how, "estimate": est, "true_degree": td, "expr": repr(obj)[:1000], "env": env.describe()},
            )
            return "VIOLATION"
    return None


def tuple_derivative_pass(run, cellname, gdim):
    """Gateaux derivatives with respect to a TUPLE of coefficients of unequal degrees: UFL creates the direction
    Argument itself, on an internal mixed element.  All ordered pairs of the stated coefficients x a catalogue of
    integrands; estimate by compute_form_data (derivatives are expanded first), truth from Sem of the derivative."""
    from ufl.algorithms import compute_form_data

    U = universe(cellname, gdim)
    env = EV.cell_envs(cellname, gdim, n=1)[0]
    m = t_mesh = U.t["p1"].ufl_domain()
    t = dict(U.t)
    # unequal degrees with a gap of two, so that no other term of the derivative reaches the degree of the high one
    t["p3"] = ufl.Coefficient(ufl.FunctionSpace(m, E.P(cellname, 3)))
    t["v3"] = ufl.Coefficient(ufl.FunctionSpace(m, E.P(cellname, 3, (2,))))
    names = ["p1", "p3", "v3", "p2"]
    cat = {
        "a*b": lambda a, b: ufl.inner(a, a) * ufl.inner(b, b),
        "grad(a)^2+b^2": lambda a, b: ufl.inner(ufl.grad(a), ufl.grad(a)) + ufl.inner(b, b),
        "a^2+grad(b)^2": lambda a, b: ufl.inner(a, a) + ufl.inner(ufl.grad(b), ufl.grad(b)),
        "a^3+b": lambda a, b: ufl.inner(a, a) ** 2 + ufl.inner(b, b),
        "x*a^2+b^2": lambda a, b: t["x"][0] * ufl.inner(a, a) + ufl.inner(b, b),
    }
    part = Part()
    for na in names:
        for nb in names:
            if na == nb:
                continue
            for fname, mk in cat.items():
                key = f"derivative({fname}, ({na},{nb}))"
                part.inc("transitions")
                try:
                    D = ufl.derivative(mk(t[na], t[nb]), (t[na], t[nb]))
                    fd = compute_form_data(D * ufl.dx, do_estimate_degrees=True)
                    ds = [itg.metadata()["estimated_polynomial_degree"] for idata in fd.integral_data for itg in idata.integrals]
                    est = max(ds)
                except BaseException as e:  # noqa: BLE001
                    if isinstance(e, (KeyboardInterrupt, SystemExit, MemoryError)):
                        raise
                    part.error("tuple_derivative:" + type(e).__name__)
                    continue
                try:
                    td = true_degree(D, env, est + 3)
                except Undefined:
                    part.count("model_undefined")
                    continue
                finally:
                    set_order(1)
                part.inc("states")
                part.inc("validated")
                part.inc("nontrivial")
                part.outcome(("tuple-derivative", min(td, 12), est))
                if td > est:
                    part.violation(
                        f"{PID}:tuple-derivative:{cellname}{gdim}d:{key}",
                        f"compute_form_data estimates degree {est} for {key} but the true polynomial degree is {'>= ' if td >= est + 3 else ''}{td}",
                        {"tuple_derivative": [fname, na, nb], "mesh": [cellname, gdim], "estimate": est, "true_degree": td},
                    )
    run.merge(part.dict())
    run.bounds[f"{cellname}{gdim}d:tuple_derivatives"] = len(names) * (len(names) - 1) * len(cat)


def main(argv):
    run = Run(PID, argv)
    quick = not run.thorough()
    set_order(1)
    if run.args.replay:
        return replay(run)
    meshes = [("triangle", 2), ("triangle", 3)] + ([] if quick else [("tetrahedron", 3)])
    for cellname, gdim in meshes:
        explore(run, cellname, gdim, quick)
        tuple_derivative_pass(run, cellname, gdim)
    run.bounds.update(
        meshes=[f"{c}{g}d" for c, g in meshes],
        grammar="level 1: every fixed component of every form argument, pool-index components, grad/div/dx, squares and cubes; level 2: all products and sums of "
        "level-1 scalars (pairs), inner/dot/outer of terminals, powers; level 3 (comb): products with a third component, derivatives of products",
    )
    run.rule = "every polynomial integrand of the grammar; state = distinct repr; the estimate is compared with the exact degree of the model value; non-trivial = value non-zero"
    run.assumptions += [
        "field data are generic polynomials of exactly the element degree in every monomial, so the measured degree is the true generic degree",
        "affine simplex cells; only polynomial operators are in the alphabet (no division, math functions, conditionals)",
    ]
    run.finish()


def explore(run, cellname, gdim, quick):
    U = universe(cellname, gdim)
    env = EV.cell_envs(cellname, gdim, n=1)[0]
    envs = [env]
    seen = set()
    tag = f"{cellname}{gdim}d"

    def level(cands, lvl, sample_every=0):
        import sys
        import time

        cands = sorted(set(cands), key=repr)
        if run.smoke:
            cands = cands[:: max(1, len(cands) // 80)]
            run.exhaustive = False
        print(f"[{PID}] {tag} level {lvl}: {len(cands)} candidates t={time.time() - run.t0:.0f}s", file=sys.stderr)
        run.bounds[f"{tag}:level{lvl}_candidates"] = len(cands)
        new = run_level(cands, U, envs, PID, run, run.seed, extra_check=deg_check, compare=False, sample_every=sample_every)
        sts, _ = dedup(new, seen, lvl, run)
        return sts

    l0 = level([("t", n) for n in U.t], 0)
    c = []
    for s in l0:
        r = s.recipe
        if s.rank == 1:
            for k in range(s.shape[0]):
                c.append(("getitem", r, k))
            c.append(("getitem", r, "i"))
        if s.rank == 2:
            for a in range(s.shape[0]):
                for b in range(s.shape[1]):
                    c.append(("getitem", r, a, b))
            c += [("getitem", r, "i", "i"), ("getitem", r, 0, "i"), ("getitem", r, "i", 1), ("tr", r), ("transpose", r)]
        c += [("grad", r), ("dx", r, 0), ("nabla_grad", r)]
        if s.rank >= 1 and s.shape[-1] == gdim:
            c.append(("divg", r))
        if s.rank == 0:
            c += [("pow", r, ("num", 2)), ("pow", r, ("num", 3)), ("pow", r, ("num", 0))]
        else:
            c += [("inner", r, r), ("pow", r, ("num", 2))]
    l1 = level(c, 1, sample_every=20)
    sc1 = [s for s in l0 + l1 if s.rank == 0 and not s.fid]
    c = []
    for i, a in enumerate(sc1):
        for b in sc1[i:]:
            c.append(("mul", a.recipe, b.recipe))
            c.append(("add", a.recipe, b.recipe))
    for a in l0:
        for b in l0:
            for op in ("dot", "inner", "outer", "mul"):
                c.append((op, a.recipe, b.recipe))
    for s in l1:
        if s.rank == 0 and not s.fid:
            c += [("pow", s.recipe, ("num", 2)), ("grad", s.recipe)]
        elif not s.fid:
            c += [("inner", s.recipe, s.recipe)]
            for k in range(min(s.shape[0], 3)):
                c.append(("getitem", s.recipe) + (k,) + (0,) * (s.rank - 1))
    l2 = level(c, 2, sample_every=500)
    # level 3 comb: multiply level-2 scalars with single components; differentiate products
    comps = [s for s in l1 if s.rank == 0 and not s.fid and s.recipe[0] == "getitem"]
    if quick:
        comps = [s for s in comps if s.recipe[1][1] in ("msy", "mrt", "sy2", "mx")]
    c = []
    src = [s for s in l2 if s.rank == 0 and not s.fid]
    if quick:
        src = sorted(src, key=lambda s: (len(repr(s.recipe)), repr(s.recipe)))[:300]
    for s in src:
        for b in comps:
            c.append(("mul", s.recipe, b.recipe))
        c += [("grad", s.recipe), ("dx", s.recipe, 0)]
    l3 = level(c, 3, sample_every=5000)
    run.bounds[f"{tag}:levels"] = [len(l0), len(l1), len(l2), len(l3)]
    run.bounds["terminals"] = sorted(U.t)


def replay(run):
    with open(run.args.replay) as f:
        rp = json.load(f)

    def tup(x):
        return tuple(tup(y) for y in x) if isinstance(x, list) else x

    if "tuple_derivative" in rp["witness"]:
        cellname, gdim = rp["witness"]["mesh"]
        tuple_derivative_pass(run, cellname, gdim)  # the whole (small) pass of that mesh
        return run.finish()
    recipe = tup(rp["witness"]["recipe"])
    part = Part()
    name = rp["witness"]["env"]["name"]
    for cellname, gdim in [("triangle", 2), ("triangle", 3), ("tetrahedron", 3)]:
        if not name.startswith(f"{cellname}{gdim}d"):
            continue
        U = universe(cellname, gdim)
        env = EV.cell_envs(cellname, gdim, n=1)[0]
        check_recipe(recipe, U, [env], part, PID, extra_check=deg_check, compare=False)
    run.merge(part.dict())
    run.states = 1
    run.finish()
