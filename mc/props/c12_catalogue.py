"""C12 catalogue: small forms written as builder functions.

Every builder takes nothing, creates ALL its objects (meshes, spaces, coefficients, constants, indices,
variables, ...) itself in a fixed order and returns a ``ufl.Form``.  Building the same form "in the same
way" means calling the same builder; only the starting values of the global counters differ between
histories.
"""

import ufl
from mc import elements as _E0
from ufl.cell import CellSequence
from ufl.classes import CellVolume, Circumradius, FacetNormal, Jacobian, SpatialCoordinate

def _stable(e):
    """Give a harness element a repr that does not depend on the hash seed.

    mc.elements embeds repr(sobolev_space) in the element repr (= its signature data);
    SobolevSpace.__repr__ lists a frozenset of parents, whose order depends on PYTHONHASHSEED.  That is
    an artefact of the harness elements (the elements of the repo's own tests print the space *name*),
    so it is removed here: the hash-seed runs must only see UFL's own behaviour.
    """
    subs = [_stable(s) for s in e.sub_elements]
    if type(e) is _E0.Elem:
        e._rep = (
            f"Elem({e._family!r}, {e.cell!r}, {e._degree}, {e._rvs}, {e.pullback!r}, {e.sobolev_space.name!r})"
        )
    else:
        e._rep = f"{type(e).__name__}({subs!r})"
    return e


class E:
    """The element factories of mc.elements with stable reprs."""

    P = staticmethod(lambda *a, **k: _stable(_E0.P(*a, **k)))
    DG = staticmethod(lambda *a, **k: _stable(_E0.DG(*a, **k)))
    RT = staticmethod(lambda *a, **k: _stable(_E0.RT(*a, **k)))
    Mixed = staticmethod(lambda subs: _stable(_E0.Mixed(subs)))


class EV:
    """Meshes built exactly like mc.envs.mesh (not imported: keeps the forked process images small)."""

    TDIM = {"interval": 1, "triangle": 2, "tetrahedron": 3}

    @staticmethod
    def mesh(cellname, gdim=None):
        gdim = gdim or EV.TDIM[cellname]
        return ufl.Mesh(E.P(cellname, 1, (gdim,)))


# objects of one class in the "many" forms: every start in (B-9, B) makes an adjacent pair straddle the digit
# boundary B, while the zero history (counts 0..8) does not straddle one itself
N_MANY = 9
N_IDX = 12


def _tri():
    m = EV.mesh("triangle")
    S = ufl.FunctionSpace(m, E.P("triangle", 1))
    return m, S


def _tri_uv():
    m, S = _tri()
    return m, S, ufl.TrialFunction(S), ufl.TestFunction(S)


# ---------------------------------------------------------------------------------- plain / arguments
def mass():
    m, S, u, v = _tri_uv()
    return u * v * ufl.dx


def poisson_index_grad():
    m, S, u, v = _tri_uv()
    i, j = ufl.indices(2)
    T = ufl.FunctionSpace(m, E.P("triangle", 2, (2,)))
    w = ufl.Coefficient(T)
    return ufl.grad(w)[i, j] * ufl.grad(w)[j, i] * u * v * ufl.dx + ufl.inner(ufl.grad(u), ufl.grad(v)) * ufl.dx


def arguments_mixed_stokes():
    m = EV.mesh("triangle")
    W = ufl.FunctionSpace(m, E.Mixed([E.P("triangle", 2, (2,)), E.P("triangle", 1)]))
    u, p = ufl.TrialFunctions(W)
    v, q = ufl.TestFunctions(W)
    nu = ufl.Constant(m)
    f = ufl.Coefficient(ufl.FunctionSpace(m, E.P("triangle", 1, (2,))))
    a = nu * ufl.inner(ufl.grad(u), ufl.grad(v)) * ufl.dx - p * ufl.div(v) * ufl.dx - q * ufl.div(u) * ufl.dx
    return a + ufl.dot(f, v) * ufl.dx(metadata={"quadrature_degree": 3})


def mixed_split_coefficient():
    m = EV.mesh("triangle")
    W = ufl.FunctionSpace(m, E.Mixed([E.RT("triangle", 1), E.DG("triangle", 0), E.P("triangle", 1, (2,))]))
    w = ufl.Coefficient(W)
    z = ufl.Coefficient(W)
    s, p, r = ufl.split(w)
    s2, p2, r2 = ufl.split(z)
    t = ufl.TestFunction(W)
    return (ufl.dot(s, s2) * p * p2 + ufl.dot(r, r2)) * t[0] * ufl.dx


# ------------------------------------------------------------------------------------------ Constants
def const_pair_mass():
    m, S, u, v = _tri_uv()
    c1 = ufl.Constant(m)
    c2 = ufl.Constant(m)
    return c1 * c2 * u * v * ufl.dx


def const_pair_reversed():
    m, S, u, v = _tri_uv()
    c1 = ufl.Constant(m)
    c2 = ufl.Constant(m)
    return c2 * c1 * u * v * ufl.dx


def const_triple_sum():
    m, S, u, v = _tri_uv()
    c1, c2, c3 = (ufl.Constant(m) for _ in range(3))
    return (c1 + c2 + c3) * v * ufl.dx


def const_many_product():
    m, S = _tri()
    cs = [ufl.Constant(m) for _ in range(N_MANY)]
    # every adjacent pair is compared directly (c_n * c_{n+1}), the products are compared in the sum,
    # and one nested product compares a terminal with non-terminals
    e = cs[0] * cs[1]
    for n in range(1, N_MANY - 1):
        e = e + cs[n] * cs[n + 1]
    p = cs[0]
    for c in cs[1:]:
        p = p * c
    return (e + p) * ufl.dx


def const_many_sum_spaced():
    # constants used in the form are every second created one
    m, S = _tri()
    cs = [ufl.Constant(m) for _ in range(N_MANY)]
    used = cs[0::2]
    e = used[0] + used[1]
    for n in range(1, len(used) - 1):
        e = e * (used[n] + used[n + 1])
    return e * ufl.dx


def const_shapes():
    m, S, u, v = _tri_uv()
    c = ufl.Constant(m)
    cv = ufl.Constant(m, shape=(2,))
    ct = ufl.Constant(m, shape=(2, 2))
    cv2 = ufl.Constant(m, shape=(2,))
    c2 = ufl.Constant(m)
    ct2 = ufl.Constant(m, shape=(2, 2))
    return (ufl.inner(cv, cv2) * c + ufl.inner(ct2, ct) * c2 + ufl.dot(ct * cv, cv2)) * u * v * ufl.dx


def const_tensor_index():
    m, S = _tri()
    a = ufl.Constant(m, shape=(2, 2))
    b = ufl.Constant(m, shape=(2, 2))
    i, j = ufl.indices(2)
    return (a[i, j] * b[i, j] + a[i, i] * b[j, j]) * ufl.dx


def const_conditional():
    m, S, u, v = _tri_uv()
    c1, c2, c3, c4 = (ufl.Constant(m) for _ in range(4))
    cond = ufl.And(ufl.lt(c1, c2), ufl.Not(ufl.Or(ufl.ge(c3, c4), ufl.eq(c1, c4))))
    return ufl.conditional(cond, c3 + c4, ufl.max_value(c1, c2) * ufl.min_value(c3, c4)) * v * ufl.dx


def const_noncommutative():
    m, S = _tri()
    c1, c2, c3 = (ufl.Constant(m) for _ in range(3))
    return (c1 / c2 + c2**c3 - abs(c1 - c3)) * ufl.dx


def const_coef_sum_of_products():
    m, S, u, v = _tri_uv()
    f = ufl.Coefficient(S)
    c1 = ufl.Constant(m)
    g = ufl.Coefficient(S)
    c2 = ufl.Constant(m)
    return (c1 * f + c2 * g + c2 * f * c1 * g) * v * ufl.dx


# --------------------------------------------------------------------------------------- Coefficients
def coef_pair():
    m, S, u, v = _tri_uv()
    f = ufl.Coefficient(S)
    g = ufl.Coefficient(S)
    return g * f * v * ufl.dx + f * g * u * v * ufl.dx(1)


def coef_many_sum():
    m, S = _tri()
    fs = [ufl.Coefficient(S) for _ in range(N_MANY)]
    e = fs[-1] * fs[-2]
    for n in reversed(range(N_MANY - 2)):
        e = e + fs[n + 1] * fs[n] + (fs[n + 1] + fs[n]) ** 2
    return e * ufl.dx


def coef_nonlinear():
    m, S, u, v = _tri_uv()
    f = ufl.Coefficient(S)
    g = ufl.Coefficient(S)
    return (ufl.sin(f) * ufl.exp(g) + ufl.sqrt(f * f + 1) * ufl.ln(2 + g * g) + ufl.atan2(f, g)) * v * ufl.dx


# --------------------------------------------------------------------------------------------- Meshes
def two_mesh_cellvolume():
    m1 = EV.mesh("triangle")
    m2 = EV.mesh("triangle")
    return CellVolume(m1) * CellVolume(m2) * ufl.dx(m1)


def two_mesh_cellvolume_reversed():
    m1 = EV.mesh("triangle")
    m2 = EV.mesh("triangle")
    return CellVolume(m2) * CellVolume(m1) * ufl.dx(m2)


def two_mesh_x_inner():
    m1 = EV.mesh("triangle")
    m2 = EV.mesh("triangle")
    return ufl.inner(SpatialCoordinate(m1), SpatialCoordinate(m2)) * ufl.dx(m1)


def three_mesh_sum():
    m1 = EV.mesh("triangle")
    m2 = EV.mesh("triangle")
    m3 = EV.mesh("triangle")
    return (Circumradius(m3) + Circumradius(m1) + Circumradius(m2)) * ufl.dx(m2)


def many_mesh_sum():
    ms = [EV.mesh("triangle") for _ in range(N_MANY)]
    e = CellVolume(ms[0]) * CellVolume(ms[1])
    for n in range(1, N_MANY - 1):
        e = e + CellVolume(ms[n]) * Circumradius(ms[n + 1]) + (Circumradius(ms[n]) + Circumradius(ms[n + 1])) ** 2
    return e * ufl.dx(ms[3])


def two_mesh_constants():
    m1 = EV.mesh("triangle")
    m2 = EV.mesh("triangle")
    c_on_2 = ufl.Constant(m2)
    c_on_1 = ufl.Constant(m1)
    return c_on_1 * c_on_2 * ufl.dx(m1)


def two_mesh_integrals():
    m1 = EV.mesh("triangle")
    m2 = EV.mesh("triangle")
    f1 = ufl.Coefficient(ufl.FunctionSpace(m1, E.P("triangle", 1)))
    f2 = ufl.Coefficient(ufl.FunctionSpace(m2, E.P("triangle", 2)))
    return f2 * ufl.dx(m2) + f1 * ufl.dx(m1) + f2 * f2 * ufl.ds(m2) + f1 * ufl.dx(2, domain=m1)


def two_mesh_facet_normals():
    m1 = EV.mesh("triangle")
    m2 = EV.mesh("triangle")
    return ufl.inner(FacetNormal(m1), FacetNormal(m2)) * ufl.ds(m1)


def two_mesh_coefficients():
    m1 = EV.mesh("triangle")
    m2 = EV.mesh("triangle")
    g = ufl.Coefficient(ufl.FunctionSpace(m2, E.P("triangle", 1)))
    f = ufl.Coefficient(ufl.FunctionSpace(m1, E.P("triangle", 1)))
    v = ufl.TestFunction(ufl.FunctionSpace(m1, E.P("triangle", 1)))
    return f * g * v * ufl.dx(m1)


class _MixedSeq(_E0.Mixed):
    """Mixed element on a CellSequence (one cell per sub element), as needed by MeshSequence."""

    def __init__(self, subs):
        _E0.Mixed.__init__(self, subs)
        self._cell = CellSequence(tuple(e.cell for e in subs))
        _stable(self)


def mesh_sequence_mixed():
    m0 = EV.mesh("triangle")
    m1 = EV.mesh("triangle")
    m2 = EV.mesh("triangle")
    e0, e1, e2 = E.P("triangle", 1), E.RT("triangle", 1), E.DG("triangle", 1)
    V = ufl.FunctionSpace(ufl.MeshSequence([m0, m1, m2]), _MixedSeq([e0, e1, e2]))
    u1 = ufl.TrialFunction(ufl.FunctionSpace(m1, e1))
    v0 = ufl.TestFunction(ufl.FunctionSpace(m0, e0))
    g = ufl.Coefficient(V)
    f = ufl.Coefficient(V)
    f0, _f1, _f2 = ufl.split(f)
    _g0, g1, _g2 = ufl.split(g)
    dx2 = ufl.Measure("dx", m2, intersect_measures=(ufl.Measure("dx", m1), ufl.Measure("dx", m0)))
    x1 = SpatialCoordinate(m1)
    return x1[1] * f0 * ufl.div(g1) * ufl.inner(u1, ufl.grad(v0)) * dx2(999) + CellVolume(m0) * CellVolume(m2) * f0 * ufl.dx(m0)


def geometry_one_mesh():
    m = EV.mesh("tetrahedron")
    x = SpatialCoordinate(m)
    return ufl.det(Jacobian(m)) * CellVolume(m) * x[0] * x[2] * Circumradius(m) * ufl.dx


def interval_form():
    m = EV.mesh("interval")
    S = ufl.FunctionSpace(m, E.P("interval", 2))
    u = ufl.TrialFunction(S)
    v = ufl.TestFunction(S)
    c = ufl.Constant(m)
    d = ufl.Constant(m)
    return d * c * u.dx(0) * v.dx(0) * ufl.dx + c * u * v * ufl.ds


# ------------------------------------------------------------------------- zeros carrying free indices
def zero_free_index_cond():
    m = EV.mesh("triangle")
    f = ufl.Coefficient(ufl.FunctionSpace(m, E.P("triangle", 1, (2,))))
    i = ufl.Index()
    return ufl.conditional(ufl.lt(f[0], 1), 0 * f[i], f[i]) * f[i] * ufl.dx


def zero_two_free_indices():
    m = EV.mesh("triangle")
    A = ufl.Coefficient(ufl.FunctionSpace(m, E.P("triangle", 1, (2, 2))))
    i, j = ufl.indices(2)
    return ufl.conditional(ufl.gt(A[0, 0], 0), A[i, j], 0 * A[j, i]) * A[i, j] * ufl.dx


def zero_no_free_index():
    m = EV.mesh("triangle")
    f = ufl.Coefficient(ufl.FunctionSpace(m, E.P("triangle", 1, (2,))))
    return ufl.dot(ufl.conditional(ufl.lt(f[0], 1), 0 * f, f), f) * ufl.dx


# ------------------------------------------------------------------------------------ variables, diff
def variable_diff():
    m, S, u, v = _tri_uv()
    f = ufl.Coefficient(S)
    e = ufl.variable(f)
    return ufl.diff(e**2 * ufl.sin(e), e) * v * ufl.dx


def two_variables():
    m, S, u, v = _tri_uv()
    f = ufl.Coefficient(S)
    g = ufl.Coefficient(S)
    a = ufl.variable(f)
    b = ufl.variable(g)
    psi = b * a + a * a * b
    return (ufl.diff(psi, a) * ufl.diff(psi, b) + b * a) * v * ufl.dx


def variables_same_expr():
    m, S, u, v = _tri_uv()
    f = ufl.Coefficient(S)
    a = ufl.variable(f)
    b = ufl.variable(f)
    c = ufl.variable(f)
    return (c * a * b + b + a + c) * v * ufl.dx


def many_variables():
    m, S = _tri()
    f = ufl.Coefficient(S)
    vs = [ufl.variable(f * (n + 2)) for n in range(N_MANY)]
    e = vs[-1] * vs[-2]
    for n in reversed(range(N_MANY - 2)):
        e = e + vs[n + 1] * vs[n] + (vs[n + 1] + vs[n]) ** 2
    return ufl.diff(e, vs[5]) * ufl.dx


def variable_tensor_diff():
    m = EV.mesh("triangle")
    T = ufl.FunctionSpace(m, E.P("triangle", 1, (2, 2)))
    A = ufl.Coefficient(T)
    F = ufl.variable(ufl.Identity(2) + A)
    psi = ufl.tr(F.T * F) + ufl.det(F) ** 2
    return ufl.inner(ufl.diff(psi, F), ufl.grad(ufl.TestFunction(ufl.FunctionSpace(m, E.P("triangle", 1, (2,)))))) * ufl.dx


# ------------------------------------------------------------------------------------- index notation
def index_chain():
    m = EV.mesh("triangle")
    T = ufl.FunctionSpace(m, E.P("triangle", 1, (2, 2)))
    A = ufl.Coefficient(T)
    B = ufl.Coefficient(T)
    C = ufl.Coefficient(T)
    i, j, k = ufl.indices(3)
    return A[i, j] * B[j, k] * C[k, i] * ufl.dx


def index_as_tensor():
    m = EV.mesh("triangle")
    A = ufl.Coefficient(ufl.FunctionSpace(m, E.P("triangle", 1, (2, 2))))
    w = ufl.Coefficient(ufl.FunctionSpace(m, E.P("triangle", 1, (2,))))
    i, j, k, l = ufl.indices(4)
    t = ufl.as_tensor(A[i, j] * w[j], (i,))
    s = ufl.as_tensor(A[k, l] * A[l, j], (j, k))
    return (t[k] * w[k] + s[i, i] + s[0, l] * t[l]) * ufl.dx


def index_many():
    m = EV.mesh("triangle")
    w = ufl.Coefficient(ufl.FunctionSpace(m, E.P("triangle", 1, (2,))))
    g = ufl.Coefficient(ufl.FunctionSpace(m, E.P("triangle", 1, (2,))))
    ii = ufl.indices(N_IDX)
    e = w[ii[0]] * g[ii[1]]
    for n in range(2, N_IDX):
        e = e * (w[ii[n]] if n % 2 == 0 else g[ii[n]])
    # contract pairs (0,11), (1,10), ... via a rank-12 object would be huge; multiply by deltas instead
    I = ufl.Identity(2)
    for n in range(N_IDX // 2):
        e = e * I[ii[n], ii[N_IDX - 1 - n]]
    return e * ufl.dx


def index_free_outer_unordered():
    # free indices created in the order j, i but used as (i, j): free-index sorting is by count
    m = EV.mesh("triangle")
    A = ufl.Coefficient(ufl.FunctionSpace(m, E.P("triangle", 1, (2, 2))))
    w = ufl.Coefficient(ufl.FunctionSpace(m, E.P("triangle", 1, (2,))))
    j = ufl.Index()
    i = ufl.Index()
    k = ufl.Index()
    e = ufl.as_tensor(w[i] * w[j] + A[j, i], (i, j))
    return (e[k, k] + (A[i, j] * A[j, i]) + A[i, k] * w[k] * w[i]) * ufl.dx


def implicit_indices_slices():
    m = EV.mesh("triangle")
    A = ufl.Coefficient(ufl.FunctionSpace(m, E.P("triangle", 1, (2, 2))))
    w = ufl.Coefficient(ufl.FunctionSpace(m, E.P("triangle", 1, (2,))))
    return (ufl.dot(A[:, 0], w) + ufl.inner(A.T, A) + ufl.dot(ufl.dot(A, w), A[1, :]) + ufl.tr(ufl.outer(w, w))) * ufl.dx


# --------------------------------------------------------------- conditionals, restrictions, measures
def conditional_coefs():
    m, S, u, v = _tri_uv()
    f = ufl.Coefficient(S)
    g = ufl.Coefficient(S)
    return ufl.conditional(ufl.gt(f, g), f, g) * ufl.conditional(ufl.ne(g, 0), g * f, 1) * v * ufl.dx


def restricted_dS():
    m, S, u, v = _tri_uv()
    f = ufl.Coefficient(S)
    g = ufl.Coefficient(S)
    n = FacetNormal(m)
    return ufl.jump(u) * ufl.avg(v) * ufl.dS + g("-") * f("+") * ufl.inner(ufl.jump(v, n), n("+")) * ufl.dS(2)


def restricted_constants_dS():
    m, S, u, v = _tri_uv()
    c1 = ufl.Constant(m)
    c2 = ufl.Constant(m)
    h = Circumradius(m)
    return c1 * c2 * ufl.jump(u) * ufl.jump(v) / ufl.avg(h) * ufl.dS + c2("+") * c1("-") * v("+") * ufl.dS


def metadata_subdomains():
    m, S, u, v = _tri_uv()
    c1 = ufl.Constant(m)
    c2 = ufl.Constant(m)
    a = u * v * ufl.dx(metadata={"quadrature_degree": 2, "rule": "default"})
    a += c1 * c2 * u * v * ufl.dx(degree=3)
    a += c2 * u * v * ufl.dx((1, 2)) + c1 * u * v * ufl.dx(1) + c1 * c2 * u * v * ufl.ds(3)
    a += c2 * c1 * u * v * ufl.dx(metadata={"nested": {"b": (1, 2), "a": [3]}})
    return a


# ----------------------------------------------------------------- forms produced by public operators
def derivative_unevaluated():
    m, S, u, v = _tri_uv()
    f = ufl.Coefficient(S)
    g = ufl.Coefficient(S)
    h = ufl.Coefficient(S)
    c = ufl.Constant(m)
    F = c * f * g * f * v * ufl.dx
    return ufl.derivative(F, f, u, coefficient_derivatives={h: g, g: f * c})


def derivative_expanded():
    from ufl.algorithms import expand_derivatives

    m, S, u, v = _tri_uv()
    f = ufl.Coefficient(S)
    g = ufl.Coefficient(S)
    c1 = ufl.Constant(m)
    c2 = ufl.Constant(m)
    F = c1 * c2 * ufl.inner(ufl.grad(f), ufl.grad(v)) * (1 + f * f * g) * ufl.dx
    return expand_derivatives(ufl.derivative(F, f, u))


def action_adjoint():
    m, S, u, v = _tri_uv()
    f = ufl.Coefficient(S)
    c1 = ufl.Constant(m)
    c2 = ufl.Constant(m)
    a = c1 * c2 * u.dx(0) * v * ufl.dx
    return ufl.action(ufl.adjoint(a), f)


def coordinate_derivative():
    m, S, u, v = _tri_uv()
    f = ufl.Coefficient(S)
    c1 = ufl.Constant(m)
    c2 = ufl.Constant(m)
    X = ufl.FunctionSpace(m, E.P("triangle", 1, (2,)))
    return ufl.derivative(c1 * c2 * f * f * ufl.dx, SpatialCoordinate(m), ufl.TestFunction(X))


def renumbered_indices():
    from ufl.algorithms.renumbering import renumber_indices

    m = EV.mesh("triangle")
    A = ufl.Coefficient(ufl.FunctionSpace(m, E.P("triangle", 1, (2, 2))))
    i, j, k = ufl.indices(3)
    z = 0 * A[i, k]
    return renumber_indices((A[i, j] * A[j, k] + ufl.conditional(ufl.lt(A[0, 0], 1), z, A[k, i])) * A[i, k] * ufl.dx)


def preprocessed_form():
    from ufl.algorithms import compute_form_data

    m = EV.mesh("triangle")
    V = ufl.FunctionSpace(m, E.P("triangle", 1, (2,)))
    u = ufl.TrialFunction(V)
    v = ufl.TestFunction(V)
    c1 = ufl.Constant(m)
    c2 = ufl.Constant(m)
    f = ufl.Coefficient(V)
    a = c1 * c2 * ufl.inner(ufl.grad(u), ufl.grad(v)) * ufl.dx + c2 * ufl.dot(f, u) * ufl.div(v) * ufl.dx
    a += c1 * ufl.dot(u, v) * ufl.ds
    fd = compute_form_data(
        a,
        do_apply_function_pullbacks=True,
        do_apply_geometry_lowering=True,
        do_apply_integral_scaling=True,
        preserve_geometry_types=(Jacobian,),
    )
    return fd.preprocessed_form


# ------------------------------------------------------------------------------- base form operators
def external_operator():
    m, S, u, v = _tri_uv()
    f = ufl.Coefficient(S)
    g = ufl.Coefficient(S)
    N = ufl.ExternalOperator(f, g, function_space=S)
    return N * v * ufl.dx


def two_external_operators():
    m, S, u, v = _tri_uv()
    f = ufl.Coefficient(S)
    g = ufl.Coefficient(S)
    c = ufl.Constant(m)
    N1 = ufl.ExternalOperator(f, function_space=S)
    N2 = ufl.ExternalOperator(g, c, function_space=S)
    return (N2 * N1 + N1 + N2) * v * ufl.dx


def external_operators_two_meshes():
    # same operands, function spaces on different meshes: only the operator data can order them
    m1 = EV.mesh("triangle")
    m2 = EV.mesh("triangle")
    S1 = ufl.FunctionSpace(m1, E.P("triangle", 1))
    S2 = ufl.FunctionSpace(m2, E.P("triangle", 1))
    f = ufl.Coefficient(S1)
    v = ufl.TestFunction(S1)
    N1 = ufl.ExternalOperator(f, function_space=S1)
    N2 = ufl.ExternalOperator(f, function_space=S2)
    # (CellVolume(m2) makes m2 a domain of the form; the operator's space alone does not)
    return (N2 * N1 + N1 + N2) * CellVolume(m2) * v * ufl.dx(m1)


def external_operators_argument_slots():
    # same operands and space, argument slots holding different coefficients
    m, S, u, v = _tri_uv()
    f = ufl.Coefficient(S)
    w1 = ufl.Coefficient(S)
    w2 = ufl.Coefficient(S)
    vstar = ufl.Argument(S.dual(), 0)
    N1 = ufl.ExternalOperator(f, function_space=S, derivatives=(1,), argument_slots=(vstar, w1))
    N2 = ufl.ExternalOperator(f, function_space=S, derivatives=(1,), argument_slots=(vstar, w2))
    return (N2 * N1 + N2 + N1) * v * ufl.dx


CATALOGUE = [
    mass,
    poisson_index_grad,
    arguments_mixed_stokes,
    mixed_split_coefficient,
    const_pair_mass,
    const_pair_reversed,
    const_triple_sum,
    const_many_product,
    const_many_sum_spaced,
    const_shapes,
    const_tensor_index,
    const_conditional,
    const_noncommutative,
    const_coef_sum_of_products,
    coef_pair,
    coef_many_sum,
    coef_nonlinear,
    two_mesh_cellvolume,
    two_mesh_cellvolume_reversed,
    two_mesh_x_inner,
    three_mesh_sum,
    many_mesh_sum,
    two_mesh_constants,
    two_mesh_integrals,
    two_mesh_facet_normals,
    two_mesh_coefficients,
    mesh_sequence_mixed,
    geometry_one_mesh,
    interval_form,
    zero_free_index_cond,
    zero_two_free_indices,
    zero_no_free_index,
    variable_diff,
    two_variables,
    variables_same_expr,
    many_variables,
    variable_tensor_diff,
    index_chain,
    index_as_tensor,
    index_many,
    index_free_outer_unordered,
    implicit_indices_slices,
    conditional_coefs,
    restricted_dS,
    restricted_constants_dS,
    metadata_subdomains,
    derivative_unevaluated,
    derivative_expanded,
    action_adjoint,
    coordinate_derivative,
    renumbered_indices,
    preprocessed_form,
    external_operator,
    two_external_operators,
    external_operators_two_meshes,
    external_operators_argument_slots,
]

BY_NAME = {f.__name__: f for f in CATALOGUE}
assert len(BY_NAME) == len(CATALOGUE)
