"""C13 part B: histories of comparison events.

`expr_equals` rewrites `self.ufl_operands = other.ufl_operands` after every successful comparison, and hashes
are cached lazily, so the *state* of an expression object depends on the comparisons it took part in.  Every
sequence of events `p == q` (p != q positions of a pool) up to a length bound is executed on a freshly built
pool; afterwards EVERY pool object must be observationally identical to the same object of a pool on which
nothing was compared (repr, hash, str, operand structure, shape, free indices, index dimensions, reference
value) and every comparison made during the history, recomputed, must give the result it gave first, which
in turn must be the result the same comparison gives on a fresh pool (differential oracle: the empty history).
Checking only at the end of each history is complete because every prefix is itself an enumerated history.
"""

import itertools

import ufl
import ufl.classes as C
from mc.props import c13_univ as U
from mc.runner import Part, pmap

G = {}


# -------------------------------------------------------------------------------------------------
# pools (rebuilt from scratch for every history)
# -------------------------------------------------------------------------------------------------


def _base():
    m1 = ufl.Mesh(U.EL("P", "triangle", 1, (2,)), ufl_id=101)
    S = ufl.FunctionSpace(m1, U.EL("P", "triangle", 1, ()))
    V = ufl.FunctionSpace(m1, U.EL("P", "triangle", 1, (2,)))
    return dict(
        m1=m1,
        f=C.Coefficient(S, count=3),
        g=C.Coefficient(S, count=4),
        v=C.Coefficient(V, count=5),
        c=C.Constant(m1, (), 3),
        # user subclass with a constant hash: h3 != h4 but hash(h3) == hash(h4), so the comparisons of p0 and p2
        # get past the hash cut-off of expr_equals
        h3=U.HC(S, 13),
        h4=U.HC(S, 14),
    )


def _operand(e, cls):
    (o,) = [x for x in e.ufl_operands if isinstance(x, cls)]
    return o


def pool_core():
    """7 objects: equal-but-distinct, nearly equal deep inside, shared subtrees, operand-of relations."""
    a, b = _base(), _base()  # two independent sets of terminal objects
    p0 = (a["f"] + a["g"]) * ufl.sin(a["h3"])
    p1 = (b["f"] + b["g"]) * ufl.sin(b["h3"])  # equal to p0, no shared object
    p2 = (a["f"] + a["g"]) * ufl.sin(a["h4"])  # differs from p0 deep inside, SAME HASH; terminals shared with p0
    p3 = _operand(p0, C.Sum)  # the very operand object of p0
    p4 = b["f"] + b["g"]  # equal to p3, distinct from p1's operand
    p5 = p0 + a["c"]  # has p0 as operand object
    q = (b["f"] + b["g"]) * ufl.sin(b["h3"])
    p6 = q + b["c"]  # equal to p5, no shared operator object
    return [p0, p1, p2, p3, p4, p5, p6]


POOL_CORE_NAMES = [
    "p0=(f+g)*sin(h3)",
    "p1=(f+g)*sin(h3) [independent copy]",
    "p2=(f+g)*sin(h4) [hash(h4)==hash(h3), h4!=h3; shares terminals with p0]",
    "p3=the Sum operand object of p0",
    "p4=f+g [independent copy]",
    "p5=p0+c [p0 is its operand object]",
    "p6=((f+g)*sin(h3))+c [independent copy]",
]


def pool_ext():
    """custom __eq__ (Variable), index notation (cached index slots), list tensors, conditionals + 3 core objects."""
    a, b = _base(), _base()
    p0 = (a["f"] + a["g"]) * ufl.sin(a["h3"])
    p1 = (b["f"] + b["g"]) * ufl.sin(b["h3"])
    p2 = _operand(p0, C.Sum)
    i7 = C.Index(U.I7)
    p3 = C.Variable(p2, C.Label(5))  # wraps the operand object of p0
    p4 = C.Variable(b["f"] + b["g"], C.Label(5))
    p5 = ufl.as_vector([a["v"][i7] * a["v"][i7], p2])[0] + ufl.conditional(ufl.lt(a["f"], a["g"]), p2, a["c"])
    p6 = ufl.as_vector([b["v"][i7] * b["v"][i7], b["f"] + b["g"]])[0] + ufl.conditional(
        ufl.lt(b["f"], b["g"]), b["f"] + b["g"], b["c"]
    )
    return [p0, p1, p2, p3, p4, p5, p6]


POOL_EXT_NAMES = [
    "p0=(f+g)*sin(h3)",
    "p1=(f+g)*sin(h3) [independent copy]",
    "p2=the Sum operand object of p0",
    "p3=Variable(p2, Label(5))",
    "p4=Variable(f+g, Label(5)) [independent copy]",
    "p5=as_vector([v[i]*v[i], p2])[0] + conditional(f<g, p2, c)",
    "p6=same expression as p5 [independent copy]",
]


def pool_forms():
    """forms and integrals: Form.equals -> Integral.__eq__ -> expr_equals rewrites the integrands."""
    a, b = _base(), _base()
    e0 = (a["f"] + a["g"]) * ufl.sin(a["h3"])
    e1 = (b["f"] + b["g"]) * ufl.sin(b["h3"])
    e2 = (a["f"] + a["g"]) * ufl.sin(a["h4"])  # same hash as e0
    F0 = e0 * ufl.dx(domain=a["m1"])
    F1 = e1 * ufl.dx(domain=b["m1"])
    F2 = e2 * ufl.dx(domain=a["m1"])
    F3 = e0 * ufl.dx(domain=a["m1"], metadata={"quadrature_degree": 2})
    return [F0, F1, F2, F3, F0.integrals()[0], F1.integrals()[0], e0, e1]


POOL_FORMS_NAMES = [
    "F0=e0*dx",
    "F1=e1*dx [independent copy]",
    "F2=e2*dx [integrand differs deep inside]",
    "F3=e0*dx(metadata)",
    "I0=the integral object of F0",
    "I1=the integral object of F1",
    "e0=(f+g)*sin(h3), the integrand object of F0",
    "e1 [independent copy, integrand of F1]",
]

def pool_formsig():
    """forms with EQUAL signatures that are not equal (they differ in coefficient numbering only); events also
    include computing (and thereby caching) a form's signature, written pK==pK."""
    a, b = _base(), _base()
    F0 = ufl.sin(a["f"]) * ufl.dx(domain=a["m1"])
    F1 = ufl.sin(a["g"]) * ufl.dx(domain=a["m1"])  # same signature as F0 after renumbering, F1 != F0
    F2 = ufl.sin(b["f"]) * ufl.dx(domain=b["m1"])  # equal to F0
    F3 = (a["f"] * a["g"]) * ufl.dx(domain=a["m1"])
    return [F0, F1, F2, F3]


POOL_FORMSIG_NAMES = [
    "F0=sin(f)*dx",
    "F1=sin(g)*dx [same signature as F0, not equal]",
    "F2=sin(f)*dx [independent copy of F0]",
    "F3=f*g*dx",
]


def pool_bfo():
    """operators that carry data besides their operands (ExternalOperator derivatives / function space)."""
    a, b = _base(), _base()
    Sa = a["f"].ufl_function_space()
    Sb = b["f"].ufl_function_space()
    n0 = C.ExternalOperator(a["f"], function_space=Sa)
    n1 = C.ExternalOperator(a["f"], function_space=Sa, derivatives=(1,))
    n0b = C.ExternalOperator(b["f"], function_space=Sb)
    return [abs(n0), abs(n1), abs(n0b), n0, n1, a["g"] * n0]


POOL_BFO_NAMES = [
    "q0=abs(N0), N0=ExternalOperator(f; derivatives=(0,))",
    "q1=abs(N1), N1=ExternalOperator(f; derivatives=(1,))",
    "q2=abs(N0) [independent copy]",
    "q3=N0, the operand object of q0",
    "q4=N1, the operand object of q1",
    "q5=g*N0 [N0 is its operand object]",
]

POOLS = {
    "core": (pool_core, POOL_CORE_NAMES),
    "ext": (pool_ext, POOL_EXT_NAMES),
    "forms": (pool_forms, POOL_FORMS_NAMES),
    "bfo": (pool_bfo, POOL_BFO_NAMES),
    "formsig": (pool_formsig, POOL_FORMSIG_NAMES),
}

SELF_EVENT_POOLS = {"formsig"}  # pools in which pK==pK stands for "compute the signature of pK"


def events_of(poolname, n):
    return [(p, q) for p in range(n) for q in range(n) if p != q or poolname in SELF_EVENT_POOLS]


def ev_name(p, q):
    return f"signature(p{p})" if p == q else f"p{p}==p{q}"


def same_result(r, b):
    return type(r) is type(b) and r == b


# -------------------------------------------------------------------------------------------------
# observation of an object (independent of UFL's own repr for the operand structure)
# -------------------------------------------------------------------------------------------------


def EQ(a, b):
    if a is b:
        # self event: compute (and cache) the signature
        return a.signature()
    if isinstance(a, ufl.Form):
        return a.equals(b)
    return a == b


def structure(o, depth=0):
    """Operand structure by own traversal: type names, terminal reprs, shapes and indices at every node."""
    if isinstance(o, ufl.Form):
        return ("Form",) + tuple(structure(i) for i in o.integrals())
    if isinstance(o, ufl.Integral):
        return (
            "Integral",
            o.integral_type(),
            repr(o.ufl_domain()),
            repr(o.subdomain_id()),
            repr(o.metadata()),
            structure(o.integrand()),
        )
    if o._ufl_is_terminal_:
        return (type(o).__name__, repr(o))
    try:
        sh = (o.ufl_shape, o.ufl_free_indices, o.ufl_index_dimensions)
    except ValueError:
        sh = None
    return (type(o).__name__, sh) + tuple(structure(x, depth + 1) for x in o.ufl_operands)


def observe(o, with_hash=True):
    d = {"repr": repr(o), "str": str(o), "structure": structure(o)}
    if with_hash:
        d["hash"] = hash(o)
    if isinstance(o, ufl.core.expr.Expr):
        d["shape"] = o.ufl_shape
        d["free-indices"] = o.ufl_free_indices
        d["index-dimensions"] = o.ufl_index_dimensions
    return d


def value(o):
    from mc.props.c13 import value_of

    return value_of(o)


# -------------------------------------------------------------------------------------------------
# one history
# -------------------------------------------------------------------------------------------------


def run_history(poolname, hist, ref, base, with_value):
    """Execute hist on a fresh pool.  Returns (list of (key, what), mutated?)."""
    build, names = POOLS[poolname]
    pool = build()
    out = []
    results = []
    hname = " ; ".join(ev_name(p, q) for p, q in hist)
    nontrivial = False
    for p, q in hist:
        r = EQ(pool[p], pool[q])
        results.append(r)
        if r is True and pool[p] is not pool[q]:
            nontrivial = True
        if not same_result(r, base[(p, q)]):
            out.append(
                (
                    f"history-result:{poolname}:{ev_name(p, q)}",
                    f"{ev_name(p, q)} gives {r!r} after [{hname}] but {base[(p, q)]!r} on a fresh pool",
                )
            )
    # recompute every comparison of the history
    for (p, q), r in zip(hist, results):
        r2 = EQ(pool[p], pool[q])
        if not same_result(r2, r):
            out.append((f"history-result:{poolname}:{ev_name(p, q)}", f"{ev_name(p, q)} first gave {r!r}, recomputed after [{hname}] gives {r2!r}"))
    # every pool object is observationally what it is on an untouched pool
    for k, o in enumerate(pool):
        try:
            ob = observe(o)
        except RecursionError:
            out.append((f"history-changes-cyclic:{poolname}:p{k}", f"p{k} became cyclic after [{hname}]"))
            continue
        for field, v in ob.items():
            if v != ref[k][field]:
                out.append(
                    (
                        f"history-changes-{field}:{poolname}:p{k}",
                        f"{field} of {names[k]} changed after [{hname}]",
                    )
                )
        if with_value and "value" in ref[k]:
            v = value(o)
            if v != ref[k]["value"]:
                out.append((f"history-changes-value:{poolname}:p{k}", f"value of {names[k]} changed after [{hname}]: {v} vs {ref[k]['value']}"))
    return out, nontrivial


def reference(poolname):
    """Observation of the untouched pool, and the result of every single comparison on a fresh pool."""
    build, names = POOLS[poolname]
    pool = build()
    ref = []
    for o in pool:
        d = observe(o)
        if isinstance(o, ufl.core.expr.Expr):
            d["value"] = value(o)
        ref.append(d)
    n = len(pool)
    base = {}
    for p, q in events_of(poolname, n):
        fresh = build()
        base[(p, q)] = EQ(fresh[p], fresh[q])
    return ref, base


def hist_worker(chunk):
    part = Part()
    for poolname, prefix, max_tail, vlen in chunk:
        ref, base = G["ref"][poolname]
        n = len(ref)
        events = events_of(poolname, n)
        # all histories prefix + tail with len(tail) <= max_tail
        for extra in range(0, max_tail + 1):
            for tail in itertools.product(events, repeat=extra):
                hist = list(prefix) + list(tail)
                viol, nontriv = run_history(poolname, hist, ref, base, with_value=len(hist) <= vlen)
                part.inc("states")
                part.inc("transitions", len(hist) * 2)
                part.inc("validated")
                if len(hist) <= vlen:
                    part.inc("evaluations", n)
                if nontriv:
                    part.inc("nontrivial")
                part.count(f"histories_{poolname}_len{len(hist)}")
                for key, what in viol:
                    part.violation(key, what, {"part": "B", "pool": poolname, "history": hist, "names": POOLS[poolname][1]})
    return part.dict()


def plan(quick):
    # (pool, max history length, max length with the value check)
    if quick:
        return [("core", 3, 2), ("ext", 2, 2), ("forms", 2, 0), ("bfo", 2, 0), ("formsig", 3, 0)]
    return [("core", 4, 3), ("ext", 3, 3), ("forms", 3, 0), ("bfo", 3, 0), ("formsig", 4, 0)]


def history_items(run, quick):
    """Reference observations (kept in G for the forked workers) and the list of history shards."""
    G["ref"] = {}
    items = []
    for poolname, maxlen, vlen in plan(quick):
        ref, base = reference(poolname)
        G["ref"][poolname] = (ref, base)
        n = len(ref)
        # the empty history: a second fresh pool is observationally equal (the builder is deterministic)
        for k, o in enumerate(POOLS[poolname][0]()):
            for field, v in observe(o).items():
                if ref[k][field] != v:
                    raise RuntimeError(f"pool {poolname} is not deterministic in {field} of p{k}")
        run.outcomes.update(f"{poolname}:p{p}==p{q}:{r}" for (p, q), r in base.items())
        events = events_of(poolname, n)
        # shards: every single event alone, and every 2-event prefix with all its extensions
        for e in events:
            items.append((poolname, (e,), 0, vlen))
            if maxlen >= 2:
                for e2 in events:
                    items.append((poolname, (e, e2), maxlen - 2, vlen))
        run.bounds[f"histories_{poolname}"] = dict(
            pool=POOLS[poolname][1],
            events=len(events),
            max_length=maxlen,
            histories=sum(len(events) ** k for k in range(1, maxlen + 1)),
            value_checked_up_to_length=vlen,
            equal_pairs_on_fresh_pool=sum(1 for r in base.values() if r is True),
        )
    return items


def run_histories(run, quick):
    for d in pmap(hist_worker, history_items(run, quick), seed=run.seed, chunks_per_proc=8):
        run.merge(d)


def replay(run, w):
    poolname = w["pool"]
    ref, base = reference(poolname)
    hist = [tuple(e) for e in w["history"]]
    print("pool:", POOLS[poolname][1])
    print("history:", hist)
    viol, _ = run_history(poolname, hist, ref, base, with_value=True)
    for key, what in viol:
        run.violation(key, what, w)
