"""Oracles for value-preserving passes: Sem(before) vs Sem(after) on every free-index assignment."""

import itertools

from mpmath import mpf

from mc.sem import sem as M
from mc.sem.jet import Ambiguous, Undefined

TOL = mpf("1e-10")


def type_of(o):
    return (
        tuple(o.ufl_shape),
        tuple(o.ufl_free_indices),
        tuple(o.ufl_index_dimensions),
    )


def compare_values(o1, o2, env, side=None, index_map=None, tol=TOL, ctx1=None, ctx2=None):
    """None if o1 and o2 have the same value for every assignment of o1's free indices.

    index_map: dict old free index count -> new free index count (identity by default).
    Raises Undefined/Ambiguous if the model has no verdict in this environment.
    """
    ctx1 = ctx1 or M.Ctx(env, side=side)
    ctx2 = ctx2 or M.Ctx(env, side=side)
    for rho in M.free_index_assignments(o1):
        rho2 = rho if index_map is None else {index_map[k]: v for k, v in rho.items()}
        v1 = M.sem(o1, ctx1, rho)
        v2 = M.sem(o2, ctx2, rho2)
        if not M.values_close(v1, v2, tol):
            return {"indices": {str(k): v for k, v in rho.items()}, "before": M.show(v1), "after": M.show(v2)}
    return None


def check_pass(name, o1, o2, envs, part, pid, key, witness, same_type=True, index_map=None, side=None):
    """Record a violation if pass output o2 differs from input o1 in type or value. Returns True if ok."""
    if same_type and index_map is None and type_of(o1) != type_of(o2):
        part.violation(
            f"{pid}:{name}:{key}",
            f"{name} changed shape/free indices: {key}",
            dict(witness, pass_name=name, before_type=type_of(o1), after_type=type_of(o2), after=repr(o2)[:1500]),
        )
        return False
    verdicts = 0
    for env in envs:
        try:
            diff = compare_values(o1, o2, env, side=side, index_map=index_map)
        except Ambiguous:
            part.count("ambiguous_env")
            continue
        except Undefined:
            part.count("model_undefined_env")
            continue
        verdicts += 1
        part.inc("validated")
        if diff is not None:
            part.violation(
                f"{pid}:{name}:{key}",
                f"{name} changed the value of {key}",
                dict(witness, pass_name=name, env=env.describe(), diff=diff, after=repr(o2)[:1500]),
            )
            return False
    return True


def index_bijections(o1, o2):
    """All dimension-respecting bijections between the free indices of o1 and o2."""
    f1, d1 = o1.ufl_free_indices, o1.ufl_index_dimensions
    f2, d2 = o2.ufl_free_indices, o2.ufl_index_dimensions
    if sorted(d1) != sorted(d2):
        return []
    out = []
    for perm in itertools.permutations(range(len(f2))):
        if all(d1[k] == d2[perm[k]] for k in range(len(f1))):
            out.append({f1[k]: f2[perm[k]] for k in range(len(f1))})
    return out
