"""Term-graph explorer: breadth-first over recipes, typed by the reference interpreter L, every admitted
application executed on the real UFL constructors and compared with the model (DESIGN.md 2.1)."""

import time

from mc.runner import Part, pmap
from mc.sem import lang as L
from mc.sem import sem as M
from mc.sem.jet import Ambiguous, Undefined


class StateInfo:
    """What the parent keeps about a state: recipe and its L-type."""

    __slots__ = ("recipe", "shape", "fid", "cond", "level", "key")

    def __init__(self, recipe, shape, fid, cond, level, key):
        self.recipe = recipe
        self.shape = tuple(shape)
        self.fid = dict(fid)
        self.cond = cond
        self.level = level
        self.key = key

    @property
    def rank(self):
        return len(self.shape)

    @property
    def fi(self):
        return tuple(sorted(self.fid))


def ill_conditioned(recipe, U, env, lt=None):
    """Is the model value of the recipe - or of one of its sub-recipes - in this environment sensitive to the working
    precision?  Each is re-evaluated with 15 digits (float64-like) and compared with the 50-digit value: non-finite,
    astronomically large, or differing by more than 1e-6 relative (and 1e-13 absolute) => ill-conditioned (a pole such
    as tan(acos(0)) or atan(i), a function of rounding noise such as ln(cos(acos(0))))."""
    import mpmath
    import numpy as np

    from mc.sem.jet import const_of

    def one(r):
        try:
            hi = L.interp(r, U, M.Ctx(env))
            with mpmath.workdps(15):
                lo = L.interp(r, U, M.Ctx(env))
        except (L.LangError, Undefined, Ambiguous):
            return False  # no value: nothing to say about this sub-recipe
        except Exception:  # noqa: BLE001
            return True
        if hi.cond or lo.cond:
            return False
        if r[0] in ("atan", "asin", "acos") and isinstance(r[1], tuple):
            # exactly on a branch cut (atan: imaginary axis beyond +-i; asin/acos: real axis beyond +-1) the side is
            # decided by the sign of a zero, which differs between C99/cmath and the reference arithmetic
            try:
                arg = L.interp(r[1], U, M.Ctx(env))
                for z in np.asarray(arg.a, dtype=object).reshape(-1):
                    z = mpmath.mpmathify(const_of(z))
                    re, im = mpmath.re(z), mpmath.im(z)
                    tiny = mpmath.mpf("1e-30")
                    if r[0] == "atan" and abs(re) < tiny and abs(im) > 1:
                        return True
                    if r[0] in ("asin", "acos") and abs(im) < tiny and abs(re) > 1:
                        return True
            except Exception:  # noqa: BLE001
                pass
        a = np.asarray(hi.a, dtype=object).reshape(-1)
        b = np.asarray(lo.a, dtype=object).reshape(-1)
        if len(a) != len(b):
            return True
        for x, y in zip(a, b):
            try:
                x, y = mpmath.mpmathify(const_of(x)), mpmath.mpmathify(const_of(y))
            except Exception:  # noqa: BLE001
                return True
            if not (mpmath.isfinite(x) and mpmath.isfinite(y)):
                return True
            m = max(abs(x), abs(y))
            if m > mpmath.mpf("1e13"):
                return True
            d = abs(x - y)
            if d > mpmath.mpf("1e-13") and d > mpmath.mpf("1e-6") * m:
                return True
        return False

    def subs(r, acc):
        if isinstance(r, tuple) and r and r[0] not in ("t", "num"):
            acc.append(r)
            for x in r[1:]:
                subs(x, acc)
        return acc

    return any(one(r) for r in subs(recipe, []))


def check_recipe(
    recipe, U, envs, part, pid, extra_check=None, tol=None, describe=None, compare=True, ill_typed_hook=None, check_undefined=False
):
    """Type by L, build on the real API, compare in every environment.

    Returns (StateInfo-tuple or None). Violations are recorded in `part`.
    """
    part.inc("transitions")
    # 1. type + value by L in the first env
    lts = []
    ctxs = []
    model_ok = True
    for env in envs:
        ctx = M.Ctx(env)
        ctxs.append(ctx)
        try:
            lts.append(L.interp(recipe, U, ctx))
        except L.LangError:
            part.count("ill_typed")
            if ill_typed_hook is not None:
                # inputs the language rejects: the hook decides what the implementation must do with them
                try:
                    bad = L.build(recipe, U)
                except BaseException as e:  # noqa: BLE001
                    if isinstance(e, (KeyboardInterrupt, SystemExit, MemoryError)):
                        raise
                    part.error(type(e).__name__)
                    part.count("ill_typed_rejected_at_construction")
                    return None
                ill_typed_hook(recipe, bad, envs, part, U)
            return None
        except Ambiguous:
            part.count("ambiguous_env")
            lts.append(None)
        except Undefined:
            part.count("model_undefined_env")
            lts.append(None)
    # 2. build through the public API
    try:
        obj = L.build(recipe, U)
    except BaseException as e:  # noqa: BLE001
        if isinstance(e, (KeyboardInterrupt, SystemExit, MemoryError)):
            raise
        part.error(type(e).__name__)
        part.count("rejected_by_ufl")
        return None
    import ufl
    from ufl.constantvalue import as_ufl

    if isinstance(obj, (int, float, complex)):
        obj = as_ufl(obj)
    if not isinstance(obj, ufl.core.expr.Expr):
        part.count("non_expr_result")
        return None
    try:
        key = repr(obj)
    except RecursionError:
        part.violation(
            f"{pid}:{L.show_recipe(recipe)}",
            f"constructor returned a cyclic (self-referential) expression: {L.show_recipe(recipe)}",
            {"recipe": recipe, "show": L.show_recipe(recipe), "diff": {"kind": "cyclic"}},
        )
        return ("VIOLATION", recipe)
    lt0 = next((t for t in lts if t is not None), None)
    if lt0 is None:
        part.count("model_undefined_state")
        # still a state (structurally), typed from the object
        fid = {}
        for c, d in zip(obj.ufl_free_indices, obj.ufl_index_dimensions):
            n = U.idx_by_count.get(c)
            if n is None:
                return None
            fid[n] = d
        from ufl.classes import Condition

        if extra_check is not None and check_undefined:
            # the recipe has no model value in any environment (e.g. an ordering of complex numbers): the
            # driver's own oracle may still have something to say about what the implementation does with it
            part.count("undefined_state_checked")
            if extra_check(recipe, obj, lts, ctxs, envs, part, U) == "VIOLATION":
                return ("VIOLATION", recipe)
        return (recipe, tuple(obj.ufl_shape), fid, isinstance(obj, Condition), key, False)
    # 3. compare
    nontrivial = False
    for env, ctx, lt in zip(envs, ctxs, lts):
        if lt is None:
            continue
        if not compare:
            nontrivial = True
            continue
        try:
            diff = L.compare_lt_obj(lt, obj, U, ctx, tol)
        except Ambiguous:
            part.count("ambiguous_env")
            continue
        except Undefined as e:
            # the model gives the recipe a value but not the object: treat as a difference only if the
            # object contains a node the recipe semantics does not (cannot happen for pure algebra)
            part.count("object_undefined_env")
            continue
        part.inc("validated")
        part.inc("evaluations")
        if diff is not None and diff.get("kind") == "value" and ill_conditioned(recipe, U, env, lt):
            # the reference value itself depends on the working precision here (a pole such as tan(acos(0)), atan(i),
            # or a function of rounding noise such as ln(cos(acos(0)))): UFL folds literals in float64, no verdict
            part.count("ill_conditioned_env")
            continue
        if diff is not None:
            what = f"{diff['kind']} differs: {L.show_recipe(recipe)}"
            wit = {
                "recipe": recipe,
                "show": L.show_recipe(recipe),
                "ufl_repr": key[:2000],
                "env": env.describe(),
                "diff": diff,
            }
            if describe:
                wit.update(describe)
            part.violation(f"{pid}:{L.show_recipe(recipe)}", what, wit)
            return ("VIOLATION", recipe)
        if not nontrivial and not lt.cond:
            import numpy as np

            from mc.sem.jet import const_of

            for x in lt.a.reshape(-1):
                if const_of(x) != 0:
                    nontrivial = True
                    break
        elif lt.cond:
            nontrivial = True
    if extra_check is not None:
        if extra_check(recipe, obj, lts, ctxs, envs, part, U) == "VIOLATION":
            return ("VIOLATION", recipe)
    part.count("state_visits")
    part.outcome((tuple(obj.ufl_shape), tuple(sorted(lt0.fid.items())), type(obj).__name__))
    return (recipe, lt0.shape, lt0.fid, lt0.cond, key, nontrivial)


def run_level(
    recipes, U, envs, pid, run, seed=0, extra_check=None, tol=None, sample_every=0, compare=True, ill_typed_hook=None, check_undefined=False
):
    """Check a list of candidate recipes in parallel; returns list of new state tuples."""

    def work(chunk):
        part = Part()
        out = []
        for r in chunk:
            res = check_recipe(
                r, U, envs, part, pid, extra_check, tol, compare=compare, ill_typed_hook=ill_typed_hook, check_undefined=check_undefined
            )
            if res is None:
                continue
            if res[0] == "VIOLATION":
                # an explored state all the same (it is not expanded further)
                part.count("violating_states")
                continue
            out.append(res)
            if sample_every and len(out) % sample_every == 1:
                part.sample({"recipe": L.show_recipe(r), "repr": res[4][:200]})
        d = part.dict()
        d["new"] = out
        return d

    results = pmap(work, recipes, seed=seed)
    new = []
    for d in results:
        new.extend(d.pop("new"))
        # states counted in workers may contain duplicates across workers; dedup happens in caller
        run.merge(d)
    return new


def dedup(new, seen, level, run=None):
    """Keep the first recipe (in deterministic order) for every distinct object repr."""
    out = []
    new = sorted(new, key=lambda t: (len(repr(t[0])), repr(t[0])))
    dup = 0
    for recipe, shape, fid, cond, key, nontrivial in new:
        if key in seen:
            dup += 1
            continue
        seen.add(key)
        out.append(StateInfo(recipe, shape, fid, cond, level, key))
        if run is not None:
            run.states += 1
            if nontrivial:
                run.nontrivial += 1
    return out, dup
