"""Scalars and truncated multivariate power series ("jets") for the reference model.

Scalars are mpmath mpf/mpc at 50 digits.  A Jet is a dict  key -> scalar  where a key is a sorted
tuple of (variable id, power).  Variable ids < 100 are "space" variables (reference coordinates or a
line parameter); ids >= 100 are Gateaux/variable-derivative parameters (tau).  Truncation: total
degree in space variables <= XORDER (module state, set by the caller with set_order) and degree <= 1
in each tau variable (every derivative node owns a fresh tau and extracts its first-order part).

This file knows nothing about UFL.
"""

import mpmath
from mpmath import mp, mpc, mpf

mp.dps = 50

TAU0 = 100
_state = {"xorder": 0, "next_tau": TAU0}


class Undefined(Exception):
    """The model has no value here (domain error, kink, unsupported node)."""


class Ambiguous(Undefined):
    """A comparison / kink is too close to call in this environment."""


def set_order(n):
    _state["xorder"] = int(n)


def get_order():
    return _state["xorder"]


def fresh_tau():
    t = _state["next_tau"]
    _state["next_tau"] += 1
    return t


def S(x):
    """Convert a python number / Fraction / string to a model scalar."""
    if isinstance(x, (mpf, mpc, Jet)):
        return x
    if isinstance(x, complex):
        return mpc(x.real, x.imag) if x.imag != 0 else mpf(x.real)
    if isinstance(x, (int, float)):
        return mpf(x)
    if hasattr(x, "numerator") and hasattr(x, "denominator"):
        return mpf(x.numerator) / mpf(x.denominator)
    if isinstance(x, str):
        return mpf(x)
    return mpmath.mpmathify(x)


ZERO = mpf(0)
ONE = mpf(1)
MARGIN = mpf("1e-6")  # comparisons closer than this are "ambiguous"
TOL = mpf("1e-25")


def is_scalar(x):
    return isinstance(x, (mpf, mpc))


def _keep(key):
    xo = _state["xorder"]
    tot = 0
    for v, p in key:
        if v < TAU0:
            tot += p
        elif p > 1:
            return False
    return tot <= xo


def _mulkey(k1, k2):
    if not k1:
        return k2
    if not k2:
        return k1
    d = dict(k1)
    for v, p in k2:
        d[v] = d.get(v, 0) + p
    return tuple(sorted(d.items()))


class Jet:
    __slots__ = ("c",)

    def __init__(self, c=None):
        self.c = c if c is not None else {}

    # -- construction ---------------------------------------------------------------------
    @staticmethod
    def var(v, a0=ZERO):
        """a0 + variable v."""
        j = Jet({(): S(a0)})
        k = ((v, 1),)
        if _keep(k):
            j.c[k] = ONE
        return j

    @staticmethod
    def const(a0):
        return Jet({(): S(a0)})

    def copy(self):
        return Jet(dict(self.c))

    def a0(self):
        return self.c.get((), ZERO)

    def nilpart(self):
        c = dict(self.c)
        c.pop((), None)
        return Jet(c)

    def is_const(self):
        return all(k == () or v == 0 for k, v in self.c.items())

    def clean(self):
        return Jet({k: v for k, v in self.c.items() if v != 0})

    # -- ring operations -----------------------------------------------------------------
    def __add__(self, o):
        c = dict(self.c)
        if isinstance(o, Jet):
            for k, v in o.c.items():
                c[k] = c[k] + v if k in c else v
        else:
            o = S(o)
            c[()] = c[()] + o if () in c else o
        return Jet(c)

    __radd__ = __add__

    def __neg__(self):
        return Jet({k: -v for k, v in self.c.items()})

    def __sub__(self, o):
        return self + (-o)

    def __rsub__(self, o):
        return (-self) + o

    def __mul__(self, o):
        if isinstance(o, Jet):
            c = {}
            for k1, v1 in self.c.items():
                if v1 == 0:
                    continue
                for k2, v2 in o.c.items():
                    if v2 == 0:
                        continue
                    k = _mulkey(k1, k2)
                    if (k1 and k2) and not _keep(k):
                        continue
                    p = v1 * v2
                    c[k] = c[k] + p if k in c else p
            return Jet(c)
        o = S(o)
        return Jet({k: v * o for k, v in self.c.items()})

    __rmul__ = __mul__

    def recip(self):
        a0 = self.a0()
        if a0 == 0:
            raise Undefined("division by zero")
        return self._series(lambda n: (-1) ** n / a0 ** (n + 1))

    def __truediv__(self, o):
        if isinstance(o, Jet):
            return self * o.recip()
        o = S(o)
        if o == 0:
            raise Undefined("division by zero")
        return Jet({k: v / o for k, v in self.c.items()})

    def __rtruediv__(self, o):
        return self.recip() * o

    # -- series composition --------------------------------------------------------------
    def _series(self, coef):
        """Sum_n coef(n) * h^n with h the nilpotent part of self."""
        h = self.nilpart().clean()
        res = Jet({(): S(coef(0))})
        hn = None
        n = 0
        while True:
            n += 1
            hn = h if hn is None else (hn * h).clean()
            if not hn.c:
                break
            res = res + hn * S(coef(n))
            if n > 64:
                raise RuntimeError("jet series did not terminate")
        return res

    def _degree_bound(self):
        taus = set()
        for k in self.c:
            for v, p in k:
                if v >= TAU0:
                    taus.add(v)
        return _state["xorder"] + len(taus)

    def apply(self, fname, f, *extra):
        """Apply analytic function f (an mpmath function name) through its Taylor series at a0."""
        a0 = self.a0()
        D = self._degree_bound()
        tab = taylor_coeffs(fname, f, a0, D, extra)
        return self._series(lambda n: tab[n] if n < len(tab) else ZERO)

    def ipow(self, n):
        """Non-negative integer power by repeated multiplication (valid at a0 == 0)."""
        r = Jet({(): ONE})
        b = self
        while n:
            if n & 1:
                r = r * b
            n >>= 1
            if n:
                b = b * b
        return r

    def spow(self, p):
        """self ** p for a scalar p (principal branch)."""
        p = S(p)
        if isinstance(p, mpf) and p == int(p) and p >= 0:
            return self.ipow(int(p))
        a0 = self.a0()
        if a0 == 0:
            raise Undefined("non-integer/negative power at 0")
        a0p = mpmath.power(a0, p)
        return self._series(lambda n: a0p * mpmath.binomial(p, n) / a0**n)

    # -- calculus --------------------------------------------------------------------------
    def d(self, v):
        """Partial derivative with respect to variable v."""
        c = {}
        for k, val in self.c.items():
            for i, (vv, p) in enumerate(k):
                if vv == v:
                    nk = k[:i] + (((vv, p - 1),) if p > 1 else ()) + k[i + 1 :]
                    c[nk] = val * p
                    break
        return Jet(c)

    def coeff_tau(self, t):
        """The coefficient of t^1 (t removed)."""
        c = {}
        for k, val in self.c.items():
            for i, (vv, p) in enumerate(k):
                if vv == t and p == 1:
                    c[k[:i] + k[i + 1 :]] = val
                    break
        return Jet(c)

    def drop(self, t):
        """Set variable t to zero."""
        return Jet({k: v for k, v in self.c.items() if all(vv != t for vv, _ in k)})

    def maxdeg(self, v, tol=TOL):
        """Largest power of variable v with a coefficient of magnitude > tol."""
        m = -1
        for k, val in self.c.items():
            if abs(val) > tol:
                p = 0
                for vv, pp in k:
                    if vv == v:
                        p = pp
                m = max(m, p)
        return m

    def mapc(self, f):
        return Jet({k: f(v) for k, v in self.c.items()})

    def __repr__(self):
        items = sorted(self.c.items(), key=lambda kv: (len(kv[0]), kv[0]))
        return "Jet{" + ", ".join(f"{k}: {mpmath.nstr(v, 12)}" for k, v in items if v != 0) + "}"


_TAYLOR_CACHE = {}


def taylor_coeffs(fname, f, a0, D, extra=()):
    key = (fname, a0, D, extra)
    r = _TAYLOR_CACHE.get(key)
    if r is not None:
        return r
    fac = mpmath.factorial
    if fname == "exp":
        e = mpmath.exp(a0)
        r = [e / fac(n) for n in range(D + 1)]
    elif fname == "ln":
        if a0 == 0:
            raise Undefined("ln(0)")
        r = [mpmath.log(a0)] + [(-1) ** (n + 1) / (n * a0**n) for n in range(1, D + 1)]
    elif fname in ("sin", "cos"):
        s, c = mpmath.sin(a0), mpmath.cos(a0)
        cyc = [s, c, -s, -c] if fname == "sin" else [c, -s, -c, s]
        r = [cyc[n % 4] / fac(n) for n in range(D + 1)]
    elif fname in ("sinh", "cosh"):
        s, c = mpmath.sinh(a0), mpmath.cosh(a0)
        cyc = [s, c] if fname == "sinh" else [c, s]
        r = [cyc[n % 2] / fac(n) for n in range(D + 1)]
    else:
        try:
            with mp.workdps(mp.dps + 30):
                if extra:
                    r = mpmath.taylor(lambda z: f(*extra, z), a0, D)
                else:
                    r = mpmath.taylor(f, a0, D)
            r = [+x for x in r]
        except (ValueError, ZeroDivisionError, mpmath.libmp.ComplexResult) as e:
            raise Undefined(f"{fname} at {a0}: {e}")
    _TAYLOR_CACHE[key] = r
    return r


# ---------------------------------------------------------------------------------------------
# Functions on scalars-or-jets
# ---------------------------------------------------------------------------------------------


def const_of(x):
    return x.a0() if isinstance(x, Jet) else x


def fn(fname, x, *extra):
    f = getattr(mpmath, _MP_NAMES.get(fname, fname))
    if isinstance(x, Jet):
        return x.apply(fname, f, *extra)
    try:
        return f(*extra, x) if extra else f(x)
    except (ValueError, ZeroDivisionError) as e:
        raise Undefined(f"{fname}({x}): {e}")


_MP_NAMES = {
    "ln": "log",
    "besselJ": "besselj",
    "besselY": "bessely",
    "besselI": "besseli",
    "besselK": "besselk",
}


def is_real(x, tol=TOL):
    if isinstance(x, Jet):
        return all(is_real(v, tol) for v in x.c.values())
    return isinstance(x, mpf) or abs(x.imag) <= tol * max(1, abs(x.real))


def f_conj(x):
    if isinstance(x, Jet):
        return x.mapc(mpmath.conj)
    return mpmath.conj(x)


def f_real(x):
    if isinstance(x, Jet):
        return x.mapc(mpmath.re)
    return mpmath.re(x)


def f_imag(x):
    if isinstance(x, Jet):
        return x.mapc(mpmath.im)
    return mpmath.im(x)


def f_abs(x):
    if isinstance(x, Jet):
        if x.is_const():
            return Jet.const(abs(x.a0()))
        if is_real(x, 0):
            a0 = mpmath.re(x.a0())
            if abs(a0) < MARGIN:
                raise Ambiguous("abs at kink")
            return x if a0 > 0 else -x
        # |z| of a genuinely complex, non-constant quantity is not complex differentiable: UFL documents
        # that its derivative rule for abs only covers real arguments, so the model gives no verdict
        raise Undefined("derivative of abs of a complex quantity")
    return abs(x)


def f_sign(x):
    a0 = const_of(x)
    if not is_real(a0):
        raise Undefined("sign of complex")
    a0 = mpmath.re(a0)
    if abs(a0) < MARGIN:
        if a0 == 0 and (not isinstance(x, Jet) or x.is_const()):
            return ZERO
        raise Ambiguous("sign at kink")
    return ONE if a0 > 0 else -ONE


def f_sqrt(x):
    return f_pow(x, mpf(1) / 2)


def f_pow(a, b):
    """a ** b, principal branch, on scalars or jets."""
    if isinstance(b, Jet) and b.is_const():
        b = b.a0()
    if isinstance(b, Jet):
        if isinstance(a, Jet) and a.is_const():
            a = a.a0()
        a0 = const_of(a)
        if a0 == 0:
            raise Undefined("0 ** variable exponent")
        la = fn("ln", a)
        return fn("exp", b * la)
    if isinstance(a, Jet):
        return a.spow(b)
    # scalars
    if a == 0:
        if isinstance(b, mpf) and b > 0:
            return ZERO
        if b == 0:
            return ONE
        raise Undefined("0 ** non-positive")
    if isinstance(b, mpf) and b == int(b) and abs(b) < 4096:
        n = int(b)
        r = ONE
        base = a if n >= 0 else ONE / a
        for _ in range(abs(n)):
            r = r * base
        return r
    return mpmath.power(a, b)


def real_const(x, what="comparison"):
    a0 = const_of(x)
    if not is_real(a0):
        raise Undefined(f"{what} of complex value")
    return mpmath.re(a0)


def decide_lt(a, b, strict_margin=True):
    """Decide a < b on constant terms; Ambiguous if too close."""
    x, y = real_const(a), real_const(b)
    if abs(x - y) < MARGIN:
        raise Ambiguous("comparison too close")
    return x < y


def close(a, b, tol=TOL):
    """Are two scalars/jets equal up to relative tolerance (compares all coefficients)?"""
    if isinstance(a, Jet) or isinstance(b, Jet):
        a = a if isinstance(a, Jet) else Jet.const(a)
        b = b if isinstance(b, Jet) else Jet.const(b)
        for k in set(a.c) | set(b.c):
            if not close(a.c.get(k, ZERO), b.c.get(k, ZERO), tol):
                return False
        return True
    d = abs(a - b)
    return d <= tol * max(ONE, abs(a), abs(b))


def nstr(x, n=15):
    if isinstance(x, Jet):
        return repr(x)
    return mpmath.nstr(x, n)


def selftest():
    """Jets against exact difference quotients / closed forms. Returns number of checks."""
    n = 0
    old = get_order()
    set_order(3)
    try:
        X = Jet.var(0, mpf(3) / 7)
        Y = Jet.var(1, mpf(-2) / 5)
        p = X * X * Y + 3 * X - Y * Y * Y + 2
        # exact derivatives of the polynomial
        x0, y0 = mpf(3) / 7, mpf(-2) / 5
        assert close(p.a0(), x0 * x0 * y0 + 3 * x0 - y0**3 + 2)
        assert close(p.d(0).a0(), 2 * x0 * y0 + 3)
        assert close(p.d(1).a0(), x0 * x0 - 3 * y0 * y0)
        assert close(p.d(0).d(1).a0(), 2 * x0)
        assert close(p.d(1).d(1).d(1).a0(), mpf(-6))
        n += 5
        q = (p * p) / p
        assert close(q, p)
        n += 1
        # transcendental: d/dx exp(sin x) = cos x exp(sin x); second derivative
        e = fn("exp", fn("sin", X))
        assert close(e.d(0).a0(), mpmath.cos(x0) * mpmath.exp(mpmath.sin(x0)))
        assert close(
            e.d(0).d(0).a0(),
            (mpmath.cos(x0) ** 2 - mpmath.sin(x0)) * mpmath.exp(mpmath.sin(x0)),
        )
        n += 2
        for name in ("tan", "tanh", "asin", "acos", "atan", "erf", "sinh", "cosh", "ln", "cos"):
            f = getattr(mpmath, _MP_NAMES.get(name, name))
            j = fn(name, X)
            num = mpmath.diff(f, x0)
            assert close(j.d(0).a0(), num, mpf("1e-20")), name
            num2 = mpmath.diff(f, x0, 2)
            assert close(j.d(0).d(0).a0(), num2, mpf("1e-18")), name
            n += 2
        s = f_sqrt(X * X + 1)
        assert close(s.d(0).a0(), x0 / mpmath.sqrt(x0 * x0 + 1))
        pw = f_pow(X + 1, Y + 2)
        assert close(pw.d(1).a0(), mpmath.log(x0 + 1) * (x0 + 1) ** (y0 + 2))
        assert close(pw.d(0).a0(), (y0 + 2) * (x0 + 1) ** (y0 + 1))
        n += 3
        t = fresh_tau()
        w = X * X + Jet.var(t) * Y
        g = fn("sin", w)
        assert close(g.coeff_tau(t).a0(), mpmath.cos(x0 * x0) * y0)
        assert close(g.coeff_tau(t).d(0).a0(), -mpmath.sin(x0 * x0) * 2 * x0 * y0)
        n += 2
        b = fn("besselJ", X + 1, mpf(1))
        assert close(b.d(0).a0(), mpmath.diff(lambda z: mpmath.besselj(1, z), x0 + 1), mpf("1e-20"))
        n += 1
    finally:
        set_order(old)
    return n
