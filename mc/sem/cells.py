"""Concrete affine simplex cells: every geometric quantity computed directly from vertex coordinates.

No UFL import.  Conventions assumed (DESIGN.md appendix B): FEniCS/basix reference simplices, facet i is
opposite vertex i, tetrahedron edges (2,3),(1,3),(1,2),(0,3),(0,2),(0,1), reference facet Jacobian columns
= facet vertex k - facet vertex 0.
"""

import itertools

import mpmath
import numpy as np
from mpmath import mpf

from mc.sem.jet import ONE, ZERO, S, Undefined

REF = {
    "interval": dict(
        tdim=1,
        verts=[(0,), (1,)],
        facets=[(0,), (1,)],
        edges=[(0, 1)],
    ),
    "triangle": dict(
        tdim=2,
        verts=[(0, 0), (1, 0), (0, 1)],
        facets=[(1, 2), (0, 2), (0, 1)],
        edges=[(1, 2), (0, 2), (0, 1)],
    ),
    "tetrahedron": dict(
        tdim=3,
        verts=[(0, 0, 0), (1, 0, 0), (0, 1, 0), (0, 0, 1)],
        facets=[(1, 2, 3), (0, 2, 3), (0, 1, 3), (0, 1, 2)],
        edges=[(2, 3), (1, 3), (1, 2), (0, 3), (0, 2), (0, 1)],
    ),
}
TRIANGLE_EDGES = [(1, 2), (0, 2), (0, 1)]


def arr(x):
    a = np.empty(np.shape(x), dtype=object)
    for idx in np.ndindex(a.shape):
        v = x
        for k in idx:
            v = v[k]
        a[idx] = S(v)
    return a


def zeros(shape):
    a = np.empty(shape, dtype=object)
    for idx in np.ndindex(a.shape):
        a[idx] = ZERO
    return a


def det(M):
    """Leibniz determinant of a square object array."""
    n = M.shape[0]
    if n == 0:
        return ONE
    if n == 1:
        return M[0, 0]
    tot = ZERO
    for perm in itertools.permutations(range(n)):
        sgn = 1
        for a in range(n):
            for b in range(a + 1, n):
                if perm[a] > perm[b]:
                    sgn = -sgn
        term = ONE
        for r in range(n):
            term = term * M[r, perm[r]]
        tot = tot + sgn * term
    return tot


def matmul(A, B):
    n, m = A.shape
    m2, p = B.shape
    assert m == m2
    C = zeros((n, p))
    for i in range(n):
        for j in range(p):
            s = ZERO
            for k in range(m):
                s = s + A[i, k] * B[k, j]
            C[i, j] = s
    return C


def inv(M):
    """Inverse by Gauss-Jordan elimination (works for scalars and jets with nonzero pivots)."""
    from mc.sem.jet import const_of

    n = M.shape[0]
    A = zeros((n, 2 * n))
    for i in range(n):
        for j in range(n):
            A[i, j] = M[i, j]
        A[i, n + i] = ONE
    for c in range(n):
        piv = max(range(c, n), key=lambda r: abs(const_of(A[r, c])))
        if abs(const_of(A[piv, c])) < mpf("1e-30"):
            raise Undefined("singular matrix")
        if piv != c:
            A[[c, piv]] = A[[piv, c]]
        p = A[c, c]
        for j in range(2 * n):
            A[c, j] = A[c, j] / p
        for r in range(n):
            if r != c:
                f = A[r, c]
                if const_of(f) == 0 and not hasattr(f, "c"):
                    continue
                for j in range(2 * n):
                    A[r, j] = A[r, j] - f * A[c, j]
    return A[:, n:].copy()


def pinv(J):
    """Left pseudo-inverse (J^T J)^-1 J^T of a full-column-rank real matrix."""
    if J.shape[0] == J.shape[1]:
        return inv(J)
    Jt = J.T.copy()
    return matmul(inv(matmul(Jt, J)), Jt)


def pdet(J):
    """sqrt(det(J^T J)) (>= 0) for rectangular J; det for square."""
    if J.shape[0] == J.shape[1]:
        return det(J)
    if J.shape[1] == 0:
        return ONE
    g = det(matmul(J.T.copy(), J))
    return mpmath.sqrt(g)


def norm(v):
    return mpmath.sqrt(sum((x * x for x in v), ZERO))


def cross3(a, b):
    return arr(
        [
            a[1] * b[2] - a[2] * b[1],
            a[2] * b[0] - a[0] * b[2],
            a[0] * b[1] - a[1] * b[0],
        ]
    )


class ConcreteCell:
    """An affine simplex with given vertices."""

    def __init__(self, cellname, vertices, orientation=1):
        self.cellname = cellname
        ref = REF[cellname]
        self.ref = ref
        self.tdim = ref["tdim"]
        self.V = arr(vertices)  # (tdim+1, gdim)
        assert self.V.shape[0] == self.tdim + 1
        self.gdim = self.V.shape[1]
        self.orientation = S(orientation)
        self.Xref = arr(ref["verts"])
        t, g = self.tdim, self.gdim
        J = zeros((g, t))
        for j in range(t):
            for i in range(g):
                J[i, j] = self.V[j + 1, i] - self.V[0, i]
        self.J = J
        self.x0 = self.V[0].copy()
        pd = pdet(J)
        if abs(pd) < mpf("1e-20"):
            raise Undefined("degenerate cell")
        self.K = pinv(J)
        if g == t:
            self.detJ = pd
        else:
            # UFL convention: the pseudo-determinant carries the CellOrientation sign on manifolds
            self.detJ = self.orientation * pd
        self.pdetJ = abs(pd)
        self.ref_cell_volume = ONE / mpmath.factorial(t)
        self.ref_facet_volume = ONE / mpmath.factorial(t - 1) if t >= 1 else ONE

    # -- cell quantities -------------------------------------------------------------------------
    def volume(self):
        return self.pdetJ * self.ref_cell_volume

    def edge_vectors(self):
        E = self.ref["edges"]
        out = zeros((len(E), self.gdim))
        for e, (a, b) in enumerate(E):
            out[e] = self.V[b] - self.V[a]
        return out

    def ref_edge_vectors(self):
        E = self.ref["edges"]
        out = zeros((len(E), self.tdim))
        for e, (a, b) in enumerate(E):
            out[e] = self.Xref[b] - self.Xref[a]
        return out

    def edge_lengths(self):
        return [norm(self.V[b] - self.V[a]) for a, b in self.ref["edges"]]

    def diameter(self):
        n = self.tdim + 1
        return max(norm(self.V[b] - self.V[a]) for a in range(n) for b in range(a + 1, n))

    def circumradius(self):
        t = self.tdim
        G = matmul(self.J.T.copy(), self.J)
        rhs = zeros((t, 1))
        for k in range(t):
            rhs[k, 0] = G[k, k] / 2
        y = matmul(inv(G), rhs)
        c = matmul(self.J, y)[:, 0]
        return norm(c)

    def cell_normal(self):
        t, g = self.tdim, self.gdim
        if t == 2 and g == 3:
            n = cross3(self.J[:, 0], self.J[:, 1])
        elif t == 1 and g == 2:
            n = arr([-self.J[1, 0], self.J[0, 0]])
        else:
            raise Undefined("cell normal undefined")
        ln = norm(n)
        return arr([self.orientation * x / ln for x in n])

    # -- facet quantities ------------------------------------------------------------------------
    def facet_vertices(self, f):
        return self.ref["facets"][f]

    def facet_jacobian(self, f):
        fv = self.facet_vertices(f)
        FJ = zeros((self.gdim, self.tdim - 1))
        for k in range(1, len(fv)):
            FJ[:, k - 1] = self.V[fv[k]] - self.V[fv[0]]
        return FJ

    def cell_facet_jacobian(self, f):
        fv = self.facet_vertices(f)
        FJ = zeros((self.tdim, self.tdim - 1))
        for k in range(1, len(fv)):
            FJ[:, k - 1] = self.Xref[fv[k]] - self.Xref[fv[0]]
        return FJ

    def facet_origin(self, f):
        return self.V[self.facet_vertices(f)[0]].copy()

    def cell_facet_origin(self, f):
        return self.Xref[self.facet_vertices(f)[0]].copy()

    def facet_area(self, f):
        if self.tdim == 1:
            return ONE
        return abs(pdet(self.facet_jacobian(f))) * self.ref_facet_volume

    def facet_jacobian_det(self, f):
        if self.tdim == 1:
            return ONE
        return pdet(self.facet_jacobian(f))

    def _outward_normal(self, verts, f, dim):
        """Unit vector in the span of the cell, orthogonal to facet f, away from opposite vertex f."""
        fv = self.ref["facets"][f]
        cen = sum((verts[v] for v in fv), zeros((dim,))) / S(len(fv))
        (opp,) = [v for v in range(self.tdim + 1) if v not in fv]
        d = cen - verts[opp]
        # orthonormalise the facet tangents (Gram-Schmidt) and project them out of d
        basis = []
        for k in range(1, len(fv)):
            t = verts[fv[k]] - verts[fv[0]]
            for b in basis:
                t = t - sum((t[i] * b[i] for i in range(dim)), ZERO) * b
            t = t / norm(t)
            basis.append(t)
        for b in basis:
            d = d - sum((d[i] * b[i] for i in range(dim)), ZERO) * b
        return d / norm(d)

    def facet_normal(self, f):
        return self._outward_normal(self.V, f, self.gdim)

    def reference_normal(self, f):
        return self._outward_normal(self.Xref, f, self.tdim)

    def facet_edge_vectors(self, f, reference=False):
        """Edge vectors of the current facet f (3 x dim)."""
        if self.tdim != 3:
            raise Undefined("facet edges need tdim 3")
        verts = self.Xref if reference else self.V
        fv = self.ref["facets"][f]
        rows = [verts[fv[b]] - verts[fv[a]] for a, b in TRIANGLE_EDGES]
        return np.array(rows, dtype=object)

    def facet_edge_lengths(self, f):
        fv = self.facet_vertices(f)
        return [norm(self.V[fv[b]] - self.V[fv[a]]) for a, b in TRIANGLE_EDGES]

    # -- points ----------------------------------------------------------------------------------
    def facet_point(self, f, bary):
        """Reference cell coordinates of the point of facet f with barycentric weights bary."""
        fv = self.facet_vertices(f)
        assert len(bary) == len(fv)
        s = sum(bary)
        X = zeros((self.tdim,))
        for w, v in zip(bary, fv):
            X = X + S(w) / S(s) * self.Xref[v]
        return X

    def to_physical(self, X):
        return self.x0 + matmul(self.J, np.array([[v] for v in X], dtype=object))[:, 0]

    def to_reference(self, x):
        d = np.array([[x[i] - self.x0[i]] for i in range(self.gdim)], dtype=object)
        return matmul(self.K, d)[:, 0]


def neighbour(cell, f, apex, perm=None):
    """A cell sharing facet f of `cell`, with the given opposite vertex `apex`.

    perm: local numbering of the new cell: list of length tdim+1 giving for each local vertex either
    ('f', k) = k-th vertex of the shared facet, or 'a' = apex.  Default: apex first.
    Returns (cell2, f2) with f2 the local facet number of the shared facet in cell2.
    """
    fv = cell.facet_vertices(f)
    shared = [list(cell.V[v]) for v in fv]
    if perm is None:
        perm = ["a"] + [("f", k) for k in range(len(fv))]
    verts = []
    for p in perm:
        if p == "a":
            verts.append(list(arr(apex)))
        else:
            verts.append(shared[p[1]])
    # local number of the shared facet in the new cell: the facet opposite the apex - except on an interval, whose
    # facet k IS vertex k (FEniCS reference cell), so it is the position of the shared vertex
    f2 = perm.index("a") if len(fv) > 1 or cell.tdim > 1 else perm.index(("f", 0))
    return ConcreteCell(cell.cellname, verts, orientation=cell.orientation), f2


def selftest():
    """Geometry identities that need no UFL. Returns number of checks."""
    from mc.sem.jet import close

    n = 0
    cells = [
        ConcreteCell("interval", [(1,), (3,)]),
        ConcreteCell("interval", [(1, 0), (2, 3)]),
        ConcreteCell("triangle", [(0, 0), (2, 1), (1, 3)]),
        ConcreteCell("triangle", [(0, 0), (1, 3), (2, 1)]),
        ConcreteCell("triangle", [(0, 0, 1), (2, 1, 0), (1, 3, 2)]),
        ConcreteCell("tetrahedron", [(0, 0, 0), (2, 1, 0), (1, 3, 1), (0, 1, 2)]),
    ]
    for c in cells:
        KJ = matmul(c.K, c.J)
        for i in range(c.tdim):
            for j in range(c.tdim):
                assert close(KJ[i, j], ONE if i == j else ZERO)
                n += 1
        R = c.circumradius()
        G = matmul(c.J.T.copy(), c.J)
        rhs = zeros((c.tdim, 1))
        for k in range(c.tdim):
            rhs[k, 0] = G[k, k] / 2
        cen = c.x0 + matmul(c.J, matmul(inv(G), rhs))[:, 0]
        for v in c.V:
            assert close(norm(v - cen), R)
            n += 1
        for f in range(c.tdim + 1):
            nv = c.facet_normal(f)
            assert close(norm(nv), ONE)
            n += 1
            fv = c.facet_vertices(f)
            for k in range(1, len(fv)):
                t = c.V[fv[k]] - c.V[fv[0]]
                assert close(sum((t[i] * nv[i] for i in range(c.gdim)), ZERO), ZERO)
                n += 1
            # outward: positive component along (facet point - opposite vertex)
            (opp,) = [v for v in range(c.tdim + 1) if v not in fv]
            d = c.V[fv[0]] - c.V[opp]
            assert sum((d[i] * nv[i] for i in range(c.gdim)), ZERO) > 0
            n += 1
        if c.cellname == "triangle":
            a, b, cc = c.edge_lengths()
            s = (a + b + cc) / 2
            assert close(c.volume(), mpmath.sqrt(s * (s - a) * (s - b) * (s - cc)))
            n += 1
        if c.cellname == "tetrahedron":
            # volume from Cayley-Menger
            d2 = [[sum((x * x for x in (c.V[i] - c.V[j])), ZERO) for j in range(4)] for i in range(4)]
            CM = zeros((5, 5))
            for i in range(5):
                for j in range(5):
                    if i == j:
                        CM[i, j] = ZERO
                    elif i == 0 or j == 0:
                        CM[i, j] = ONE
                    else:
                        CM[i, j] = d2[i - 1][j - 1]
            assert close(c.volume() ** 2, det(CM) / 288)
            n += 1
    return n
