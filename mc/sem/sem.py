"""Sem: the reference semantics of UFL expression *objects* (DESIGN.md 2.3, appendix A).

Interprets an expression node by node.  UFL classes are only *recognised* (type names, operands,
attributes); no UFL algorithm is called.  Values are model scalars / jets, tensors are numpy object
arrays of the node's ufl_shape.  Free indices are lexically scoped through the dict rho
(Index count -> int).
"""

import itertools

import mpmath
import numpy as np
from mpmath import mpc, mpf

from mc.sem import fields as F
from mc.sem.cells import cross3, det, inv, zeros
from mc.sem.jet import (
    MARGIN,
    ONE,
    TOL,
    ZERO,
    Ambiguous,
    Jet,
    S,
    Undefined,
    close,
    const_of,
    decide_lt,
    f_abs,
    f_conj,
    f_imag,
    f_pow,
    f_real,
    f_sign,
    f_sqrt,
    fn,
    fresh_tau,
    is_real,
    real_const,
)


class ModelGap(Exception):
    """A node type the model does not interpret (harness error if it reaches a comparison)."""


class Env:
    """Data environment: concrete cell(s), evaluation point, field data."""

    def __init__(self, cells, X0, facet=None, fields=None, qweight=None, name=""):
        # cells: dict side -> ConcreteCell; sides '+' and optionally '-'
        if not isinstance(cells, dict):
            cells = {"+": cells}
        self.cells = cells
        self.X0 = X0 if isinstance(X0, dict) else {"+": X0}
        if facet is None or isinstance(facet, dict):
            self.facet = facet or {}
        else:
            self.facet = {"+": facet}
        self.fields = fields or F.FieldData()
        self.qweight = S(qweight) if qweight is not None else mpf(3) / 8
        self.alias = {}
        self.name = name
        self.two_sided = "-" in cells
        self.jet_space = True  # put jets on the reference coordinates

    def describe(self):
        c = self.cells["+"]
        d = {
            "cell": c.cellname,
            "vertices": [[str(mpmath.nstr(x, 8)) for x in v] for v in c.V],
            "X0": [str(mpmath.nstr(x, 8)) for x in self.X0["+"]],
            "complex": self.fields.complex_mode,
            "name": self.name,
        }
        if self.facet:
            d["facet"] = dict(self.facet)
        if self.two_sided:
            d["vertices-"] = [[str(mpmath.nstr(x, 8)) for x in v] for v in self.cells["-"].V]
        return d


class Ctx:
    """Evaluation context: env + restriction side + Gateaux perturbations + label overrides."""

    __slots__ = ("env", "side", "pert", "labels", "memo", "coef_value_override")

    def __init__(self, env, side=None, pert=None, labels=None, coef_value_override=None):
        self.env = env
        self.side = side
        self.pert = pert or {}
        self.labels = labels or {}
        self.coef_value_override = coef_value_override or {}
        self.memo = {}

    def derive(self, **kw):
        d = dict(
            side=self.side,
            pert=self.pert,
            labels=self.labels,
            coef_value_override=self.coef_value_override,
        )
        d.update(kw)
        return Ctx(self.env, **d)

    def cell(self):
        return self.env.cells[self.side or "+"]

    def side_key(self):
        return self.side or "+"


# -----------------------------------------------------------------------------------------------
# helpers
# -----------------------------------------------------------------------------------------------


def as_array(v, shape):
    if shape == ():
        return v
    if isinstance(v, np.ndarray):
        return v
    a = np.empty(shape, dtype=object)
    a[...] = v
    return a


def tmap(f, v):
    """Apply scalar function f elementwise."""
    if isinstance(v, np.ndarray):
        out = np.empty(v.shape, dtype=object)
        for idx in np.ndindex(v.shape):
            out[idx] = f(v[idx])
        return out
    return f(v)


def tzip(f, a, b):
    if isinstance(a, np.ndarray) or isinstance(b, np.ndarray):
        sh = a.shape if isinstance(a, np.ndarray) else b.shape
        out = np.empty(sh, dtype=object)
        for idx in np.ndindex(sh):
            x = a[idx] if isinstance(a, np.ndarray) else a
            y = b[idx] if isinstance(b, np.ndarray) else b
            out[idx] = f(x, y)
        return out
    return f(a, b)


def Xjets(ctx):
    """Reference coordinate jets at the evaluation point of the current side."""
    side = ctx.side_key()
    X0 = ctx.env.X0[side]
    from mc.sem.jet import get_order

    if ctx.env.jet_space and get_order() > 0:
        return [Jet.var(k, X0[k]) for k in range(len(X0))]
    return list(X0)


def xjets(ctx):
    c = ctx.cell()
    X = Xjets(ctx)
    out = []
    for i in range(c.gdim):
        s = c.x0[i]
        for j in range(c.tdim):
            s = s + c.J[i, j] * X[j]
        out.append(s)
    return out


def dX(v, j):
    if isinstance(v, Jet):
        return v.d(j)
    return ZERO


def terminal_key(o, env):
    o = env.alias.get(o, o)
    n = type(o).__name__
    if n == "Coefficient":
        k = ("coef", o.count())
    elif n == "Argument":
        k = ("arg", o.number(), o.part())
    elif n == "Constant":
        k = ("const", o.count())
    elif n == "Cofunction":
        k = ("cofun", o.count())
    else:
        raise ModelGap(n)
    ka = getattr(env, "key_alias", None)
    if ka:
        k = ka.get(k, k)
    return k


# -----------------------------------------------------------------------------------------------
# the evaluator
# -----------------------------------------------------------------------------------------------


def sem(o, ctx, rho=None):
    """Value of expression object o in context ctx with index bindings rho."""
    if rho is None:
        rho = {}
    fi = o.ufl_free_indices
    try:
        key = (id(o), tuple(rho[i] for i in fi))
    except KeyError as e:
        raise Undefined(f"unbound free index {e} in {type(o).__name__}")
    hit = ctx.memo.get(key)
    if hit is not None:
        return hit[1]
    h = _dispatch(type(o))
    try:
        v = h(o, ctx, rho)
    except Undefined as e:
        # An unrestricted quantity in a two-sided environment still has a value if it is single-valued
        if ctx.side is None and ctx.env.two_sided and str(e).startswith("unrestricted"):
            try:
                vp = sem(o, _side_ctx(ctx, "+"), rho)
                vm = sem(o, _side_ctx(ctx, "-"), rho)
            except Undefined as e2:
                raise Undefined(f"no single-valued meaning ({e}; {e2})")
            if not values_close(vp, vm, mpf("1e-20"), const_only=True):
                raise Undefined(f"two-sided values differ ({e})")
            v = vp
        else:
            raise
    ctx.memo[key] = (o, v)
    return v


_HANDLERS = {}
_DISPATCH_CACHE = {}


def _dispatch(cls):
    h = _DISPATCH_CACHE.get(cls)
    if h is None:
        for k in cls.__mro__:
            h = _HANDLERS.get(k.__name__)
            if h is not None:
                break
        else:
            raise ModelGap(cls.__name__)
        _DISPATCH_CACHE[cls] = h
    return h


def handler(*names):
    def deco(f):
        for n in names:
            _HANDLERS[n] = f
        return f

    return deco


def idx_value(i, rho):
    n = type(i).__name__
    if n == "FixedIndex":
        return int(i)
    if n == "Index":
        try:
            return rho[i.count()]
        except KeyError:
            raise Undefined(f"unbound index {i}")
    raise ModelGap(n)


# --- terminals ---------------------------------------------------------------------------------


@handler("Zero")
def _zero(o, ctx, rho):
    return zeros(o.ufl_shape) if o.ufl_shape else ZERO


@handler("IntValue", "FloatValue", "ComplexValue", "ScalarValue")
def _scalar(o, ctx, rho):
    return S(o._value)


@handler("Identity")
def _identity(o, ctx, rho):
    n = o.ufl_shape[0]
    a = zeros((n, n))
    for i in range(n):
        a[i, i] = ONE
    return a


@handler("PermutationSymbol")
def _perm(o, ctx, rho):
    n = o.ufl_shape[0]
    a = zeros(o.ufl_shape)
    for p in itertools.permutations(range(n)):
        sgn = 1
        for x in range(n):
            for y in range(x + 1, n):
                if p[x] > p[y]:
                    sgn = -sgn
        a[p] = S(sgn)
    return a


def reference_value_of(f, ctx):
    """Reference value of form argument f on the current side."""
    env = ctx.env
    side = ctx.side_key()
    fs = f.ufl_function_space()
    el = fs.ufl_element()
    key = terminal_key(f, env)
    cell = ctx.cell()
    shift = getattr(env, "comp_shift", None)
    shift = shift.get(f, 0) if shift else 0
    # arguments (basis functions) are real also in complex mode (UFL's documented convention)
    # (decided on the data key, so that an argument aliased to a coefficient's data gets all of it)
    imag_ok = key[0] != "arg" or getattr(env.fields, "complex_arguments", False)
    return env.fields.reference_value(key, el, cell, side, Xjets(ctx), xjets(ctx), imag_ok=imag_ok, shift=shift)


def _is_continuous(f):
    el = f.ufl_function_space().ufl_element()
    return all(
        F.pullback_kind(l) == "IdentityPullback" for l, _, _ in F.leaves(el)
    ) and _in_h1(el)


def _in_h1(el):
    subs = list(el.sub_elements)
    if subs:
        return all(_in_h1(s) for s in subs)
    return str(el.sobolev_space) in ("H1", "H2", "HInf")


@handler("Coefficient", "Argument")
def _form_argument(o, ctx, rho):
    env = ctx.env
    if env.two_sided and ctx.side is None and not _is_continuous(o):
        raise Undefined("unrestricted discontinuous form argument in two-sided environment")
    ov = ctx.coef_value_override.get(o)
    if ov is not None:
        val = ov(ctx)
    else:
        el = o.ufl_function_space().ufl_element()
        R = reference_value_of(o, ctx)
        val = F.push_forward(el, R, ctx.cell())
    for tau, dirfn in ctx.pert.get(o, ()):
        d = dirfn(ctx)
        t = Jet.var(tau)
        val = tzip(lambda a, b: a + t * b, val, d)
    return val


@handler("Constant")
def _constant(o, ctx, rho):
    ov = ctx.coef_value_override.get(o)
    if ov is not None:
        return ov(ctx)
    return ctx.env.fields.constant_value(terminal_key(o, ctx.env), o.ufl_shape)


def _facet(ctx):
    f = ctx.env.facet.get(ctx.side_key())
    if f is None:
        raise Undefined("facet quantity outside a facet environment")
    return f


def _need_side(ctx, what):
    if ctx.env.two_sided and ctx.side is None:
        raise Undefined(f"unrestricted {what} in two-sided environment")


@handler("SpatialCoordinate")
def _x(o, ctx, rho):
    a = np.empty((ctx.cell().gdim,), dtype=object)
    a[:] = xjets(ctx)
    return a


@handler("CellCoordinate")
def _X(o, ctx, rho):
    _need_side(ctx, "CellCoordinate")
    X = Xjets(ctx)
    a = np.empty((len(X),), dtype=object)
    a[:] = X
    return a


@handler("GeometricQuantity")
def _geometry(o, ctx, rho):
    n = type(o).__name__
    c = ctx.cell()
    two = ctx.env.two_sided and ctx.side is None
    side_independent = ("FacetArea", "QuadratureWeight", "MinFacetEdgeLength", "MaxFacetEdgeLength")
    if two and n not in side_independent:
        raise Undefined(f"unrestricted {n} in two-sided environment")
    if n == "Jacobian":
        return c.J.copy()
    if n == "JacobianInverse":
        return c.K.copy()
    if n == "JacobianDeterminant":
        return c.detJ
    if n == "CellOrigin":
        return c.x0.copy()
    if n == "CellVertices":
        return c.V.copy()
    if n == "CellEdgeVectors":
        return c.edge_vectors()
    if n == "ReferenceCellEdgeVectors":
        return c.ref_edge_vectors()
    if n == "FacetEdgeVectors":
        return c.facet_edge_vectors(_facet(ctx))
    if n == "ReferenceFacetEdgeVectors":
        return c.facet_edge_vectors(_facet(ctx), reference=True)
    if n == "CellVolume":
        return c.volume()
    if n == "Circumradius":
        return c.circumradius()
    if n == "CellDiameter":
        return c.diameter()
    if n == "MinCellEdgeLength":
        return min(c.edge_lengths())
    if n == "MaxCellEdgeLength":
        return max(c.edge_lengths())
    if n == "ReferenceCellVolume":
        return c.ref_cell_volume
    if n == "CellOrientation":
        if c.gdim == c.tdim:
            return ONE if c.detJ > 0 else -ONE
        return c.orientation
    if n == "CellNormal":
        return c.cell_normal()
    if n == "QuadratureWeight":
        return ctx.env.qweight
    # facet quantities
    f = _facet(ctx)
    if n == "FacetNormal":
        return c.facet_normal(f)
    if n == "ReferenceNormal":
        return c.reference_normal(f)
    if n == "FacetArea":
        return c.facet_area(f)
    if n == "FacetJacobian":
        return c.facet_jacobian(f)
    if n == "FacetJacobianDeterminant":
        return c.facet_jacobian_det(f)
    if n == "FacetJacobianInverse":
        from mc.sem.cells import pinv

        return pinv(c.facet_jacobian(f))
    if n == "CellFacetJacobian":
        return c.cell_facet_jacobian(f)
    if n == "CellFacetJacobianDeterminant":
        from mc.sem.cells import pdet

        return pdet(c.cell_facet_jacobian(f)) if c.tdim > 1 else ONE
    if n == "CellFacetJacobianInverse":
        from mc.sem.cells import pinv

        return pinv(c.cell_facet_jacobian(f))
    if n == "FacetOrigin":
        return c.facet_origin(f)
    if n == "CellFacetOrigin":
        return c.cell_facet_origin(f)
    if n == "ReferenceFacetVolume":
        return c.ref_facet_volume
    if n == "MinFacetEdgeLength":
        return min(c.facet_edge_lengths(f))
    if n == "MaxFacetEdgeLength":
        return max(c.facet_edge_lengths(f))
    raise ModelGap(n)


# --- algebra -----------------------------------------------------------------------------------


@handler("Sum")
def _sum(o, ctx, rho):
    a, b = o.ufl_operands
    return tzip(lambda x, y: x + y, sem(a, ctx, rho), sem(b, ctx, rho))


@handler("Product")
def _product(o, ctx, rho):
    a, b = o.ufl_operands
    return sem(a, ctx, rho) * sem(b, ctx, rho)


def s_div(x, y):
    if const_of(y) == 0:
        raise Undefined("division by zero")
    return x / y


@handler("Division")
def _division(o, ctx, rho):
    a, b = o.ufl_operands
    return s_div(sem(a, ctx, rho), sem(b, ctx, rho))


@handler("Power")
def _power(o, ctx, rho):
    a, b = o.ufl_operands
    return f_pow(sem(a, ctx, rho), sem(b, ctx, rho))


@handler("Abs")
def _abs(o, ctx, rho):
    return tmap(f_abs, sem(o.ufl_operands[0], ctx, rho))


@handler("Conj")
def _conj(o, ctx, rho):
    return tmap(f_conj, sem(o.ufl_operands[0], ctx, rho))


@handler("Real")
def _real(o, ctx, rho):
    return tmap(f_real, sem(o.ufl_operands[0], ctx, rho))


@handler("Imag")
def _imag(o, ctx, rho):
    return tmap(f_imag, sem(o.ufl_operands[0], ctx, rho))


_MATH = {
    "Sqrt": None,
    "Exp": "exp",
    "Ln": "ln",
    "Cos": "cos",
    "Sin": "sin",
    "Tan": "tan",
    "Cosh": "cosh",
    "Sinh": "sinh",
    "Tanh": "tanh",
    "Acos": "acos",
    "Asin": "asin",
    "Atan": "atan",
    "Erf": "erf",
}


def math_fn(name, x):
    if name == "Sqrt":
        return f_sqrt(x)
    if name == "Ln" and const_of(x) == 0:
        raise Undefined("ln(0)")
    if name in ("Acos", "Asin"):
        a0 = const_of(x)
        if is_real(a0) and abs(mpmath.re(a0)) >= 1:
            raise Undefined(f"{name} outside (-1, 1)")
    return fn(_MATH[name], x)


@handler("MathFunction")
def _mathfunction(o, ctx, rho):
    return math_fn(type(o).__name__, sem(o.ufl_operands[0], ctx, rho))


@handler("Atan2")
def _atan2(o, ctx, rho):
    a, b = (sem(x, ctx, rho) for x in o.ufl_operands)
    ra, rb = real_const(a, "atan2"), real_const(b, "atan2")
    if rb == 0 and ra == 0:
        raise Undefined("atan2(0,0)")
    # atan2(a, b) = atan(a/b) + const on each smooth branch: use jets through atan of the ratio
    base = mpmath.atan2(ra, rb)
    if isinstance(a, Jet) or isinstance(b, Jet):
        if abs(rb) > abs(ra):
            j = fn("atan", s_div(a, b))
        else:
            j = -fn("atan", s_div(b, a))
        return j - const_of(j) + base
    return base


@handler("BesselFunction")
def _bessel(o, ctx, rho):
    nu, x = o.ufl_operands
    nuv = const_of(sem(nu, ctx, rho))
    return fn("bessel" + type(o).__name__[-1], sem(x, ctx, rho), nuv)


# --- indexing ----------------------------------------------------------------------------------


@handler("Indexed")
def _indexed(o, ctx, rho):
    A, mi = o.ufl_operands
    v = sem(A, ctx, rho)
    idx = tuple(idx_value(i, rho) for i in mi.indices())
    return v[idx]


@handler("IndexSum")
def _indexsum(o, ctx, rho):
    e, mi = o.ufl_operands
    (i,) = mi.indices()
    d = o.dimension()
    c = i.count()
    tot = None
    for k in range(d):
        r2 = dict(rho)
        r2[c] = k
        v = sem(e, ctx, r2)
        tot = v if tot is None else tzip(lambda x, y: x + y, tot, v)
    return tot


@handler("ComponentTensor")
def _componenttensor(o, ctx, rho):
    e, mi = o.ufl_operands
    inds = [i.count() for i in mi.indices()]
    sh = o.ufl_shape
    nd = len(inds)
    out = np.empty(sh, dtype=object)
    for comp in np.ndindex(sh[:nd]):
        r2 = dict(rho)
        for c, k in zip(inds, comp):
            r2[c] = k
        v = sem(e, ctx, r2)
        out[comp] = v
    return out


@handler("ListTensor")
def _listtensor(o, ctx, rho):
    out = np.empty(o.ufl_shape, dtype=object)
    for k, op in enumerate(o.ufl_operands):
        out[k] = sem(op, ctx, rho)
    return out


# --- conditionals ------------------------------------------------------------------------------


def s_eq(a, b):
    if close(a, b):
        return True
    d = abs(const_of(a) - const_of(b))
    if d < MARGIN:
        raise Ambiguous("eq too close")
    return False


@handler("EQ")
def _eq(o, ctx, rho):
    a, b = (sem(x, ctx, rho) for x in o.ufl_operands)
    return s_eq(a, b)


@handler("NE")
def _ne(o, ctx, rho):
    a, b = (sem(x, ctx, rho) for x in o.ufl_operands)
    return not s_eq(a, b)


@handler("LT")
def _lt(o, ctx, rho):
    a, b = (sem(x, ctx, rho) for x in o.ufl_operands)
    return decide_lt(a, b)


@handler("GT")
def _gt(o, ctx, rho):
    a, b = (sem(x, ctx, rho) for x in o.ufl_operands)
    return decide_lt(b, a)


@handler("LE")
def _le(o, ctx, rho):
    a, b = (sem(x, ctx, rho) for x in o.ufl_operands)
    return not decide_lt(b, a)


@handler("GE")
def _ge(o, ctx, rho):
    a, b = (sem(x, ctx, rho) for x in o.ufl_operands)
    return not decide_lt(a, b)


@handler("AndCondition")
def _and(o, ctx, rho):
    a, b = (sem(x, ctx, rho) for x in o.ufl_operands)
    return bool(a) and bool(b)


@handler("OrCondition")
def _or(o, ctx, rho):
    a, b = (sem(x, ctx, rho) for x in o.ufl_operands)
    return bool(a) or bool(b)


@handler("NotCondition")
def _not(o, ctx, rho):
    return not sem(o.ufl_operands[0], ctx, rho)


@handler("Conditional")
def _conditional(o, ctx, rho):
    c, t, f = o.ufl_operands
    return sem(t, ctx, rho) if sem(c, ctx, rho) else sem(f, ctx, rho)


def _tie(a, b):
    """Both operands are the same constant: min/max is that constant."""
    ja = isinstance(a, Jet) and not a.is_const()
    jb = isinstance(b, Jet) and not b.is_const()
    return not ja and not jb and close(const_of(a), const_of(b), mpf("1e-30"))


@handler("MinValue")
def _min(o, ctx, rho):
    a, b = (sem(x, ctx, rho) for x in o.ufl_operands)
    if _tie(a, b):
        return a
    return a if decide_lt(a, b) else b


@handler("MaxValue")
def _max(o, ctx, rho):
    a, b = (sem(x, ctx, rho) for x in o.ufl_operands)
    if _tie(a, b):
        return a
    return b if decide_lt(a, b) else a


# --- wrappers ----------------------------------------------------------------------------------


@handler("Variable")
def _variable(o, ctx, rho):
    e, label = o.ufl_operands
    ov = ctx.labels.get(label.count())
    if ov is not None:
        return ov(ctx, rho)
    return sem(e, ctx, rho)


@handler("PositiveRestricted", "NegativeRestricted")
def _restricted(o, ctx, rho):
    side = "+" if type(o).__name__ == "PositiveRestricted" else "-"
    if ctx.side is not None:
        raise Undefined("nested restriction")
    if not ctx.env.two_sided:
        raise Undefined("restriction in a one-sided environment")
    sub = _side_ctx(ctx, side)
    return sem(o.ufl_operands[0], sub, rho)


def _side_ctx(ctx, side):
    cache = ctx.memo.setdefault(("__side__", side), None)
    if cache is None:
        cache = ctx.derive(side=side)
        ctx.memo[("__side__", side)] = cache
    return cache


@handler("ReferenceValue")
def _reference_value(o, ctx, rho):
    (f,) = o.ufl_operands
    if ctx.env.two_sided and ctx.side is None:
        raise Undefined("unrestricted ReferenceValue in two-sided environment")
    if f in ctx.pert or f in ctx.coef_value_override:
        raise Undefined("ReferenceValue of a perturbed coefficient")
    return reference_value_of(f, ctx)


# --- derivatives -------------------------------------------------------------------------------


def ref_grad(v, tdim):
    """Append d/dX_j as last axis."""
    if isinstance(v, np.ndarray):
        out = np.empty(v.shape + (tdim,), dtype=object)
        for idx in np.ndindex(v.shape):
            for j in range(tdim):
                out[idx + (j,)] = dX(v[idx], j)
        return out
    out = np.empty((tdim,), dtype=object)
    for j in range(tdim):
        out[j] = dX(v, j)
    return out


def phys_grad(v, cell):
    """Append d/dx_i = sum_j K[j, i] d/dX_j as last axis."""
    rg = ref_grad(v, cell.tdim)
    out = np.empty(rg.shape[:-1] + (cell.gdim,), dtype=object)
    for idx in np.ndindex(rg.shape[:-1]):
        for i in range(cell.gdim):
            s = ZERO
            for j in range(cell.tdim):
                s = s + cell.K[j, i] * rg[idx + (j,)]
            out[idx + (i,)] = s
    return out


def _need_jets(ctx):
    from mc.sem.jet import get_order

    if not ctx.env.jet_space or get_order() < 1:
        raise ModelGap("derivative node evaluated with jet order 0 (harness must set_order)")


def _inner_side(o):
    """Side of a Restricted found below a chain of terminal modifiers (Grad, ReferenceGrad, ReferenceValue)."""
    while True:
        n = type(o).__name__
        if n == "PositiveRestricted":
            return "+"
        if n == "NegativeRestricted":
            return "-"
        if n in ("Grad", "ReferenceGrad", "ReferenceValue", "Div", "Curl", "NablaGrad", "NablaDiv", "ReferenceDiv"):
            o = o.ufl_operands[0]
            continue
        return None


def _deriv_cell(o, ctx, what):
    """The cell whose coordinates the derivative node o differentiates in."""
    if ctx.env.two_sided and ctx.side is None:
        s = _inner_side(o.ufl_operands[0])
        if s is None:
            raise Undefined(f"unrestricted {what} in two-sided environment")
        return ctx.env.cells[s]
    return ctx.cell()


@handler("ReferenceGrad")
def _reference_grad(o, ctx, rho):
    _need_jets(ctx)
    cell = _deriv_cell(o, ctx, "ReferenceGrad")
    return ref_grad(sem(o.ufl_operands[0], ctx, rho), cell.tdim)


@handler("Grad")
def _grad(o, ctx, rho):
    _need_jets(ctx)
    cell = _deriv_cell(o, ctx, "Grad")
    return phys_grad(sem(o.ufl_operands[0], ctx, rho), cell)


@handler("NablaGrad")
def _nabla_grad(o, ctx, rho):
    _need_jets(ctx)
    g = phys_grad(sem(o.ufl_operands[0], ctx, rho), _deriv_cell(o, ctx, type(o).__name__))
    return np.moveaxis(g, -1, 0).copy() if g.ndim > 1 else g


@handler("Div")
def _div(o, ctx, rho):
    _need_jets(ctx)
    g = phys_grad(sem(o.ufl_operands[0], ctx, rho), _deriv_cell(o, ctx, type(o).__name__))
    # div f = sum_i d f[..., i] / dx_i
    return _trace_last_two(g)


def _trace_last_two(g):
    n = g.shape[-1]
    if g.shape[-2] != n:
        raise Undefined("div of non-gdim tensor")
    out = np.empty(g.shape[:-2], dtype=object)
    for idx in np.ndindex(g.shape[:-2]):
        s = ZERO
        for i in range(n):
            s = s + g[idx + (i, i)]
        out[idx] = s
    return out if out.shape else out[()]


@handler("NablaDiv")
def _nabla_div(o, ctx, rho):
    _need_jets(ctx)
    g = phys_grad(sem(o.ufl_operands[0], ctx, rho), _deriv_cell(o, ctx, type(o).__name__))
    # nabla_div f = sum_i d f[i, ...] / dx_i
    g2 = np.moveaxis(g, 0, -2) if g.ndim > 2 else g
    return _trace_last_two(g2)


@handler("Curl")
def _curl(o, ctx, rho):
    _need_jets(ctx)
    f = sem(o.ufl_operands[0], ctx, rho)
    g = phys_grad(f, _deriv_cell(o, ctx, "Curl"))
    sh = o.ufl_operands[0].ufl_shape
    if sh == ():
        # 2D scalar -> vector (df/dy, -df/dx)
        out = np.empty((2,), dtype=object)
        out[0] = g[1]
        out[1] = -g[0]
        return out
    if sh == (2,):
        return g[1, 0] - g[0, 1]
    if sh == (3,):
        out = np.empty((3,), dtype=object)
        out[0] = g[2, 1] - g[1, 2]
        out[1] = g[0, 2] - g[2, 0]
        out[2] = g[1, 0] - g[0, 1]
        return out
    raise Undefined("curl shape")


@handler("ReferenceDiv")
def _reference_div(o, ctx, rho):
    _need_jets(ctx)
    g = ref_grad(sem(o.ufl_operands[0], ctx, rho), _deriv_cell(o, ctx, "ReferenceDiv").tdim)
    return _trace_last_two(g)


def _direction_fn(vexpr):
    def f(ctx):
        return sem(vexpr, ctx, {})

    return f


@handler("CoefficientDerivative")
def _coefficient_derivative(o, ctx, rho):
    if type(o).__name__ != "CoefficientDerivative":
        raise ModelGap(type(o).__name__)
    integrand, ws, vs, cds = o.ufl_operands
    tau = fresh_tau()
    pert = {k: list(v) for k, v in ctx.pert.items()}
    base = ctx
    for w, v in zip(ws.ufl_operands, vs.ufl_operands):
        if type(w).__name__ != "Coefficient":
            raise ModelGap(f"derivative w.r.t. {type(w).__name__}")

        def dirfn(c, v=v):
            # the direction is evaluated in the enclosing (outer) perturbation context
            c2 = base if c.side == base.side else _side_ctx(base, c.side)
            return sem(v, c2, {})

        pert.setdefault(w, []).append((tau, dirfn))
    cd = cds.ufl_operands
    for k in range(len(cd) // 2):
        g, dg = cd[2 * k], cd[2 * k + 1]
        if g in [w for w in ws.ufl_operands]:
            continue
        vlist = list(vs.ufl_operands)
        if len(vlist) != 1:
            raise ModelGap("coefficient_derivatives with several directions")

        def dirfn(c, g=g, dg=dg, v=vlist[0]):
            c2 = base if c.side == base.side else _side_ctx(base, c.side)
            dgv = sem(dg, c2, {})
            vv = sem(v, c2, {})
            gs = g.ufl_shape
            if not v.ufl_shape:
                return tmap(lambda x: x * vv, dgv) if gs else dgv * vv
            out = np.empty(gs, dtype=object) if gs else None
            for idx in np.ndindex(gs) if gs else [()]:
                s = ZERO
                for jdx in np.ndindex(v.ufl_shape):
                    s = s + dgv[idx + jdx] * vv[jdx]
                if gs:
                    out[idx] = s
                else:
                    return s
            return out

        pert.setdefault(g, []).append((tau, dirfn))
    sub = ctx.derive(pert=pert)
    val = sem(integrand, sub, rho)
    return tmap(lambda x: _tau_coeff(x, tau), val)


def _tau_coeff(x, tau):
    if isinstance(x, Jet):
        r = x.coeff_tau(tau)
        return r if r.c else ZERO
    return ZERO


@handler("VariableDerivative")
def _variable_derivative(o, ctx, rho):
    f, v = o.ufl_operands
    vs = v.ufl_shape
    fs = f.ufl_shape
    tn = type(v).__name__
    out = np.empty(fs + vs, dtype=object) if (fs + vs) else None
    for alpha in np.ndindex(vs) if vs else [()]:
        tau = fresh_tau()
        t = Jet.var(tau)
        if tn == "Variable":
            e, label = v.ufl_operands

            prev = ctx.labels.get(label.count())

            def ov(c, r, e=e, alpha=alpha, t=t, prev=prev, label=label):
                if prev is not None:
                    # an enclosing derivative w.r.t. the same variable already shifted it
                    base = prev(c, r)
                else:
                    base = sem(e, c.derive(labels={k: w for k, w in c.labels.items() if k != label.count()}), r)
                if alpha == ():
                    return base + t
                b = base.copy()
                b[alpha] = b[alpha] + t
                return b

            labels = dict(ctx.labels)
            labels[label.count()] = ov
            sub = ctx.derive(labels=labels)
        elif tn in ("Coefficient", "Constant"):
            outer = ctx

            prevc = ctx.coef_value_override.get(v)

            def ovc(c, alpha=alpha, t=t, prevc=prevc):
                # value of the coefficient itself (not its derivatives) is shifted
                if prevc is not None:
                    base = prevc(c)
                else:
                    o2 = dict(c.coef_value_override)
                    o2.pop(v, None)
                    base = sem(v, c.derive(coef_value_override=o2), {})
                if alpha == ():
                    return base + t
                b = base.copy()
                b[alpha] = b[alpha] + t
                return b

            cvo = dict(ctx.coef_value_override)
            cvo[v] = ovc
            sub = ctx.derive(coef_value_override=cvo)
        else:
            raise ModelGap(f"diff w.r.t. {tn}")
        val = sem(f, sub, rho)
        val = tmap(lambda x: _tau_coeff(x, tau), val)
        if out is None:
            return val
        if fs:
            for idx in np.ndindex(fs):
                out[idx + alpha] = val[idx]
        else:
            out[alpha] = val
    return out


# --- compound tensor algebra (definitions) -----------------------------------------------------


def _A(v):
    return v if isinstance(v, np.ndarray) else np.array(v, dtype=object)


@handler("Transposed")
def _transposed(o, ctx, rho):
    return sem(o.ufl_operands[0], ctx, rho).T.copy()


@handler("Trace")
def _trace(o, ctx, rho):
    a = sem(o.ufl_operands[0], ctx, rho)
    s = ZERO
    for i in range(a.shape[0]):
        s = s + a[i, i]
    return s


@handler("Dot")
def _dot(o, ctx, rho):
    a, b = (sem(x, ctx, rho) for x in o.ufl_operands)
    sa, sb = o.ufl_operands[0].ufl_shape, o.ufl_operands[1].ufl_shape
    if not sa or not sb:
        return a * b
    n = sa[-1]
    osh = sa[:-1] + sb[1:]
    out = np.empty(osh, dtype=object) if osh else None
    for ia in np.ndindex(sa[:-1]) if sa[:-1] else [()]:
        for ib in np.ndindex(sb[1:]) if sb[1:] else [()]:
            s = ZERO
            for k in range(n):
                s = s + a[ia + (k,)] * b[(k,) + ib]
            if out is None:
                return s
            out[ia + ib] = s
    return out


@handler("Inner")
def _inner(o, ctx, rho):
    a, b = (sem(x, ctx, rho) for x in o.ufl_operands)
    sh = o.ufl_operands[0].ufl_shape
    if not sh:
        return a * f_conj(b)
    s = ZERO
    for idx in np.ndindex(sh):
        s = s + a[idx] * f_conj(b[idx])
    return s


@handler("Outer")
def _outer(o, ctx, rho):
    a, b = (sem(x, ctx, rho) for x in o.ufl_operands)
    sa, sb = o.ufl_operands[0].ufl_shape, o.ufl_operands[1].ufl_shape
    if not sa and not sb:
        return f_conj(a) * b
    out = np.empty(sa + sb, dtype=object)
    for ia in np.ndindex(sa) if sa else [()]:
        for ib in np.ndindex(sb) if sb else [()]:
            x = a[ia] if sa else a
            y = b[ib] if sb else b
            out[ia + ib] = f_conj(x) * y
    return out


@handler("Cross")
def _cross(o, ctx, rho):
    a, b = (sem(x, ctx, rho) for x in o.ufl_operands)
    out = np.empty((3,), dtype=object)
    out[0] = a[1] * b[2] - a[2] * b[1]
    out[1] = a[2] * b[0] - a[0] * b[2]
    out[2] = a[0] * b[1] - a[1] * b[0]
    return out


@handler("Perp")
def _perp(o, ctx, rho):
    a = sem(o.ufl_operands[0], ctx, rho)
    out = np.empty((2,), dtype=object)
    out[0] = -a[1]
    out[1] = a[0]
    return out


@handler("Determinant")
def _determinant(o, ctx, rho):
    a = sem(o.ufl_operands[0], ctx, rho)
    sh = o.ufl_operands[0].ufl_shape
    if sh == ():
        return a
    if sh[0] == sh[1]:
        return det(a)
    # pseudo-determinant of a rectangular (real) matrix
    from mc.sem.cells import matmul

    g = det(matmul(a.T.copy(), a))
    return f_sqrt(g)


@handler("Inverse")
def _inverse(o, ctx, rho):
    a = sem(o.ufl_operands[0], ctx, rho)
    sh = o.ufl_operands[0].ufl_shape
    if sh == ():
        return s_div(ONE, a)
    if sh[0] == sh[1]:
        return inv(a)
    from mc.sem.cells import pinv

    return pinv(a)


@handler("Cofactor")
def _cofactor(o, ctx, rho):
    a = sem(o.ufl_operands[0], ctx, rho)
    n = a.shape[0]
    out = np.empty((n, n), dtype=object)
    for i in range(n):
        for j in range(n):
            rows = [r for r in range(n) if r != i]
            cols = [c for c in range(n) if c != j]
            minor = a[np.ix_(rows, cols)]
            out[i, j] = S((-1) ** (i + j)) * det(minor)
    return out


@handler("Deviatoric")
def _dev(o, ctx, rho):
    a = sem(o.ufl_operands[0], ctx, rho)
    n = a.shape[0]
    tr = ZERO
    for i in range(n):
        tr = tr + a[i, i]
    out = a.copy()
    for i in range(n):
        out[i, i] = out[i, i] - tr / n
    return out


@handler("Skew")
def _skew(o, ctx, rho):
    a = sem(o.ufl_operands[0], ctx, rho)
    return tzip(lambda x, y: (x - y) / 2, a, a.T.copy())


@handler("Sym")
def _sym(o, ctx, rho):
    a = sem(o.ufl_operands[0], ctx, rho)
    return tzip(lambda x, y: (x + y) / 2, a, a.T.copy())


@handler("ExprList", "ExprMapping", "MultiIndex", "Label")
def _internal(o, ctx, rho):
    raise ModelGap(f"{type(o).__name__} evaluated directly")


@handler("CellAvg", "FacetAvg", "CoordinateDerivative", "BaseFormOperator", "ReferenceCurl")
def _undefined(o, ctx, rho):
    raise ModelGap(type(o).__name__)


# -----------------------------------------------------------------------------------------------
# utilities for drivers
# -----------------------------------------------------------------------------------------------


def derivative_depth(o, _memo=None):
    """Max number of spatial-derivative nodes along any path (jet order needed)."""
    if _memo is None:
        _memo = {}
    k = id(o)
    if k in _memo:
        return _memo[k]
    n = type(o).__name__
    own = 1 if n in (
        "Grad",
        "ReferenceGrad",
        "Div",
        "Curl",
        "NablaGrad",
        "NablaDiv",
        "ReferenceDiv",
        "ReferenceCurl",
    ) else 0
    sub = 0
    for op in getattr(o, "ufl_operands", ()):
        sub = max(sub, derivative_depth(op, _memo))
    _memo[k] = own + sub
    return own + sub


def free_index_assignments(o):
    fi = o.ufl_free_indices
    dims = o.ufl_index_dimensions
    for vals in itertools.product(*[range(d) for d in dims]):
        yield dict(zip(fi, vals))


def evaluate_all(o, env, side=None):
    """Value of o for every assignment of its free indices: dict assignment-tuple -> value."""
    ctx = Ctx(env, side=side)
    out = {}
    for rho in free_index_assignments(o):
        out[tuple(sorted(rho.items()))] = sem(o, ctx, rho)
    return out


def values_close(a, b, tol=TOL, const_only=True):
    """Compare two values (scalars/jets/arrays). With const_only, jets are compared on constant terms."""
    if isinstance(a, np.ndarray) or isinstance(b, np.ndarray):
        a, b = _A(a), _A(b)
        if a.shape != b.shape:
            return False
        return all(values_close(a[i], b[i], tol, const_only) for i in np.ndindex(a.shape))
    if isinstance(a, bool) or isinstance(b, bool):
        return bool(a) == bool(b)
    if const_only:
        a, b = const_of(a), const_of(b)
    return close(a, b, tol)


def show(v, n=12):
    if isinstance(v, np.ndarray):
        return [show(x, n) for x in v]
    if isinstance(v, bool):
        return v
    return str(mpmath.nstr(const_of(v), n))
